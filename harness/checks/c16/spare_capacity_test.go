package c16

import (
	"context"
	"errors"
	"fmt"
	"io"
	"strings"
	"sync"
	"time"

	"github.com/cloudwego/eino/components/model"
	"github.com/cloudwego/eino/compose"
	"github.com/cloudwego/eino/schema"

	"verifharness/internal/gspec"
	"verifharness/internal/mon"
)

// Option VALUE slices that belong to the caller.
//
// compose.WithLambdaOption(xs...) / compose.WithChatModelOption(ms...) are given a slice the caller built and
// keeps using: collected with one append per value (so it has spare capacity), made with room for more, a
// window xs[:n] of a longer array whose tail holds the values of ANOTHER option, handed to two calls one after
// the other or at the same time with a different further option each. Whatever the slice looks like,
// "an option designated to a node reaches only that node" and "options of one call never leak into another
// call": a node receives, in order, exactly the values of the options that are undesignated for its type or
// designated to it, and the caller's array - the whole capacity, the only thing two calls that pass the same
// slice share - is the same after the calls as before.
//
// Generated per case: a chain of 2-4 lambdas of two option types (Invokable / Streamable, with
// implementation-specific options), optionally 1-2 chat models; 1-3 shared value slices and 1-3 further ones
// per call, each built in a PRNG-chosen way (exact, make(n, n+extra) with empty or occupied spare slots,
// append one at a time, tail window of another slice), of lambda values, of chat-model values through
// WithChatModelOption or through WithLambdaOption; undesignated or designated to a PRNG-chosen subset of the
// nodes of their type in PRNG order (DesignateNode(a, b), DesignateNodeWithPath, DesignateNode(a).DesignateNode(b));
// in PRNG order within the call. Then (1) one call, (2) two consecutive calls that reuse the shared slices (the
// same compose.Option value, or a new one made from the same slice), (3) the same two calls overlapping: a
// barrier in a node body holds the first call while the second one starts (and finishes, or reaches its own
// barrier). Reference router: gRoute (designation_gaps_test.go).

type scBase struct {
	ID    string `json:"id"`
	How   string `json:"how"`   // WithLambdaOption | WithChatModelOption
	Build string `json:"build"` // exact | make | append | tail
	Vals  []gVal `json:"values"`
	Spare int    `json:"spare_requested,omitempty"` // make: cap = len + Spare
	Fill  bool   `json:"spare_slots_occupied,omitempty"`
	Of    string `json:"tail_of,omitempty"` // tail: the slice whose spare slots these values occupy
	Cap   int    `json:"cap"`

	anys   []any          // the caller's slice (WithLambdaOption)
	mods   []model.Option // the caller's slice (WithChatModelOption)
	before []string       // fingerprint of every slot of the full-capacity view before the first call
}

func scValue(v gVal) any {
	switch v.Ty {
	case "model":
		return model.WithModel(v.ID)
	case "A":
		return gspec.OptA{ID: v.ID}
	}
	return gspec.OptB{ID: v.ID}
}

// scPrint: what a slot of a caller's slice holds
func scPrint(v any) string {
	switch x := v.(type) {
	case nil:
		return "<nil>"
	case gspec.OptA:
		return "A:" + x.ID
	case gspec.OptB:
		return "B:" + x.ID
	case model.Option:
		if c := model.GetCommonOptions(&model.Options{}, x); c.Model != nil {
			return "model:" + *c.Model
		}
		return "model:<zero>"
	}
	return fmt.Sprintf("?%T", v)
}

// view: the caller's array as far as the slice can reach (xs[:cap(xs)])
func (b *scBase) view() []string {
	var out []string
	if b.How == "WithChatModelOption" {
		for _, m := range b.mods[:cap(b.mods)] {
			out = append(out, scPrint(m))
		}
		return out
	}
	for _, v := range b.anys[:cap(b.anys)] {
		out = append(out, scPrint(v))
	}
	return out
}

// build makes the caller's slice the way the description says. Pure function of the description.
func (b *scBase) build(of *scBase) {
	n := len(b.Vals)
	if b.How == "WithChatModelOption" {
		var ms []model.Option
		switch b.Build {
		case "append":
			for _, v := range b.Vals {
				ms = append(ms, model.WithModel(v.ID))
			}
		case "make":
			ms = make([]model.Option, n, n+b.Spare)
			for i, v := range b.Vals {
				ms[i] = model.WithModel(v.ID)
			}
			if b.Fill {
				full := ms[:cap(ms)]
				for j := n; j < len(full); j++ {
					full[j] = model.WithModel(fmt.Sprintf("%s.s%d", b.ID, j-n))
				}
			}
		default:
			ms = make([]model.Option, n)
			for i, v := range b.Vals {
				ms[i] = model.WithModel(v.ID)
			}
		}
		b.mods, b.Cap = ms, cap(ms)
		b.before = b.view()
		return
	}
	var xs []any
	switch b.Build {
	case "append":
		for _, v := range b.Vals {
			xs = append(xs, scValue(v))
		}
	case "make":
		xs = make([]any, n, n+b.Spare)
		for i, v := range b.Vals {
			xs[i] = scValue(v)
		}
		if b.Fill {
			full := xs[:cap(xs)]
			for j := n; j < len(full); j++ {
				full[j] = scValue(gVal{b.Vals[0].Ty, fmt.Sprintf("%s.s%d", b.ID, j-n)})
			}
		}
	case "tail":
		// the values another slice's spare slots hold, passed as an option of their own
		xs = of.anys[len(of.anys):cap(of.anys)]
	default:
		xs = make([]any, n)
		for i, v := range b.Vals {
			xs[i] = scValue(v)
		}
	}
	b.anys, b.Cap = xs, cap(xs)
	b.before = b.view()
}

// scItem: one compose.Option of a call
type scItem struct {
	B      *scBase    `json:"slice"`
	Shared bool       `json:"shared_with_the_other_call,omitempty"`
	Paths  [][]string `json:"designated_to,omitempty"`
	Style  int        `json:"style"` // 0: DesignateNode(keys...) 1: DesignateNodeWithPath(paths...) 2: one DesignateNode per key
}

func (it scItem) option() compose.Option {
	var o compose.Option
	if it.B.How == "WithChatModelOption" {
		o = compose.WithChatModelOption(it.B.mods...)
	} else {
		o = compose.WithLambdaOption(it.B.anys...)
	}
	if len(it.Paths) == 0 {
		return o
	}
	var keys []string
	var ps []*compose.NodePath
	for _, p := range it.Paths {
		keys = append(keys, p[0])
		ps = append(ps, compose.NewNodePath(p...))
	}
	switch it.Style {
	case 0:
		o = o.DesignateNode(keys...)
	case 1:
		o = o.DesignateNodeWithPath(ps...)
	default:
		for _, k := range keys {
			o = o.DesignateNode(k)
		}
	}
	return o
}

func (it scItem) gopt() gOpt { return gOpt{Vals: it.B.Vals, Paths: it.Paths, How: it.B.How} }

type scBarrier struct {
	path    string
	once    sync.Once
	entered chan struct{}
	release chan struct{}
}

type scEnv struct {
	mu      sync.Mutex
	got     map[string][]string // call|path -> payloads
	ran     map[string]int
	barrier map[string]*scBarrier // call -> where it is held
}

func (e *scEnv) note(call, path string, ps []string) {
	e.mu.Lock()
	e.got[call+"|"+path] = append(e.got[call+"|"+path], ps...)
	e.ran[call+"|"+path]++
	b := e.barrier[call]
	e.mu.Unlock()
	if b != nil && b.path == path {
		b.once.Do(func() { close(b.entered) })
		<-b.release
	}
}

func scCallOf(in []*schema.Message) string {
	if len(in) == 0 || in[0] == nil {
		return "?"
	}
	return in[0].Content
}

func scLambda[O any](path string, env *scEnv, streamable bool, tag func(O) string) *compose.Lambda {
	body := func(in []*schema.Message, opts []O) []*schema.Message {
		var ps []string
		for _, o := range opts {
			ps = append(ps, tag(o))
		}
		env.note(scCallOf(in), path, ps)
		return in
	}
	if streamable {
		return compose.StreamableLambdaWithOption(func(_ context.Context, in []*schema.Message, opts ...O) (*schema.StreamReader[[]*schema.Message], error) {
			return schema.StreamReaderFromArray([][]*schema.Message{body(in, opts)}), nil
		})
	}
	return compose.InvokableLambdaWithOption(func(_ context.Context, in []*schema.Message, opts ...O) ([]*schema.Message, error) {
		return body(in, opts), nil
	})
}

type scModel struct {
	path string
	env  *scEnv
}

func (m *scModel) note(in []*schema.Message, opts []model.Option) {
	var ps []string
	for _, o := range opts {
		ps = append(ps, scPrint(o))
	}
	m.env.note(scCallOf(in), m.path, ps)
}

func (m *scModel) Generate(_ context.Context, in []*schema.Message, opts ...model.Option) (*schema.Message, error) {
	m.note(in, opts)
	return schema.AssistantMessage(scCallOf(in), nil), nil
}

func (m *scModel) Stream(_ context.Context, in []*schema.Message, opts ...model.Option) (*schema.StreamReader[*schema.Message], error) {
	m.note(in, opts)
	return schema.StreamReaderFromArray([]*schema.Message{schema.AssistantMessage(scCallOf(in), nil)}), nil
}

func (m *scModel) BindTools(_ []*schema.ToolInfo) error { return nil }

// scGraph: a chain, in PRNG order, of 2-4 lambdas (option type A or B) and 0-2 chat models; a chat model is
// followed by a lambda without options ("conv") that turns its message into a list again.
func scGraph(rng *mon.Rand) (nodes []*gNode, streamable map[string]bool) {
	nl := 2 + rng.Intn(3)
	one := -1
	if rng.Bool() {
		one = rng.Intn(2) // all lambdas take the same option type
	}
	var units []*gNode
	for i := 0; i < nl; i++ {
		ty := one
		if ty < 0 {
			ty = rng.Intn(2)
		}
		units = append(units, &gNode{Kind: []string{"lamA", "lamB"}[ty]})
	}
	if rng.Prob(0.4) {
		for i, nm := 0, 1+rng.Intn(2); i < nm; i++ {
			units = append(units, &gNode{Kind: "model"})
		}
	}
	streamable = map[string]bool{}
	for i, p := range rng.Perm(len(units)) {
		u := units[p]
		u.Key = fmt.Sprintf("%c.%s", 'a'+i, rng.Str(0, 2)) // never one of the reserved keys ("end", "start")
		nodes = append(nodes, u)
		if u.Kind == "model" {
			nodes = append(nodes, &gNode{Key: u.Key + "_conv", Kind: "conv"})
		} else {
			streamable[u.Key] = rng.Prob(0.3)
		}
	}
	return nodes, streamable
}

func scBuildGraph(ctx context.Context, nodes []*gNode, streamable map[string]bool, env *scEnv) (compose.Runnable[[]*schema.Message, []*schema.Message], error) {
	g := compose.NewGraph[[]*schema.Message, []*schema.Message]()
	prev := compose.START
	for _, n := range nodes {
		var err error
		switch n.Kind {
		case "model":
			err = g.AddChatModelNode(n.Key, &scModel{path: n.Key, env: env})
		case "lamA":
			err = g.AddLambdaNode(n.Key, scLambda(n.Key, env, streamable[n.Key], func(o gspec.OptA) string { return "A:" + o.ID }))
		case "lamB":
			err = g.AddLambdaNode(n.Key, scLambda(n.Key, env, streamable[n.Key], func(o gspec.OptB) string { return "B:" + o.ID }))
		default:
			err = g.AddLambdaNode(n.Key, compose.InvokableLambda(func(_ context.Context, m *schema.Message) ([]*schema.Message, error) {
				return []*schema.Message{schema.UserMessage(m.Content)}, nil
			}))
		}
		if err != nil {
			return nil, err
		}
		if err = g.AddEdge(prev, n.Key); err != nil {
			return nil, err
		}
		prev = n.Key
	}
	if err := g.AddEdge(prev, compose.END); err != nil {
		return nil, err
	}
	return g.Compile(ctx)
}

// scGen: the generator of the value slices and options of one case
type scGen struct {
	rng   *mon.Rand
	nodes []*gNode
	byTy  map[string][]string // option type -> keys of the nodes that take it, in chain order
	tys   []string            // option types some node takes
}

func newScGen(rng *mon.Rand, nodes []*gNode) *scGen {
	g := &scGen{rng: rng, nodes: nodes, byTy: map[string][]string{}}
	for _, n := range nodes {
		if t := n.takes(); t != "" {
			if len(g.byTy[t]) == 0 {
				g.tys = append(g.tys, t)
			}
			g.byTy[t] = append(g.byTy[t], n.Key)
		}
	}
	return g
}

// base: a new value slice. id is part of every value's payload.
func (g *scGen) base(id string, maxVals int) *scBase {
	r := g.rng
	ty := mon.PickOne(r, g.tys)
	b := &scBase{ID: id, How: "WithLambdaOption"}
	if ty == "model" && r.Bool() {
		b.How = "WithChatModelOption"
	}
	n := mon.PickOne(r, []int{1, 2, 3, 3, 4, 5})
	if n > maxVals {
		n = 1 + r.Intn(maxVals)
	}
	for v := 0; v < n; v++ {
		b.Vals = append(b.Vals, gVal{ty, fmt.Sprintf("%s.%d", id, v)})
	}
	b.Build = mon.PickOne(r, []string{"make", "make", "append", "append", "exact"})
	if b.Build == "append" && r.Prob(0.6) {
		// sizes at which a slice that grew by append has room left
		for len(b.Vals) != 3 && len(b.Vals) != 5 {
			b.Vals = append(b.Vals, gVal{ty, fmt.Sprintf("%s.%d", id, len(b.Vals))})
		}
	}
	if b.Build == "make" {
		b.Spare = 1 + r.Intn(3)
		b.Fill = r.Bool()
	}
	return b
}

// target: nothing (undesignated) or a subset, in PRNG order, of the nodes that take the values' type
func (g *scGen) target(b *scBase, several float64) ([][]string, int) {
	r := g.rng
	mixed := false
	for _, v := range b.Vals {
		mixed = mixed || v.Ty != b.Vals[0].Ty
	}
	if mixed || r.Prob(0.2) {
		return nil, 0
	}
	cands := g.byTy[b.Vals[0].Ty]
	k := 1
	if len(cands) > 1 && r.Prob(several) {
		k = 2 + r.Intn(len(cands)-1)
	}
	var ps [][]string
	for _, i := range r.Perm(len(cands))[:k] {
		ps = append(ps, []string{cands[i]})
	}
	return ps, r.Intn(3)
}

type scCall struct {
	ID     string   `json:"call"`
	Items  []scItem `json:"options"`
	Stream bool     `json:"stream"`
	Held   string   `json:"held_in_node,omitempty"`

	opts []compose.Option
	err  error
	pnc  *mon.Panic
	done chan struct{}
}

// scCase: everything the calls of one mode share
type scCase struct {
	Mode    string    `json:"mode"`
	Nodes   []*gNode  `json:"chain"`
	Shared  []*scBase `json:"shared_slices"`
	Reuse   bool      `json:"same_option_value_in_both_calls"`
	Stagger bool      `json:"second_call_held_too,omitempty"`
	Calls   []*scCall `json:"calls"`
	all     []*scBase // every slice of the case
}

func (g *scGen) gen(mode string, ncalls int) *scCase {
	r := g.rng
	c := &scCase{Mode: mode, Nodes: g.nodes, Reuse: r.Bool()}
	var sharedItems []scItem
	for i, ns := 0, 1+r.Intn(3); i < ns; i++ {
		b := g.base(fmt.Sprintf("%s-s%d", mode, i), 5)
		if b.How == "WithLambdaOption" && len(g.byTy) > 1 && len(g.byTy["A"]) > 0 && len(g.byTy["B"]) > 0 && r.Prob(0.12) {
			// values of both lambda option types in one slice: every value goes to the nodes of its type
			// (such an option can only be undesignated)
			for v := range b.Vals {
				b.Vals[v].Ty = []string{"A", "B"}[r.Intn(2)]
			}
		}
		b.build(nil)
		c.Shared = append(c.Shared, b)
		c.all = append(c.all, b)
		it := scItem{B: b, Shared: true}
		it.Paths, it.Style = g.target(b, 0.6)
		sharedItems = append(sharedItems, it)
		if b.Build == "make" && b.Fill && b.How == "WithLambdaOption" && r.Prob(0.6) {
			// the occupied spare slots are the values of another option of the same caller
			t := &scBase{ID: b.ID + ".tail", How: b.How, Build: "tail", Of: b.ID}
			for j := 0; j < b.Cap-len(b.Vals); j++ {
				t.Vals = append(t.Vals, gVal{b.Vals[0].Ty, fmt.Sprintf("%s.s%d", b.ID, j)})
			}
			t.build(b)
			c.Shared = append(c.Shared, t)
			c.all = append(c.all, t)
			ti := scItem{B: t, Shared: true}
			ti.Paths, ti.Style = g.target(t, 0.4)
			sharedItems = append(sharedItems, ti)
		}
	}
	var sharedOpts []compose.Option
	if c.Reuse {
		for _, it := range sharedItems {
			sharedOpts = append(sharedOpts, it.option())
		}
	}
	for k := 0; k < ncalls; k++ {
		call := &scCall{ID: fmt.Sprintf("%s%d", mode, k+1), Stream: r.Prob(0.3), done: make(chan struct{})}
		type entry struct {
			it  scItem
			opt compose.Option
		}
		var es []entry
		for i, it := range sharedItems {
			if c.Reuse {
				es = append(es, entry{it, sharedOpts[i]})
				continue
			}
			if k > 0 && r.Prob(0.4) {
				// a new option from the same slice, addressed to other nodes this time
				it.Paths, it.Style = g.target(it.B, 0.5)
			}
			es = append(es, entry{it, it.option()})
		}
		var extras []entry
		for i, nx := 0, 1+r.Intn(3); i < nx; i++ {
			b := g.base(fmt.Sprintf("%s-x%d", call.ID, i), 3)
			b.build(nil)
			c.all = append(c.all, b)
			it := scItem{B: b}
			it.Paths, it.Style = g.target(b, 0.3)
			extras = append(extras, entry{it, it.option()})
		}
		if r.Prob(0.6) {
			es = append(es, extras...) // the shared ones first, then what this call adds
		} else {
			es = append(es, extras...)
			sh := make([]entry, len(es))
			for i, p := range r.Perm(len(es)) {
				sh[i] = es[p]
			}
			es = sh
		}
		for _, e := range es {
			call.Items = append(call.Items, e.it)
			call.opts = append(call.opts, e.opt)
		}
		c.Calls = append(c.Calls, call)
	}
	return c
}

func (c *scCase) digest() string {
	var sb strings.Builder
	sb.WriteString(c.Mode)
	for _, n := range c.Nodes {
		sb.WriteString("|" + n.Kind)
	}
	for _, call := range c.Calls {
		for _, it := range call.Items {
			fmt.Fprintf(&sb, ";%s/%s/%d/%d/%v/%d", it.B.How, it.B.Build, len(it.B.Vals), it.B.Cap, it.Paths, it.Style)
		}
		sb.WriteString("#")
	}
	return sb.String()
}

func scRun(ctx context.Context, r compose.Runnable[[]*schema.Message, []*schema.Message], call *scCall) {
	defer close(call.done)
	call.pnc = mon.Safe(func() {
		in := []*schema.Message{schema.UserMessage(call.ID)}
		if !call.Stream {
			_, call.err = r.Invoke(ctx, in, call.opts...)
			return
		}
		sr, err := r.Stream(ctx, in, call.opts...)
		if err != nil {
			call.err = err
			return
		}
		defer sr.Close()
		for {
			if _, err = sr.Recv(); err != nil {
				if !errors.Is(err, io.EOF) {
					call.err = err
				}
				return
			}
		}
	})
}

// scEither: closed as soon as one of the two is
func scEither(a, b <-chan struct{}) <-chan struct{} {
	out := make(chan struct{})
	go func() {
		select {
		case <-a:
		case <-b:
		}
		close(out)
	}()
	return out
}

// spareCapacityCase: see the comment at the top of the file.
func spareCapacityCase(ctx context.Context, rep *mon.Reporter, rng *mon.Rand) {
	nodes, streamable := scGraph(rng)
	env := &scEnv{got: map[string][]string{}, ran: map[string]int{}, barrier: map[string]*scBarrier{}}
	r, err := scBuildGraph(ctx, nodes, streamable, env)
	if err != nil {
		rep.Violation(ID+"/spare-capacity/build-error", err.Error(), nodes)
		return
	}
	g := newScGen(rng, nodes)
	for _, mode := range []string{"one-call", "consecutive-calls", "overlapping-calls"} {
		ncalls := 2
		if mode == "one-call" {
			ncalls = 1
		}
		c := g.gen(mode, ncalls)
		ok := true
		switch mode {
		case "overlapping-calls":
			ok = scOverlap(ctx, rep, rng, r, env, c)
		default:
			for _, call := range c.Calls {
				go scRun(ctx, r, call)
				if !scWait(rep, c, call.done, nil) {
					return
				}
				// after every call: what the caller owns is what it was
				if !scJudgeCall(rep, c, env, call) || !scJudgeSlices(rep, c) {
					return
				}
			}
		}
		if !ok {
			return
		}
		if mode == "overlapping-calls" {
			for _, call := range c.Calls {
				if !scJudgeCall(rep, c, env, call) {
					return
				}
			}
			if !scJudgeSlices(rep, c) {
				return
			}
		}
		spare, designated := false, false
		for _, call := range c.Calls {
			for _, it := range call.Items {
				spare = spare || it.B.Cap > len(it.B.Vals)
				designated = designated || len(it.Paths) > 0
			}
		}
		if spare && designated {
			rep.NonTrivial("spare|" + c.digest())
		}
		rep.Distinct("spare_capacity_cases", c.digest())
	}
}

// scWait waits for done; held: the barriers to open if nothing can move any more.
func scWait(rep *mon.Reporter, c *scCase, done <-chan struct{}, held []*scBarrier) bool {
	wres, dump := mon.WaitDone(done, 120*time.Second)
	if wres == mon.Finished {
		return true
	}
	for _, b := range held {
		close(b.release)
	}
	if wres == mon.Stuck {
		where, detail := gspec.StuckSignature(dump)
		rep.Violation(ID+"/spare-capacity/hang/"+where, detail, c)
	} else {
		rep.Inconclusive("spare-capacity: watchdog")
	}
	return false
}

// scOverlap: the first call is held inside a node body; the second call starts meanwhile and either runs to its
// end or is held in a node body of its own until the first one has finished.
func scOverlap(ctx context.Context, rep *mon.Reporter, rng *mon.Rand, r compose.Runnable[[]*schema.Message, []*schema.Message], env *scEnv, c *scCase) bool {
	var bodies []string // the nodes whose bodies are ours
	for _, n := range c.Nodes {
		if n.takes() != "" {
			bodies = append(bodies, n.Key)
		}
	}
	c1, c2 := c.Calls[0], c.Calls[1]
	mk := func(call *scCall, i int) *scBarrier {
		call.Held = bodies[i]
		return &scBarrier{path: bodies[i], entered: make(chan struct{}), release: make(chan struct{})}
	}
	b1 := mk(c1, rng.Intn(len(bodies)-1)) // at least one of our bodies runs after it
	var b2 *scBarrier
	if c.Stagger = rng.Prob(0.4); c.Stagger {
		b2 = mk(c2, rng.Intn(len(bodies)))
	}
	env.mu.Lock()
	env.barrier[c1.ID] = b1
	if b2 != nil {
		env.barrier[c2.ID] = b2
	}
	env.mu.Unlock()

	go scRun(ctx, r, c1)
	if !scWait(rep, c, scEither(b1.entered, c1.done), []*scBarrier{b1}) {
		return false
	}
	select {
	case <-b1.entered:
		rep.Count("spare_capacity_second_call_started_while_first_held", 1)
	default: // the first call ended before it got there (it failed): judged below
	}
	go scRun(ctx, r, c2)
	if b2 == nil {
		if !scWait(rep, c, c2.done, []*scBarrier{b1}) {
			return false
		}
		close(b1.release)
		return scWait(rep, c, c1.done, nil)
	}
	if !scWait(rep, c, scEither(b2.entered, c2.done), []*scBarrier{b1, b2}) {
		return false
	}
	close(b1.release)
	if !scWait(rep, c, c1.done, []*scBarrier{b2}) {
		return false
	}
	close(b2.release)
	return scWait(rep, c, c2.done, nil)
}

// scJudgeCall: every node received, in order, exactly the values the reference router delivers to it.
func scJudgeCall(rep *mon.Reporter, c *scCase, env *scEnv, call *scCall) bool {
	rep.AddEvaluations(1)
	rep.Count("spare_capacity_calls", 1)
	if call.pnc != nil {
		rep.Violation(ID+"/spare-capacity/panic/"+c.Mode, fmt.Sprintf("call %s panicked: %s\n%s", call.ID, call.pnc.Value, call.pnc.Stack), c)
		return false
	}
	if call.err != nil {
		rep.Violation(ID+"/spare-capacity/valid-call-failed/"+c.Mode, fmt.Sprintf("every option of call %s is undesignated or designated to existing nodes of its type, yet the call failed: %v\noptions: %s", call.ID, call.err, renderJSON(call.Items)), c)
		return false
	}
	rt := &gRoute{exp: map[string][]string{}, limits: map[string]int{}}
	for _, it := range call.Items {
		o := it.gopt()
		if len(o.Paths) == 0 {
			rt.deliver(c.Nodes, "", o, nil)
		}
		for _, p := range o.Paths {
			rt.deliver(c.Nodes, "", o, p)
		}
	}
	if rt.bad != "" {
		rep.Inconclusive("spare-capacity: the generator made an invalid designation: " + rt.bad)
		return false
	}
	var others []string
	for _, oc := range c.Calls {
		if oc != call {
			others = append(others, oc.ID+"-")
		}
	}
	env.mu.Lock()
	defer env.mu.Unlock()
	for _, n := range c.Nodes {
		if n.takes() == "" {
			continue
		}
		if k := env.ran[call.ID+"|"+n.Key]; k != 1 {
			rep.Violation(ID+"/spare-capacity/node-did-not-run-once/"+c.Mode, fmt.Sprintf("node %s of the chain ran %d times in call %s", n.Key, k, call.ID), c)
			return false
		}
		got, want := env.got[call.ID+"|"+n.Key], rt.exp[n.Key]
		rep.Count("spare_capacity_node_option_lists_checked", 1)
		if strings.Join(got, ",") == strings.Join(want, ",") {
			continue
		}
		ws, gs := map[string]bool{}, map[string]bool{}
		for _, w := range want {
			ws[w] = true
		}
		for _, x := range got {
			gs[x] = true
		}
		extra, missing, foreign := false, false, false
		for _, x := range got {
			if !ws[x] {
				extra = true
				for _, o := range others {
					// "<type>:<call>-x<i>.<v>": a value of an option that only the other call was given
					if i := strings.IndexByte(x, ':'); i >= 0 && strings.HasPrefix(x[i+1:], o) {
						foreign = true
					}
				}
			}
		}
		for _, w := range want {
			if !gs[w] {
				missing = true
			}
		}
		cl := "wrong-order-or-multiplicity"
		switch {
		case foreign:
			cl = "received-option-of-another-call"
		case extra:
			cl = "received-option-not-addressed-to-it"
		case missing:
			cl = "did-not-receive-option-addressed-to-it"
		}
		rep.Violation(ID+"/spare-capacity/"+cl+"/"+c.Mode, fmt.Sprintf("call %s: node %s received %v, the reference router delivers %v\noptions of the call, in order: %s", call.ID, n.Key, got, want, renderJSON(call.Items)), c)
		return false
	}
	return true
}

// scJudgeSlices: the arrays behind the slices the caller passed (with xs...) hold what they held before.
func scJudgeSlices(rep *mon.Reporter, c *scCase) bool {
	for _, b := range c.all {
		now := b.view()
		rep.Count("spare_capacity_caller_slices_checked", 1)
		if b.Cap > len(b.Vals) {
			rep.Count("spare_capacity_caller_slices_with_spare_capacity_checked", 1)
		}
		if strings.Join(now, ",") != strings.Join(b.before, ",") {
			rep.Violation(ID+"/spare-capacity/caller-slice-modified/"+b.How, fmt.Sprintf("mode %s: the caller's slice %s (len %d, cap %d, built by %q, passed as compose.%s(xs...)) held %v (whole capacity) before the call(s) and holds %v afterwards", c.Mode, b.ID, len(b.Vals), b.Cap, b.Build, b.How, b.before, now), c)
			return false
		}
	}
	return true
}
