package c16

import (
	"context"
	"encoding/json"
	"errors"
	"fmt"
	"io"
	"strings"
	"sync"

	"github.com/cloudwego/eino/components/model"
	"github.com/cloudwego/eino/compose"
	"github.com/cloudwego/eino/schema"

	"verifharness/internal/gspec"
	"verifharness/internal/mon"
)

// Generated graphs of chat models, lambdas of two option types, pass-through nodes and nested graphs
// (depth <= 3), and call options of every kind addressed to every kind of node:
//
//   - a chat-model option, a lambda option, ONE option that carries values of several option types
//     (WithLambdaOption takes ...any: OptA+OptB, or a lambda option next to a chat-model option), and a
//     run-time step limit (an option for graphs);
//   - undesignated, or designated to a chat model, a lambda, a pass-through node, a nested graph, a path
//     below a non-graph node, an unknown node; one or two paths per option.
//
// Reference: a value reaches a node iff the node is of the value's component/option type and the option is
// undesignated there or designated to it (or to a graph around it); a node that cannot take a value that is
// DESIGNATED to it (another type, a pass-through node, a step limit for a non-graph) makes the call an error;
// a step limit designated to a nested graph bounds that graph's steps and nothing else.

type gNode struct {
	Key  string   `json:"key"`
	Kind string   `json:"kind"` // model | lamA | lamB | pass | graph
	Sub  []*gNode `json:"sub,omitempty"`
}

// takes: the option type a node takes ("" = none)
func (n *gNode) takes() string {
	switch n.Kind {
	case "model":
		return "model"
	case "lamA":
		return "A"
	case "lamB":
		return "B"
	}
	return ""
}

type gRec struct {
	mu  sync.Mutex
	got map[string][]string // call|path -> payloads
}

func (r *gRec) add(call, path string, ps []string) {
	r.mu.Lock()
	r.got[call+"|"+path] = append(r.got[call+"|"+path], ps...)
	r.got["ran|"+call+"|"+path] = append(r.got["ran|"+call+"|"+path], "x")
	r.mu.Unlock()
}

type gModel struct {
	path string
	rec  *gRec
}

func (m *gModel) note(in []*schema.Message, opts []model.Option) {
	var ps []string
	for _, o := range opts {
		if c := model.GetCommonOptions(&model.Options{}, o); c.Model != nil {
			ps = append(ps, "model:"+*c.Model)
		}
	}
	m.rec.add(in[0].Content, m.path, ps)
}

func (m *gModel) Generate(_ context.Context, in []*schema.Message, opts ...model.Option) (*schema.Message, error) {
	m.note(in, opts)
	return schema.AssistantMessage(in[0].Content, nil), nil
}

func (m *gModel) Stream(_ context.Context, in []*schema.Message, opts ...model.Option) (*schema.StreamReader[*schema.Message], error) {
	m.note(in, opts)
	return schema.StreamReaderFromArray([]*schema.Message{schema.AssistantMessage(in[0].Content, nil)}), nil
}

func (m *gModel) BindTools(_ []*schema.ToolInfo) error { return nil }

func gLambda[O any](path string, rec *gRec, tag func(O) string) *compose.Lambda {
	return compose.InvokableLambdaWithOption(func(_ context.Context, in *schema.Message, opts ...O) ([]*schema.Message, error) {
		var ps []string
		for _, o := range opts {
			ps = append(ps, tag(o))
		}
		rec.add(in.Content, path, ps)
		return []*schema.Message{schema.UserMessage(in.Content)}, nil
	})
}

// genUnits: a chain of units; a unit is (chat model, lambda), a pass-through node, or a nested graph.
func genUnits(rng *mon.Rand, prefix string, depth int, n int) []*gNode {
	var out []*gNode
	for i := 0; i < n; i++ {
		k := fmt.Sprintf("%s%c", prefix, 'a'+i)
		switch r := rng.Intn(10); {
		case r < 2:
			out = append(out, &gNode{Key: k + "p", Kind: "pass"})
		case r < 5 && depth > 0:
			out = append(out, &gNode{Key: k + "g", Kind: "graph", Sub: genUnits(rng, k+"_", depth-1, 1+rng.Intn(3))})
		default:
			out = append(out, &gNode{Key: k + "m", Kind: "model"}, &gNode{Key: k + "l", Kind: []string{"lamA", "lamB"}[rng.Intn(2)]})
		}
	}
	return out
}

func buildUnits(nodes []*gNode, prefix string, rec *gRec) (*compose.Graph[[]*schema.Message, []*schema.Message], error) {
	g := compose.NewGraph[[]*schema.Message, []*schema.Message]()
	prev := compose.START
	for _, n := range nodes {
		p := prefix + n.Key
		var err error
		switch n.Kind {
		case "model":
			err = g.AddChatModelNode(n.Key, &gModel{path: p, rec: rec})
		case "lamA":
			err = g.AddLambdaNode(n.Key, gLambda(p, rec, func(o gspec.OptA) string { return "A:" + o.ID }))
		case "lamB":
			err = g.AddLambdaNode(n.Key, gLambda(p, rec, func(o gspec.OptB) string { return "B:" + o.ID }))
		case "pass":
			err = g.AddPassthroughNode(n.Key)
		case "graph":
			var inner *compose.Graph[[]*schema.Message, []*schema.Message]
			if inner, err = buildUnits(n.Sub, p+"/", rec); err == nil {
				err = g.AddGraphNode(n.Key, inner)
			}
		}
		if err != nil {
			return nil, err
		}
		if err = g.AddEdge(prev, n.Key); err != nil {
			return nil, err
		}
		prev = n.Key
	}
	return g, g.AddEdge(prev, compose.END)
}

type gVal struct {
	Ty string `json:"type"` // model | A | B
	ID string `json:"id"`
}

type gOpt struct {
	Vals  []gVal     `json:"values,omitempty"`
	Steps int        `json:"max_steps,omitempty"`
	Paths [][]string `json:"paths,omitempty"`
	How   string     `json:"how"` // which With* function carries the values
}

func (o gOpt) option() compose.Option {
	var opt compose.Option
	switch {
	case o.Steps > 0:
		opt = compose.WithRuntimeMaxSteps(o.Steps)
	case o.How == "WithChatModelOption":
		var ms []model.Option
		for _, v := range o.Vals {
			ms = append(ms, model.WithModel(v.ID))
		}
		opt = compose.WithChatModelOption(ms...)
	default:
		var vs []any
		for _, v := range o.Vals {
			switch v.Ty {
			case "model":
				vs = append(vs, model.WithModel(v.ID))
			case "A":
				vs = append(vs, gspec.OptA{ID: v.ID})
			default:
				vs = append(vs, gspec.OptB{ID: v.ID})
			}
		}
		opt = compose.WithLambdaOption(vs...)
	}
	if len(o.Paths) > 0 {
		var ps []*compose.NodePath
		for _, p := range o.Paths {
			ps = append(ps, compose.NewNodePath(p...))
		}
		opt = opt.DesignateNodeWithPath(ps...)
	}
	return opt
}

type gRoute struct {
	exp    map[string][]string // node path -> payloads
	bad    string
	limits map[string]int // graph path -> designated step limit
}

func find(nodes []*gNode, key string) *gNode {
	for _, n := range nodes {
		if n.Key == key {
			return n
		}
	}
	return nil
}

func (rt *gRoute) deliver(nodes []*gNode, prefix string, o gOpt, path []string) {
	if len(path) == 0 {
		for _, n := range nodes {
			if n.Kind == "graph" {
				rt.deliver(n.Sub, prefix+n.Key+"/", o, nil)
				continue
			}
			for _, v := range o.Vals {
				if v.Ty == n.takes() {
					rt.exp[prefix+n.Key] = append(rt.exp[prefix+n.Key], v.Ty+":"+v.ID)
				}
			}
		}
		return
	}
	n := find(nodes, path[0])
	if n == nil {
		rt.bad = "unknown-node"
		return
	}
	if len(path) > 1 {
		if n.Kind != "graph" {
			rt.bad = "path-below-" + map[bool]string{true: "passthrough", false: "component"}[n.Kind == "pass"]
			return
		}
		rt.deliver(n.Sub, prefix+n.Key+"/", o, path[1:])
		return
	}
	kindName := map[string]string{"model": "chat-model", "lamA": "lambda", "lamB": "lambda", "pass": "passthrough"}[n.Kind]
	switch {
	case o.Steps > 0 && n.Kind == "graph":
		rt.limits[prefix+n.Key] = o.Steps
	case o.Steps > 0:
		rt.bad = "step-limit-for-" + kindName
	case n.Kind == "graph":
		rt.deliver(n.Sub, prefix+n.Key+"/", o, nil)
	case n.Kind == "pass":
		rt.bad = map[string]string{"model": "chat-model", "A": "lambda", "B": "lambda"}[o.Vals[0].Ty] + "-option-for-passthrough"
	default:
		fits := 0
		for _, v := range o.Vals {
			if v.Ty == n.takes() {
				fits++
			}
		}
		if fits != len(o.Vals) {
			rt.bad = "wrong-option-type-for-" + kindName
			if fits > 0 {
				rt.bad += "/one-of-several-values"
			}
			return
		}
		for _, v := range o.Vals {
			rt.exp[prefix+n.Key] = append(rt.exp[prefix+n.Key], v.Ty+":"+v.ID)
		}
	}
}

func flatten(nodes []*gNode, prefix []string, out *[][]string, kinds map[string]*gNode) {
	for _, n := range nodes {
		p := append(append([]string(nil), prefix...), n.Key)
		*out = append(*out, p)
		kinds[strings.Join(p, "/")] = n
		if n.Kind == "graph" {
			flatten(n.Sub, p, out, kinds)
		}
	}
}

// overLimit: does some graph run more steps than a limit designated to it allows? (a chain: one node per step)
func overLimit(nodes []*gNode, prefix string, limits map[string]int) bool {
	for _, n := range nodes {
		if n.Kind != "graph" {
			continue
		}
		if l, ok := limits[prefix+n.Key]; ok && l < len(n.Sub) {
			return true
		}
		if overLimit(n.Sub, prefix+n.Key+"/", limits) {
			return true
		}
	}
	return false
}

func componentGapsCase(ctx context.Context, rep *mon.Reporter, rng *mon.Rand) {
	nodes := genUnits(rng, "", 2, 2+rng.Intn(3))
	rec := &gRec{got: map[string][]string{}}
	g, err := buildUnits(nodes, "", rec)
	var r compose.Runnable[[]*schema.Message, []*schema.Message]
	if err == nil {
		r, err = g.Compile(ctx)
	}
	if err != nil {
		rep.Violation(ID+"/component-graph/build-error", err.Error(), nodes)
		return
	}
	var all [][]string
	byPath := map[string]*gNode{}
	flatten(nodes, nil, &all, byPath)
	for c := 0; c < 8; c++ {
		call := fmt.Sprintf("g%d-%s", c, rng.Str(2, 4))
		var os []gOpt
		haveLimit := false
		for i, n := 0, 1+rng.Intn(4); i < n; i++ {
			id := func(v int) string { return fmt.Sprintf("%s-o%d.%d", call, i, v) }
			var o gOpt
			switch k := rng.Intn(10); {
			case k < 3:
				o = gOpt{How: "WithChatModelOption"}
				for v, nv := 0, 1+rng.Intn(2); v < nv; v++ {
					o.Vals = append(o.Vals, gVal{"model", id(v)})
				}
			case k < 6:
				ty := []string{"A", "B"}[rng.Intn(2)]
				o = gOpt{How: "WithLambdaOption"}
				for v, nv := 0, 1+rng.Intn(2); v < nv; v++ {
					o.Vals = append(o.Vals, gVal{ty, id(v)})
				}
			case k < 9:
				// one Option, values of two or three option types, in any order
				o = gOpt{How: "WithLambdaOption"}
				tys := [][]string{{"A", "B"}, {"A", "model"}, {"B", "model"}, {"A", "B", "model"}}[rng.Intn(4)]
				nv := len(tys) + rng.Intn(2)
				for v := 0; v < nv; v++ {
					o.Vals = append(o.Vals, gVal{tys[v%len(tys)], id(v)})
				}
				perm := rng.Perm(nv)
				vs := make([]gVal, nv)
				for a, b := range perm {
					vs[a] = o.Vals[b]
				}
				o.Vals = vs
			default:
				if haveLimit {
					continue
				}
				haveLimit = true
				o = gOpt{How: "WithRuntimeMaxSteps", Steps: 1 + rng.Intn(6)}
			}
			// target
			switch t := rng.Intn(10); {
			case t < 3 && o.Steps == 0: // undesignated
			case t < 9:
				// mostly nodes that can take the option (a node of the values' one type, a nested graph),
				// else any node
				var fit [][]string
				for _, pth := range all {
					n := byPath[strings.Join(pth, "/")]
					ok := n.Kind == "graph"
					if !ok && o.Steps == 0 && n.takes() != "" {
						ok = true
						for _, v := range o.Vals {
							ok = ok && v.Ty == n.takes()
						}
					}
					if ok {
						fit = append(fit, pth)
					}
				}
				for j, np := 0, 1+rng.Intn(2); j < np; j++ {
					if len(fit) > 0 && rng.Prob(0.7) {
						o.Paths = append(o.Paths, fit[rng.Intn(len(fit))])
					} else {
						o.Paths = append(o.Paths, all[rng.Intn(len(all))])
					}
				}
			default:
				if !rng.Prob(0.5) {
					break // undesignated after all (a step limit: designated to nothing, it is for the top-level graph)
				}
				p := append([]string(nil), all[rng.Intn(len(all))]...)
				if rng.Bool() {
					p[len(p)-1] = "nope"
				} else {
					p = append(p, "x")
				}
				o.Paths = append(o.Paths, p)
			}
			if o.Steps > 0 && len(o.Paths) > 1 {
				o.Paths = o.Paths[:1]
			}
			os = append(os, o)
		}
		rt := &gRoute{exp: map[string][]string{}, limits: map[string]int{}}
		var opts []compose.Option
		for _, o := range os {
			opts = append(opts, o.option())
			if rt.bad != "" {
				continue
			}
			if len(o.Paths) == 0 && o.Steps > 0 {
				rt.limits["<top>"] = o.Steps // an undesignated step limit is for the graph the call is made on, and for no nested graph
			} else if len(o.Paths) == 0 {
				rt.deliver(nodes, "", o, nil)
			}
			for _, p := range o.Paths {
				if rt.bad == "" {
					rt.deliver(nodes, "", o, p)
				}
			}
		}
		stream := rng.Bool()
		var runErr error
		p := mon.Safe(func() {
			in := []*schema.Message{schema.UserMessage(call)}
			if stream {
				var sr *schema.StreamReader[[]*schema.Message]
				if sr, runErr = r.Stream(ctx, in, opts...); runErr == nil {
					for {
						if _, e := sr.Recv(); e != nil {
							if !errors.Is(e, io.EOF) {
								runErr = e
							}
							break
						}
					}
					sr.Close()
				}
			} else {
				_, runErr = r.Invoke(ctx, in, opts...)
			}
		})
		rep.AddEvaluations(1)
		rep.Count("component_graph_calls", 1)
		wit := map[string]any{"graph": nodes, "options": os, "stream": stream}
		desc := fmt.Sprintf("graph %s\noptions %s", renderJSON(nodes), renderJSON(os))
		if p != nil {
			rep.Violation(ID+"/component-graph/panic", p.Value+"\n"+p.Stack+"\n"+desc, wit)
			return
		}
		if rt.bad != "" {
			if runErr == nil {
				rep.Violation(ID+"/component-graph/invalid-designation-accepted/"+rt.bad, "the call carries an option designated to a node that cannot take it ("+rt.bad+") but succeeded\n"+desc, wit)
				return
			}
			rep.Count("component_graph_rejected_"+rt.bad, 1)
			continue
		}
		severalTypes := func(o gOpt) bool {
			for _, v := range o.Vals {
				if v.Ty != o.Vals[0].Ty {
					return true
				}
			}
			return false
		}
		anySeveral := false
		for _, o := range os {
			anySeveral = anySeveral || severalTypes(o)
		}
		l, topLimited := rt.limits["<top>"]
		over := overLimit(nodes, "", rt.limits) || (topLimited && l < len(nodes))
		if over && (runErr == nil || gspec.IsMaxSteps(runErr)) {
			if runErr == nil {
				rep.Violation(ID+"/component-graph/step-limit-not-applied-to-the-graph-it-addresses", fmt.Sprintf("a graph needs more steps than the limit addressed to it allows, yet the call succeeded\n%s", desc), wit)
				return
			}
			rep.Count("component_graph_step_limit_hit", 1)
			continue
		}
		if runErr != nil {
			cl := "valid-call-failed"
			if anySeveral {
				cl = "one-option-with-values-of-several-types/valid-call-failed"
			}
			if gspec.IsMaxSteps(runErr) {
				cl = "step-limit-stops-a-graph-it-does-not-address"
			}
			rep.Violation(ID+"/component-graph/"+cl, fmt.Sprintf("every value is of the type of the nodes it addresses, yet the call failed: %v\n%s", runErr, desc), wit)
			return
		}
		if len(rt.limits) > 0 {
			rep.Count("component_graph_step_limit_leaves_other_graphs_alone", 1)
		}
		rec.mu.Lock()
		for _, pth := range all {
			ps := strings.Join(pth, "/")
			n := byPath[ps]
			if n.takes() == "" || len(rec.got["ran|"+call+"|"+ps]) == 0 {
				continue
			}
			got, want := rec.got[call+"|"+ps], rt.exp[ps]
			if strings.Join(got, ",") != strings.Join(want, ",") {
				rec.mu.Unlock()
				kindName := map[string]string{"model": "chat-model", "lamA": "lambda", "lamB": "lambda"}[n.Kind]
				// is a value of an Option with values of several types concerned?
				gset, wset := map[string]bool{}, map[string]bool{}
				for _, x := range got {
					gset[x] = true
				}
				for _, x := range want {
					wset[x] = true
				}
				for _, o := range os {
					if !severalTypes(o) {
						continue
					}
					for _, v := range o.Vals {
						if pl := v.Ty + ":" + v.ID; gset[pl] != wset[pl] {
							kindName = "one-option-with-values-of-several-types/" + kindName
							break
						}
					}
					if strings.Contains(kindName, "/") {
						break
					}
				}
				rep.Violation(ID+"/component-graph/wrong-options/"+kindName, fmt.Sprintf("node %s (%s) received %v, the reference router delivers %v\n%s", ps, n.Kind, got, want, desc), wit)
				return
			}
			rep.Count("node_option_lists_checked", 1)
		}
		rec.mu.Unlock()
		if len(os) >= 2 {
			rep.NonTrivial("component-graph|" + renderJSON(nodes) + renderJSON(os))
		}
	}
}

func renderJSON(v any) string {
	b, err := json.Marshal(v)
	if err != nil {
		return fmt.Sprint(v)
	}
	return string(b)
}
