package c16

import (
	"context"
	"errors"
	"fmt"
	"io"
	"sort"
	"strings"
	"sync"

	"github.com/cloudwego/eino/callbacks"
	"github.com/cloudwego/eino/components/model"
	"github.com/cloudwego/eino/compose"
	"github.com/cloudwego/eino/schema"

	"verifharness/internal/gspec"
	"verifharness/internal/mon"
)

// WithStateModifier designated into nested graphs of every kind.
//
// Generated: a tree (1-3 nesting levels) of graphs of four kinds - Graph in any-predecessor mode, Graph in
// all-predecessor mode, Chain, Workflow - each a sequence of Lambdas, pass-through nodes, chat models and
// nested graphs, each graph with or without a local state. Calls (Invoke / Stream; fresh, and resuming an
// interrupt before a node at any depth) carry 1-3 WithStateModifier options, undesignated or designated
// (DesignateNode / DesignateNodeWithPath, 1-3 paths) to graph nodes and to NON-graph nodes at depth 1-4,
// next to lambda options, callbacks and run-time step limits, undesignated and designated, in any order.
//
// Reference:
//   - a state modifier designated to a node that is not a graph (a Lambda, a pass-through node, a
//     component), at whatever depth, is an option of the wrong type for that node: the call is an error
//     (at depth one eino says so itself; the property knows no depth);
//   - in a call without such a designation every modifier is called exactly once for every graph it
//     addresses (designated: the graphs at its paths; undesignated: every graph) whose state the call
//     restores, with that graph's node path and that graph's state object, and for no other graph; the
//     Lambdas that run afterwards see exactly these modifications in the state of their graph;
//   - the other options of the call are delivered as if the modifiers were not there.

type nsmNode struct {
	Key  string    `json:"key"`
	Kind string    `json:"kind"` // lambda | conv (a Lambda behind a chat model) | pass | model | graph
	Sub  *nsmGraph `json:"sub,omitempty"`
}

type nsmGraph struct {
	Kind  string     `json:"kind"` // pregel | dag | chain | workflow
	State bool       `json:"state"`
	Nodes []*nsmNode `json:"nodes"`
}

type nsmState struct {
	Graph string
	Mods  int
}

type nsmOpt struct{ ID string }

func init() {
	_ = compose.RegisterSerializableType[nsmState]("verif_c16_nested_statemod_state")
}

type nsmModObs struct {
	Mod   string `json:"modifier"`
	Path  string `json:"path"`
	Graph string `json:"state_of_graph"`
}

type nsmStateObs struct {
	Node  string `json:"node"`
	Graph string `json:"state_of_graph"`
	Mods  int    `json:"modifications_seen"`
}

type nsmLog struct {
	mu     sync.Mutex
	opts   map[string][]string
	ran    map[string]int
	states []nsmStateObs
	mods   []nsmModObs
	cbs    map[string]int
}

type nsmLogKey struct{}

func nsmLogOf(ctx context.Context) *nsmLog {
	l, _ := ctx.Value(nsmLogKey{}).(*nsmLog)
	return l
}

type nsmModel struct{ path string }

func (m *nsmModel) note(ctx context.Context) {
	if l := nsmLogOf(ctx); l != nil {
		l.mu.Lock()
		l.ran[m.path]++
		l.mu.Unlock()
	}
}

func (m *nsmModel) Generate(ctx context.Context, in []*schema.Message, _ ...model.Option) (*schema.Message, error) {
	m.note(ctx)
	return schema.AssistantMessage(in[0].Content, nil), nil
}

func (m *nsmModel) Stream(ctx context.Context, in []*schema.Message, _ ...model.Option) (*schema.StreamReader[*schema.Message], error) {
	m.note(ctx)
	return schema.StreamReaderFromArray([]*schema.Message{schema.AssistantMessage(in[0].Content, nil)}), nil
}

func (m *nsmModel) BindTools(_ []*schema.ToolInfo) error { return nil }

func nsmNote(ctx context.Context, path string, stateful bool, opts []nsmOpt) {
	l := nsmLogOf(ctx)
	if l == nil {
		return
	}
	var ids []string
	for _, o := range opts {
		ids = append(ids, o.ID)
	}
	var so *nsmStateObs
	if stateful {
		so = &nsmStateObs{Node: path, Graph: "?"}
		_ = compose.ProcessState[*nsmState](ctx, func(_ context.Context, s *nsmState) error {
			if s != nil {
				so.Graph, so.Mods = s.Graph, s.Mods
			}
			return nil
		})
	}
	l.mu.Lock()
	l.ran[path]++
	l.opts[path] = append(l.opts[path], ids...)
	if so != nil {
		l.states = append(l.states, *so)
	}
	l.mu.Unlock()
}

func nsmGen(rng *mon.Rand, prefix string, depth int) *nsmGraph {
	g := &nsmGraph{Kind: []string{"pregel", "dag", "chain", "workflow"}[rng.Intn(4)], State: rng.Prob(0.65)}
	n := 1 + rng.Intn(3)
	subAt := -1
	if depth > 0 {
		subAt = rng.Intn(n)
	}
	for i := 0; i < n; i++ {
		k := fmt.Sprintf("%s%c", prefix, 'a'+i)
		switch r := rng.Intn(10); {
		case i == subAt || (depth > 0 && r < 2):
			g.Nodes = append(g.Nodes, &nsmNode{Key: k + "g", Kind: "graph", Sub: nsmGen(rng, k, depth-1)})
		case r < 4:
			g.Nodes = append(g.Nodes, &nsmNode{Key: k + "p", Kind: "pass"})
		case r < 6:
			g.Nodes = append(g.Nodes, &nsmNode{Key: k + "m", Kind: "model"}, &nsmNode{Key: k + "c", Kind: "conv"})
		default:
			g.Nodes = append(g.Nodes, &nsmNode{Key: k + "l", Kind: "lambda"})
		}
	}
	return g
}

type nsmCompilable interface {
	compose.AnyGraph
	Compile(ctx context.Context, opts ...compose.GraphCompileOption) (compose.Runnable[[]*schema.Message, []*schema.Message], error)
}

// nsmBuild: intr = path of the node to interrupt before ("" = none)
func nsmBuild(g *nsmGraph, prefix []string, intr []string) (nsmCompilable, []compose.GraphCompileOption, error) {
	type M = []*schema.Message
	pk := keyOf(prefix)
	var newOpts []compose.NewGraphOption
	if g.State {
		newOpts = append(newOpts, compose.WithGenLocalState(func(context.Context) *nsmState { return &nsmState{Graph: pk} }))
	}
	var copts []compose.GraphCompileOption
	if g.Kind == "dag" {
		copts = append(copts, compose.WithNodeTriggerMode(compose.AllPredecessor))
	}
	if len(intr) == len(prefix)+1 && keyOf(intr[:len(prefix)]) == pk {
		copts = append(copts, compose.WithInterruptBeforeNodes([]string{intr[len(prefix)]}))
	}
	var gr *compose.Graph[M, M]
	var ch *compose.Chain[M, M]
	var wf *compose.Workflow[M, M]
	switch g.Kind {
	case "chain":
		ch = compose.NewChain[M, M](newOpts...)
	case "workflow":
		wf = compose.NewWorkflow[M, M](newOpts...)
	default:
		gr = compose.NewGraph[M, M](newOpts...)
	}
	prev := compose.START
	for _, n := range g.Nodes {
		p := append(append([]string(nil), prefix...), n.Key)
		path, stateful := keyOf(p), g.State
		var lam *compose.Lambda
		var sub compose.AnyGraph
		var addOpts []compose.GraphAddNodeOpt
		switch n.Kind {
		case "lambda":
			lam = compose.InvokableLambdaWithOption(func(ctx context.Context, in M, opts ...nsmOpt) (M, error) {
				nsmNote(ctx, path, stateful, opts)
				return in, nil
			})
		case "conv":
			lam = compose.InvokableLambdaWithOption(func(ctx context.Context, in *schema.Message, opts ...nsmOpt) (M, error) {
				nsmNote(ctx, path, stateful, opts)
				return M{schema.UserMessage(in.Content)}, nil
			})
		case "graph":
			s, so, err := nsmBuild(n.Sub, p, intr)
			if err != nil {
				return nil, nil, err
			}
			sub = s
			if len(so) > 0 {
				addOpts = append(addOpts, compose.WithGraphCompileOptions(so...))
			}
		}
		var err error
		switch {
		case ch != nil:
			addOpts = append(addOpts, compose.WithNodeKey(n.Key))
			switch n.Kind {
			case "lambda", "conv":
				ch.AppendLambda(lam, addOpts...)
			case "pass":
				ch.AppendPassthrough(addOpts...)
			case "model":
				ch.AppendChatModel(&nsmModel{path: path}, addOpts...)
			case "graph":
				ch.AppendGraph(sub, addOpts...)
			}
		case wf != nil:
			var wn *compose.WorkflowNode
			switch n.Kind {
			case "lambda", "conv":
				wn = wf.AddLambdaNode(n.Key, lam, addOpts...)
			case "pass":
				wn = wf.AddPassthroughNode(n.Key, addOpts...)
			case "model":
				wn = wf.AddChatModelNode(n.Key, &nsmModel{path: path}, addOpts...)
			case "graph":
				wn = wf.AddGraphNode(n.Key, sub, addOpts...)
			}
			wn.AddInput(prev)
		default:
			switch n.Kind {
			case "lambda", "conv":
				err = gr.AddLambdaNode(n.Key, lam, addOpts...)
			case "pass":
				err = gr.AddPassthroughNode(n.Key, addOpts...)
			case "model":
				err = gr.AddChatModelNode(n.Key, &nsmModel{path: path}, addOpts...)
			case "graph":
				err = gr.AddGraphNode(n.Key, sub, addOpts...)
			}
			if err == nil {
				err = gr.AddEdge(prev, n.Key)
			}
		}
		if err != nil {
			return nil, nil, err
		}
		prev = n.Key
	}
	switch {
	case ch != nil:
		return ch, copts, nil
	case wf != nil:
		wf.End().AddInput(prev)
		return wf, copts, nil
	}
	return gr, copts, gr.AddEdge(prev, compose.END)
}

type nsmInfo struct {
	path []string
	node *nsmNode
	in   *nsmGraph // the graph that holds the node
}

func nsmInventory(g *nsmGraph, prefix []string, out *[]nsmInfo) {
	for _, n := range g.Nodes {
		p := append(append([]string(nil), prefix...), n.Key)
		*out = append(*out, nsmInfo{path: p, node: n, in: g})
		if n.Sub != nil {
			nsmInventory(n.Sub, p, out)
		}
	}
}

type nsmOption struct {
	Kind  string     `json:"kind"` // modifier | lambda-option | step-limit | callbacks
	ID    string     `json:"id"`
	Paths [][]string `json:"paths,omitempty"`
	How   string     `json:"how,omitempty"`
}

func nsmKindName(k string) string {
	return map[string]string{"lambda": "lambda", "conv": "lambda", "pass": "passthrough", "model": "component", "graph": "graph"}[k]
}

// nsmGenOptions: invalid = include a modifier designated to a non-graph node
func nsmGenOptions(rng *mon.Rand, top *nsmGraph, inv []nsmInfo, callID string, invalid bool, preferGraphs []string) []nsmOption {
	var graphs, nonGraphs, nestedNonGraphs, lambdas, comps, stepGraphs []nsmInfo
	for _, n := range inv {
		switch n.node.Kind {
		case "graph":
			graphs = append(graphs, n)
			if n.node.Sub.Kind == "pregel" || n.node.Sub.Kind == "chain" {
				stepGraphs = append(stepGraphs, n)
			}
		default:
			nonGraphs = append(nonGraphs, n)
			if len(n.path) > 1 {
				nestedNonGraphs = append(nestedNonGraphs, n)
			}
			if n.node.Kind == "lambda" || n.node.Kind == "conv" {
				lambdas = append(lambdas, n)
			}
			if n.node.Kind != "pass" {
				comps = append(comps, n)
			}
		}
	}
	var out []nsmOption
	nm := 1 + rng.Intn(3)
	if rng.Intn(6) == 0 && !invalid {
		nm = 0
	}
	badAt := rng.Intn(nm + 1)
	if badAt == nm {
		badAt = nm - 1
	}
	for i := 0; i < nm; i++ {
		o := nsmOption{Kind: "modifier", ID: fmt.Sprintf("%s-m%d", callID, i)}
		seen := map[string]bool{}
		add := func(p []string) {
			if !seen[keyOf(p)] {
				seen[keyOf(p)] = true
				o.Paths = append(o.Paths, p)
			}
		}
		if rng.Intn(5) > 0 || (invalid && i == badAt) {
			for j, np := 0, 1+rng.Intn(3); j < np && len(graphs) > 0; j++ {
				if len(preferGraphs) > 0 && rng.Prob(0.6) {
					add(strings.Split(preferGraphs[rng.Intn(len(preferGraphs))], "/"))
				} else {
					add(graphs[rng.Intn(len(graphs))].path)
				}
			}
		}
		if invalid && i == badAt {
			var b nsmInfo
			if len(nestedNonGraphs) > 0 && rng.Intn(8) > 0 {
				b = nestedNonGraphs[rng.Intn(len(nestedNonGraphs))]
			} else {
				b = nonGraphs[rng.Intn(len(nonGraphs))]
			}
			if rng.Bool() {
				o.Paths = nil // the non-graph node alone
			}
			o.Paths = append(o.Paths, b.path)
			rng2 := rng.Perm(len(o.Paths))
			ps := make([][]string, len(o.Paths))
			for a, b := range rng2 {
				ps[a] = o.Paths[b]
			}
			o.Paths = ps
		}
		allTop := len(o.Paths) > 0
		for _, p := range o.Paths {
			allTop = allTop && len(p) == 1
		}
		switch {
		case len(o.Paths) == 0:
		case allTop && rng.Bool():
			o.How = "DesignateNode"
		case rng.Bool():
			o.How = "DesignateNodeWithPath"
		default:
			o.How = "DesignateNodeWithPath, one call per path"
		}
		out = append(out, o)
	}
	for i, k := 0, rng.Intn(4); i < k; i++ {
		id := fmt.Sprintf("%s-x%d", callID, i)
		switch rng.Intn(3) {
		case 0:
			o := nsmOption{Kind: "lambda-option", ID: id}
			switch r := rng.Intn(3); {
			case r == 0 && len(lambdas) > 0:
				o.Paths = [][]string{lambdas[rng.Intn(len(lambdas))].path}
			case r == 1 && len(graphs) > 0:
				o.Paths = [][]string{graphs[rng.Intn(len(graphs))].path}
			}
			out = append(out, o)
		case 1:
			o := nsmOption{Kind: "callbacks", ID: id}
			if rng.Bool() && len(comps) > 0 {
				o.Paths = [][]string{comps[rng.Intn(len(comps))].path}
			}
			out = append(out, o)
		default:
			o := nsmOption{Kind: "step-limit", ID: "1000"}
			if len(stepGraphs) > 0 && rng.Bool() {
				o.Paths = [][]string{stepGraphs[rng.Intn(len(stepGraphs))].path}
			} else if top.Kind != "pregel" && top.Kind != "chain" {
				continue
			}
			out = append(out, o)
		}
	}
	// any order
	perm := rng.Perm(len(out))
	res := make([]nsmOption, len(out))
	for a, b := range perm {
		res[a] = out[b]
	}
	return res
}

func nsmToOptions(os []nsmOption, log *nsmLog) []compose.Option {
	var out []compose.Option
	for _, o := range os {
		o := o
		var opt compose.Option
		switch o.Kind {
		case "modifier":
			opt = compose.WithStateModifier(func(_ context.Context, path compose.NodePath, state any) error {
				ob := nsmModObs{Mod: o.ID, Path: keyOf(path.GetPath()), Graph: "?"}
				if s, ok := state.(*nsmState); ok && s != nil {
					ob.Graph = s.Graph
					s.Mods++
				}
				log.mu.Lock()
				log.mods = append(log.mods, ob)
				log.mu.Unlock()
				return nil
			})
		case "lambda-option":
			opt = compose.WithLambdaOption(nsmOpt{ID: o.ID})
		case "step-limit":
			opt = compose.WithRuntimeMaxSteps(1000)
		case "callbacks":
			hit := func(ctx context.Context) context.Context {
				log.mu.Lock()
				log.cbs[o.ID]++
				log.mu.Unlock()
				return ctx
			}
			opt = compose.WithCallbacks(callbacks.NewHandlerBuilder().
				OnStartFn(func(ctx context.Context, _ *callbacks.RunInfo, _ callbacks.CallbackInput) context.Context {
					return hit(ctx)
				}).
				OnStartWithStreamInputFn(func(ctx context.Context, _ *callbacks.RunInfo, in *schema.StreamReader[callbacks.CallbackInput]) context.Context {
					in.Close()
					return hit(ctx)
				}).Build())
		}
		if len(o.Paths) > 0 {
			var nps []*compose.NodePath
			var keys []string
			for _, p := range o.Paths {
				nps = append(nps, compose.NewNodePath(p...))
				keys = append(keys, p[0])
			}
			switch o.How {
			case "DesignateNode":
				opt = opt.DesignateNode(keys...)
			case "DesignateNodeWithPath, one call per path":
				for _, np := range nps {
					opt = opt.DesignateNodeWithPath(np)
				}
			default:
				opt = opt.DesignateNodeWithPath(nps...)
			}
		}
		out = append(out, opt)
	}
	return out
}

type nsmOutcome struct {
	out   []*schema.Message
	err   error
	panic *mon.Panic
}

func nsmCall(ctx context.Context, r compose.Runnable[[]*schema.Message, []*schema.Message], para string, in string, opts []compose.Option) (*nsmLog, nsmOutcome) {
	log := &nsmLog{opts: map[string][]string{}, ran: map[string]int{}, cbs: map[string]int{}}
	return log, nsmCallLog(ctx, r, para, in, opts, log)
}

func nsmCallLog(ctx context.Context, r compose.Runnable[[]*schema.Message, []*schema.Message], para string, in string, opts []compose.Option, log *nsmLog) nsmOutcome {
	ctx = context.WithValue(ctx, nsmLogKey{}, log)
	var res nsmOutcome
	msgs := []*schema.Message{schema.UserMessage(in)}
	res.panic = mon.Safe(func() {
		if para == "I" {
			res.out, res.err = r.Invoke(ctx, msgs, opts...)
			return
		}
		sr, err := r.Stream(ctx, msgs, opts...)
		if err != nil {
			res.err = err
			return
		}
		defer sr.Close()
		for {
			c, e := sr.Recv()
			if errors.Is(e, io.EOF) {
				return
			}
			if e != nil {
				res.err = e
				return
			}
			res.out = append(res.out, c...)
		}
	})
	return res
}

func (o nsmOutcome) failed() bool { return o.err != nil || o.panic != nil }

// nsmBad: the class of the first modifier designated to a non-graph node ("" = none)
func nsmBad(os []nsmOption, kinds map[string]*nsmNode) (string, nsmOption, []string) {
	for _, o := range os {
		if o.Kind != "modifier" {
			continue
		}
		for _, p := range o.Paths {
			if n := kinds[keyOf(p)]; n != nil && n.Kind != "graph" {
				where := "nested-"
				if len(p) == 1 {
					where = "top-level-"
				}
				return where + nsmKindName(n.Kind), o, p
			}
		}
	}
	return "", nsmOption{}, nil
}

func nestedStateModifierCase(ctx context.Context, rep *mon.Reporter, rng *mon.Rand, cfg mon.Config) {
	const sig = ID + "/nested-state-modifier/"
	depth := 1 + rng.Intn(3)
	spec := nsmGen(rng, "", depth)
	var inv []nsmInfo
	nsmInventory(spec, nil, &inv)
	kinds := map[string]*nsmNode{}
	holder := map[string]*nsmGraph{}
	graphAt := map[string]*nsmGraph{"": spec}
	var nonGraph int
	for _, n := range inv {
		kinds[keyOf(n.path)] = n.node
		holder[keyOf(n.path)] = n.in
		if n.node.Sub != nil {
			graphAt[keyOf(n.path)] = n.node.Sub
		} else {
			nonGraph++
		}
	}
	if nonGraph == 0 {
		return
	}
	// ---- expected delivery of the other options
	expectOpts := func(os []nsmOption) map[string][]string {
		exp := map[string][]string{}
		for _, o := range os {
			if o.Kind != "lambda-option" {
				continue
			}
			for _, n := range inv {
				if n.node.Kind != "lambda" && n.node.Kind != "conv" {
					continue
				}
				k := keyOf(n.path)
				hit := len(o.Paths) == 0
				for _, p := range o.Paths {
					hit = hit || k == keyOf(p) || strings.HasPrefix(k, keyOf(p)+"/")
				}
				if hit {
					exp[k] = append(exp[k], o.ID)
				}
			}
		}
		return exp
	}
	// judgeValid: a call without an invalid designation; restored = graph paths ("" = top) whose state the call restores
	judgeValid := func(os []nsmOption, log *nsmLog, res nsmOutcome, restored map[string]bool, when string, wit map[string]any) bool {
		if _, isInt := compose.ExtractInterruptInfo(res.err); res.failed() && !isInt {
			rep.Violation(sig+"valid-call-failed/"+when, fmt.Sprintf("every state modifier of the call is undesignated or designated to graph nodes, and every other option is addressed to a node that takes it; the call failed: %v panic=%v\noptions: %+v", res.err, res.panic, os), wit)
			return false
		}
		log.mu.Lock()
		defer log.mu.Unlock()
		wit["modifier_calls"], wit["states_seen"] = log.mods, log.states
		// modifiers: exactly once per addressed restored graph
		count := map[string]int{}
		for _, m := range log.mods {
			count[m.Mod+"|"+m.Path]++
			if m.Graph != m.Path {
				rep.Violation(sig+"handed-the-state-of-another-graph", fmt.Sprintf("%s call: modifier %s was called for node path %q with the state object of graph %q\noptions: %+v", when, m.Mod, m.Path, m.Graph, os), wit)
				return false
			}
		}
		expMods := map[string]int{}
		for _, o := range os {
			if o.Kind != "modifier" {
				continue
			}
			addressed := map[string]bool{}
			for _, p := range o.Paths {
				addressed[keyOf(p)] = true
			}
			for _, g := range mon.SortedKeys(graphAt) {
				want := 0
				if restored[g] && (len(o.Paths) == 0 || addressed[g]) {
					want = 1
					expMods[g]++
				}
				got := count[o.ID+"|"+g]
				delete(count, o.ID+"|"+g)
				if got == want {
					if want == 1 {
						rep.Count("nested_modifier_applications_checked", 1)
						rep.Count(fmt.Sprintf("nested_modifier_applied_to_%s_depth_%d", graphAt[g].Kind, len(strings.Fields(strings.ReplaceAll(g, "/", " ")))), 1)
					}
					continue
				}
				cl := "called-for-a-graph-it-does-not-address"
				switch {
				case want == 1 && got == 0:
					cl = "not-called-for-the-designated-graph"
					if len(o.Paths) == 0 {
						cl = "undesignated-not-called-for-a-restored-graph"
					}
				case want == 1:
					cl = "called-more-than-once-for-one-graph"
				case (len(o.Paths) == 0 || addressed[g]) && !restored[g]:
					cl = "called-for-a-graph-whose-state-is-not-restored"
				}
				rep.Violation(sig+cl, fmt.Sprintf("%s call: modifier %s (paths %v) was called %d time(s) for the graph %q, expected %d; graphs whose state the call restores: %v\noptions: %+v", when, o.ID, o.Paths, got, g, want, mon.SortedKeys(restored), os), wit)
				return false
			}
		}
		for _, k := range mon.SortedKeys(count) {
			rep.Violation(sig+"called-for-a-path-that-is-no-graph", fmt.Sprintf("%s call: modifier|path %s: %d call(s)\noptions: %+v", when, k, count[k], os), wit)
			return false
		}
		for _, s := range log.states {
			own := keyOf(strings.Split(s.Node, "/")[:strings.Count(s.Node, "/")])
			if s.Graph != own {
				continue // not judged here: which state a body sees is another property
			}
			if s.Mods != expMods[own] {
				cl := "state-of-addressed-graph-not-modified"
				if s.Mods > expMods[own] {
					cl = "state-modified-more-than-addressed"
				}
				rep.Violation(sig+cl, fmt.Sprintf("%s call: node %s saw %d modification(s) in the state of its graph, the modifiers of the call address it %d time(s)\noptions: %+v", when, s.Node, s.Mods, expMods[own], os), wit)
				return false
			}
			rep.Count("nested_modifier_states_seen_checked", 1)
		}
		// other options
		exp := expectOpts(os)
		for _, p := range mon.SortedKeys(log.ran) {
			if k := kinds[p]; k == nil || (k.Kind != "lambda" && k.Kind != "conv") {
				continue
			}
			if strings.Join(exp[p], ",") != strings.Join(log.opts[p], ",") {
				rep.Violation(sig+"lambda-option-next-to-modifier/wrong-delivery", fmt.Sprintf("%s call: node %s received %v, expected %v\noptions: %+v", when, p, log.opts[p], exp[p], os), wit)
				return false
			}
			rep.Count("nested_modifier_lambda_option_lists_checked", 1)
		}
		for _, o := range os {
			if o.Kind != "callbacks" || len(o.Paths) == 0 {
				continue
			}
			if want := log.ran[keyOf(o.Paths[0])]; log.cbs[o.ID] != want {
				rep.Violation(sig+"callbacks-next-to-modifier/wrong-count", fmt.Sprintf("%s call: the handler %s designated to %v saw %d start(s), the node ran %d time(s)\noptions: %+v", when, o.ID, o.Paths[0], log.cbs[o.ID], want, os), wit)
				return false
			}
			rep.Count("nested_modifier_designated_handlers_checked", 1)
		}
		return true
	}
	judgeInvalid := func(os []nsmOption, log *nsmLog, res nsmOutcome, when string, wit map[string]any) bool {
		bad, o, p := nsmBad(os, kinds)
		rep.Count("nested_modifier_invalid_calls_"+bad, 1)
		rep.Count(fmt.Sprintf("nested_modifier_invalid_target_in_%s_depth_%d", holder[keyOf(p)].Kind, len(p)), 1)
		_, isInt := compose.ExtractInterruptInfo(res.err)
		if res.panic != nil {
			rep.Violation(sig+"panic/"+res.panic.FirstFrame("github.com/cloudwego/eino/"), fmt.Sprintf("%v\n%s", res.panic.Value, res.panic.Stack), wit)
			return false
		}
		if res.err == nil || isInt {
			log.mu.Lock()
			n := len(log.mods)
			log.mu.Unlock()
			rep.Violation(ID+"/invalid-designation-accepted/state-modifier-to-"+bad, fmt.Sprintf("%s call: WithStateModifier (%s, %s) designated to %v, where %v is a %s node of a %s (depth %d): the call was accepted (err=%v) and the modifier was called %d time(s); the same designation to such a node of the top-level graph is refused\noptions: %+v", when, o.ID, o.How, o.Paths, p, nsmKindName(kinds[keyOf(p)].Kind), holder[keyOf(p)].Kind, len(p), res.err, n, os), wit)
			return false
		}
		rep.Count("nested_modifier_invalid_calls_refused", 1)
		return true
	}

	nt := false
	// ---- fresh calls on the graph without interrupts
	g0, copts, err := nsmBuild(spec, nil, nil)
	var r0 compose.Runnable[[]*schema.Message, []*schema.Message]
	if err == nil {
		r0, err = g0.Compile(ctx, copts...)
	}
	if err != nil {
		rep.Violation(sig+"build-error", err.Error(), spec)
		return
	}
	for call := 0; call < cfg.Pick(3, 5); call++ {
		invalid := rng.Prob(0.55)
		id := fmt.Sprintf("f%d", call)
		os := nsmGenOptions(rng, spec, inv, id, invalid, nil)
		para := []string{"I", "S"}[rng.Intn(2)]
		wit := map[string]any{"spec": spec, "call": id, "paradigm": para, "options": os}
		log := &nsmLog{opts: map[string][]string{}, ran: map[string]int{}, cbs: map[string]int{}}
		res := nsmCallLog(ctx, r0, para, id, nsmToOptions(os, log), log)
		rep.AddEvaluations(1)
		if bad, _, _ := nsmBad(os, kinds); bad != "" {
			if !judgeInvalid(os, log, res, "fresh "+para, wit) {
				return
			}
			nt = nt || strings.HasPrefix(bad, "nested-")
			continue
		}
		if !judgeValid(os, log, res, nil, "fresh", wit) {
			return
		}
		if len(res.out) != 1 || res.out[0].Content != id {
			rep.Violation(sig+"wrong-output", fmt.Sprintf("fresh %s call %s returned %v", para, id, res.out), wit)
			return
		}
		rep.Count("nested_modifier_valid_fresh_calls", 1)
	}

	// ---- resume of an interrupt before a node at any depth
	var points []nsmInfo
	for _, n := range inv {
		if n.node.Kind != "graph" {
			points = append(points, n)
		}
	}
	sort.SliceStable(points, func(i, j int) bool { return len(points[i].path) > len(points[j].path) })
	pt := points[rng.Intn(1+rng.Intn(len(points)))]
	g1, copts1, err := nsmBuild(spec, nil, pt.path)
	store := gspec.NewByteStore()
	var r1 compose.Runnable[[]*schema.Message, []*schema.Message]
	if err == nil {
		r1, err = g1.Compile(ctx, append(copts1, compose.WithCheckPointStore(store))...)
	}
	if err != nil {
		rep.Violation(sig+"build-error/with-interrupt", err.Error(), map[string]any{"spec": spec, "interrupt_before": pt.path})
		return
	}
	para := []string{"I", "S"}[rng.Intn(2)]
	cp := compose.WithCheckPointID("cp")
	_, first := nsmCall(ctx, r1, para, "r0", []compose.Option{cp})
	rep.AddEvaluations(1)
	if _, isInt := compose.ExtractInterruptInfo(first.err); !isInt {
		rep.Count("nested_modifier_histories_without_interrupt", 1)
		return
	}
	restored := map[string]bool{}
	var restoredNested []string
	for d := 0; d < len(pt.path); d++ {
		k := keyOf(pt.path[:d])
		if graphAt[k].State {
			restored[k] = true
			if k != "" {
				restoredNested = append(restoredNested, k)
			}
		}
	}
	place := func(opts []compose.Option) []compose.Option {
		if rng.Bool() {
			return append(opts, cp)
		}
		return append([]compose.Option{cp}, opts...)
	}
	// refused resumes leave the checkpoint where it is
	for k, n := 0, rng.Intn(3); k < n; k++ {
		id := fmt.Sprintf("r%d", 1+k)
		os := nsmGenOptions(rng, spec, inv, id, true, restoredNested)
		wit := map[string]any{"spec": spec, "interrupt_before": pt.path, "call": id, "paradigm": para, "options": os}
		log := &nsmLog{opts: map[string][]string{}, ran: map[string]int{}, cbs: map[string]int{}}
		res := nsmCallLog(ctx, r1, para, id, place(nsmToOptions(os, log)), log)
		rep.AddEvaluations(1)
		if !judgeInvalid(os, log, res, "resuming "+para, wit) {
			return
		}
		bad, _, _ := nsmBad(os, kinds)
		nt = nt || strings.HasPrefix(bad, "nested-")
		rep.Count("nested_modifier_invalid_resumes_refused", 1)
	}
	os := nsmGenOptions(rng, spec, inv, "rv", false, restoredNested)
	wit := map[string]any{"spec": spec, "interrupt_before": pt.path, "call": "rv", "paradigm": para, "options": os, "restored_states_of": mon.SortedKeys(restored)}
	log := &nsmLog{opts: map[string][]string{}, ran: map[string]int{}, cbs: map[string]int{}}
	res := nsmCallLog(ctx, r1, para, "rv", place(nsmToOptions(os, log)), log)
	rep.AddEvaluations(1)
	if !judgeValid(os, log, res, restored, "resuming", wit) {
		return
	}
	if res.failed() {
		rep.Count("nested_modifier_resumes_interrupted_again", 1)
	} else {
		if len(res.out) != 1 || res.out[0].Content != "r0" {
			rep.Violation(sig+"wrong-output/resumed-call", fmt.Sprintf("the resumed %s call returned %v", para, res.out), wit)
			return
		}
		rep.Count("nested_modifier_valid_resumes", 1)
	}
	if nt {
		rep.NonTrivial(fmt.Sprintf("nsm|%s|%v|%s", mon.H8(mon.Canon(spec)), pt.path, mon.H8(mon.Canon(os))))
	}
}
