package c16

import (
	"context"
	"fmt"
	"sort"
	"strings"
	"sync"

	"github.com/cloudwego/eino/callbacks"
	"github.com/cloudwego/eino/compose"

	"verifharness/internal/gspec"
	"verifharness/internal/mon"
)

// resumeCase: options passed on a call that resumes from a checkpoint must reach the nodes executed by
// that call exactly like on a fresh call (the pending nodes restored from the checkpoint included).
func resumeCase(ctx context.Context, rep *mon.Reporter, rng *mon.Rand, spec *gspec.GraphSpec, inv []nodeInfo, in gspec.V) {
	pts := gspec.AllPoints(spec)
	if len(pts) == 0 {
		return
	}
	plan := gspec.Plan{pts[rng.Intn(len(pts))]}
	ps := gspec.ApplyPlan(spec, plan)
	store := gspec.NewByteStore()
	r, err := gspec.Build(ctx, ps, gspec.BuildOpts{Store: store})
	if err != nil {
		rep.Violation(ID+"/build-error/with-interrupts", err.Error(), ps)
		return
	}
	for call := 0; call < 6; call++ {
		os := genOptions(rng, inv, fmt.Sprintf("r%d", call), 0)
		opts := []compose.Option{compose.WithCheckPointID("cp")}
		for _, o := range os {
			opts = append(opts, toOption(o, nil))
		}
		ctl := gspec.NewCtl("c")
		out := gspec.Call(gspec.WithCtl(ctx, ctl), r, "I", in, 0, -1, opts...)
		rep.AddEvaluations(1)
		execs, _, _, _ := ctl.Log.Snapshot()
		exp, mustFail, _ := route(ps, os)
		if mustFail {
			return
		}
		wit := map[string]any{"spec": ps, "plan": plan.String(), "call": call, "options": os}
		_, interrupted := compose.ExtractInterruptInfo(out.Err)
		for _, e := range execs {
			if out.Failed() && !interrupted && len(e.Opts) == 0 && !e.InOK && !e.Done && e.EndSeq == 0 {
				continue // stopped by a designated step limit while this body was being entered: its options are not recorded yet
			}
			want, got := exp[e.Path], e.Opts
			if strings.Join(want, ",") != strings.Join(got, ",") {
				when := "first-call"
				if call > 0 {
					when = "resumed-call"
				}
				cl := "wrong-options"
				if mc := mixedClass(os, want, got); mc != "" {
					cl = mc
				}
				rep.Violation(ID+"/"+cl+"/"+when, fmt.Sprintf("call %d of an interrupted history (plan %s): node %s received %v, the reference router delivers %v\noptions: %+v", call, plan, e.Path, got, want, os), wit)
				return
			}
			rep.Count("node_option_lists_checked", 1)
		}
		if call > 0 && len(execs) > 0 {
			rep.Count("resumed_calls_with_options_checked", 1)
			if len(os) > 0 {
				rep.NonTrivial(fmt.Sprintf("resume|%s|%s|%v", spec.Digest(), plan, os))
			}
		}
		if _, isInt := compose.ExtractInterruptInfo(out.Err); !isInt {
			return
		}
	}
}

// unknownCallbackTarget: a callbacks-only option designated to a node that does not exist is an error,
// at the top level and inside a nested graph that runs.
func unknownCallbackTarget(ctx context.Context, rep *mon.Reporter, rng *mon.Rand, spec *gspec.GraphSpec, r compose.Runnable[gspec.V, gspec.V], in gspec.V) {
	h := callbacks.NewHandlerBuilder().OnStartFn(func(ctx context.Context, _ *callbacks.RunInfo, _ callbacks.CallbackInput) context.Context { return ctx }).Build()
	ref := gspec.EvalGraph(spec, in, nil)
	type tc struct {
		path []string
		kind string
	}
	cases := []tc{{[]string{"nope"}, "top-level"}}
	for i := range spec.Nodes {
		if spec.Nodes[i].Sub != nil && len(ref.SubIn[spec.Nodes[i].Key]) > 0 {
			cases = append(cases, tc{[]string{spec.Nodes[i].Key, "nope"}, "nested"})
			break
		}
	}
	for _, c := range cases {
		res := doCall(ctx, r, in, []compose.Option{compose.WithCallbacks(h).DesignateNodeWithPath(compose.NewNodePath(c.path...))})
		rep.AddEvaluations(1)
		rep.Count("unknown_callback_target_calls", 1)
		if !res.out.Failed() {
			rep.Violation(ID+"/invalid-designation-accepted/callbacks-to-unknown-node/"+c.kind, fmt.Sprintf("WithCallbacks(h) designated to %v (no such node) was accepted and the run returned %s", c.path, gspec.Canon(res.out.Out)), map[string]any{"spec": spec, "path": c.path})
			return
		}
	}
}

// ---------------------------------------------------------------- graph-run options designated to nested graphs

// stateModGenOpts: deep nesting (<=3) with many stateful graphs: an interrupt inside a nested graph then leaves
// a chain (and, with two points, siblings) of graphs whose states are restored on resume.
func stateModGenOpts(cfg mon.Config, mode gspec.Mode) gspec.GenOpts {
	return gspec.GenOpts{
		Mode: mode, MinNodes: 2, MaxNodes: cfg.Pick(5, 6),
		Branches: 0.15, Multi: 0.5,
		Nest: 3, NestProb: 0.45, State: 0.6, SubState: 0.7,
		Streamy: false, Passthrough: 0.1, Wide: 0.1,
		CtrlOnly: 0.2, DataOnly: 0.2, Fields: 0.3,
		SubModes: []gspec.Mode{gspec.DAG, gspec.Workflow, gspec.Pregel},
	}
}

type modCall struct {
	Path  string `json:"path"`  // node path the modifier was called for ("" = the top-level graph)
	Graph string `json:"graph"` // name of the graph the state object belongs to ("?": not a *gspec.St)
}

func keyOf(p []string) string { return strings.Join(p, "/") }

// statefulPaths: the graphs of an interrupt (paths of graph-node keys, "" = top level) that carry a state:
// these are the states a resume restores.
func statefulPaths(info *compose.InterruptInfo, prefix []string, out map[string]*gspec.St) {
	if info == nil {
		return
	}
	if st, ok := info.State.(*gspec.St); ok && st != nil {
		out[keyOf(prefix)] = st
	}
	for _, k := range mon.SortedKeys(info.SubGraphs) {
		statefulPaths(info.SubGraphs[k], append(append([]string(nil), prefix...), k), out)
	}
}

const modDelta = 1000000

// designatedStateModifierCase: "an option designated to a node or node path reaches only that node" for the
// options of a graph run itself. On a call that resumes an interrupt inside nested graphs, a
// WithStateModifier designated (DesignateNode / DesignateNodeWithPath, 1-3 paths) to nested graphs must be
// called for exactly the designated graphs whose state the call restores, with that graph's node path and
// that graph's state object - never for the top-level graph, an enclosing graph, a graph nested in the
// designated one, or a sibling; and only the designated graphs' states carry the modification afterwards.
// A checkpoint id designated to a node is not the checkpoint id of the graph the call is made on.
func designatedStateModifierCase(ctx context.Context, rep *mon.Reporter, rng *mon.Rand, cfg mon.Config) {
	var spec *gspec.GraphSpec
	var plan gspec.Plan
	var inv []nodeInfo
	for try := 0; try < 6 && plan == nil; try++ {
		spec = gspec.Gen(rng, stateModGenOpts(cfg, gspec.Mode(rng.Intn(3))))
		var stateful map[string]bool
		stateful = map[string]bool{}
		var walk func(g *gspec.GraphSpec)
		walk = func(g *gspec.GraphSpec) {
			if g.State && g.Name != "" {
				stateful[g.Name] = true
			}
			for i := range g.Nodes {
				if g.Nodes[i].Sub != nil {
					walk(g.Nodes[i].Sub)
				}
			}
		}
		walk(spec)
		// interrupt points inside nested graphs that are stateful or lie below a stateful nested graph
		var cands []gspec.IntPoint
		for _, p := range gspec.AllPoints(spec) {
			if p.Graph == "" {
				continue
			}
			parts := strings.Split(p.Graph, "/")
			for d := 1; d <= len(parts); d++ {
				if stateful[strings.Join(parts[:d], "/")] {
					cands = append(cands, p)
					break
				}
			}
		}
		if len(cands) == 0 {
			continue
		}
		// prefer deep points
		sort.SliceStable(cands, func(i, j int) bool { return strings.Count(cands[i].Graph, "/") > strings.Count(cands[j].Graph, "/") })
		first := cands[rng.Intn(1+rng.Intn(len(cands)))]
		plan = gspec.Plan{first}
		if rng.Prob(0.5) {
			if second := cands[rng.Intn(len(cands))]; second != first {
				plan = append(plan, second)
			}
		}
		inv = nil
		inventory(spec, nil, &inv)
	}
	if plan == nil {
		return
	}
	in := gspec.V{"in": rng.Str(1, 5)}
	if ref := gspec.EvalGraph(spec, in, nil); ref.Err != "" {
		return
	}
	ps := gspec.ApplyPlan(spec, plan)
	store := gspec.NewByteStore()
	r, err := gspec.Build(ctx, ps, gspec.BuildOpts{Store: store})
	if err != nil {
		rep.Violation(ID+"/build-error/with-interrupts", err.Error(), ps)
		return
	}
	var subs, others []nodeInfo
	for _, n := range inv {
		if n.kind == gspec.Sub {
			subs = append(subs, n)
		} else {
			others = append(others, n)
		}
	}
	wit := map[string]any{"spec": ps, "plan": plan.String(), "input": in}

	// ---- a checkpoint id designated to a nested graph is not the id of this run
	if rng.Prob(0.25) && len(subs) > 0 {
		t := subs[rng.Intn(len(subs))]
		s0, g0 := store.Counts()
		res := doCall(ctx, r, in, []compose.Option{compose.WithCheckPointID("cp").DesignateNodeWithPath(compose.NewNodePath(t.path...))})
		s1, g1 := store.Counts()
		rep.AddEvaluations(1)
		rep.Count("designated_checkpoint_id_calls", 1)
		if s1 != s0 || g1 != g0 {
			rep.Violation(ID+"/designated-checkpoint-id/used-by-the-top-level-graph", fmt.Sprintf("WithCheckPointID designated to the nested graph %v (and no id for the run itself): the top-level graph accessed its store under it (%d Set, %d Get); the call returned %v", t.path, s1-s0, g1-g0, res.out.Err), wit)
			return
		}
	}

	para := []string{"I", "S"}[rng.Intn(2)] // one form per history (what a resume in another form restores is C05's business)
	modified := map[int64]bool{}            // serial of a state object that a designated modifier has modified
	serialPath := map[int64]string{}
	var prevInfo *compose.InterruptInfo
	for call := 0; call < 7; call++ {
		opts := []compose.Option{compose.WithCheckPointID("cp")}
		var designated [][]string
		var mu sync.Mutex
		var calls []modCall
		restored := map[string]*gspec.St{}
		how := ""
		if call > 0 {
			statefulPaths(prevInfo, nil, restored)
			var restoredNested []string
			for _, k := range mon.SortedKeys(restored) {
				if k != "" {
					restoredNested = append(restoredNested, k)
				}
				serialPath[restored[k].Serial] = k
			}
			// 1-3 designated graphs: mostly graphs whose state this call restores, also other nested graphs
			// (not interrupted, stateless, siblings)
			seen := map[string]bool{}
			for i, n := 0, 1+rng.Intn(3); i < n; i++ {
				var p []string
				if len(restoredNested) > 0 && rng.Prob(0.7) {
					p = strings.Split(restoredNested[rng.Intn(len(restoredNested))], "/")
				} else if len(subs) > 0 {
					p = subs[rng.Intn(len(subs))].path
				}
				if p != nil && !seen[keyOf(p)] {
					seen[keyOf(p)] = true
					designated = append(designated, p)
				}
			}
			if len(designated) > 0 {
				f := func(_ context.Context, path compose.NodePath, state any) error {
					c := modCall{Path: keyOf(path.GetPath()), Graph: "?"}
					if st, ok := state.(*gspec.St); ok && st != nil {
						c.Graph = st.Graph
						st.Counter += modDelta
					}
					mu.Lock()
					calls = append(calls, c)
					mu.Unlock()
					return nil
				}
				allTop := true
				var nps []*compose.NodePath
				var keys []string
				for _, p := range designated {
					if len(p) != 1 {
						allTop = false
					}
					nps = append(nps, compose.NewNodePath(p...))
					keys = append(keys, p[0])
				}
				o := compose.WithStateModifier(f)
				var perPath []compose.Option
				switch {
				case len(nps) > 1 && rng.Intn(3) == 0:
					// several WithStateModifier options in one call, each designated to one graph
					how = "one WithStateModifier option per path"
					for _, np := range nps {
						perPath = append(perPath, compose.WithStateModifier(f).DesignateNodeWithPath(np))
					}
				case allTop && rng.Bool():
					o, how = o.DesignateNode(keys...), "DesignateNode"
				case rng.Bool():
					o, how = o.DesignateNodeWithPath(nps...), "DesignateNodeWithPath"
				default:
					how = "DesignateNodeWithPath, one call per path"
					for _, np := range nps {
						o = o.DesignateNodeWithPath(np)
					}
				}
				switch {
				case perPath != nil:
					opts = append(opts, perPath...)
				case rng.Bool():
					opts = append(opts, o)
				default:
					opts = append([]compose.Option{o}, opts...)
				}
			}
		}
		ctl := gspec.NewCtl("c")
		out := gspec.Call(gspec.WithCtl(ctx, ctl), r, para, in, 0, -1, opts...)
		rep.AddEvaluations(1)
		_, _, _, states := ctl.Log.Snapshot()
		info, isInt := compose.ExtractInterruptInfo(out.Err)
		if out.Failed() && !isInt {
			if call > 0 && len(designated) > 0 {
				rep.Violation(ID+"/designated-state-modifier/resume-failed", fmt.Sprintf("call %d resumes with a state modifier designated (%s) to the nested graphs %v and failed: %v panic=%v", call, how, designated, out.Err, out.Panic), wit)
			}
			return
		}
		if call > 0 && len(designated) > 0 {
			rep.Count("resumes_with_designated_state_modifier", 1)
			w := map[string]any{"spec": ps, "plan": plan.String(), "input": in, "resume_call": call, "designated": designated, "how": how, "modifier_calls": calls, "restored_states_of": mon.SortedKeys(restored)}
			desc := fmt.Sprintf("call %d resumes the interrupt %s; WithStateModifier designated (%s) to %v; the modifier was called for %+v; graphs whose state the call restores: %v", call, gspec.RenderInfo(prevInfo), how, designated, calls, mon.SortedKeys(restored))
			dset := map[string]bool{}
			for _, p := range designated {
				dset[keyOf(p)] = true
			}
			count := map[string]int{}
			mu.Lock()
			cs := append([]modCall(nil), calls...)
			mu.Unlock()
			for _, c := range cs {
				count[c.Path]++
				if !dset[c.Path] {
					encl, nested := false, false
					for d := range dset {
						encl = encl || strings.HasPrefix(d, c.Path+"/")
						nested = nested || strings.HasPrefix(c.Path, d+"/")
					}
					cl := "a-sibling-graph"
					switch {
					case c.Path == "":
						cl = "the-top-level-graph"
					case encl:
						cl = "a-graph-enclosing-the-designated-one"
					case nested:
						cl = "a-graph-nested-in-the-designated-one"
					}
					rep.Violation(ID+"/designated-state-modifier/called-for-"+cl, desc, w)
					return
				}
				if c.Graph != c.Path {
					rep.Violation(ID+"/designated-state-modifier/handed-the-state-of-another-graph", desc+fmt.Sprintf("\ncalled for node path %q with the state object of graph %q", c.Path, c.Graph), w)
					return
				}
			}
			for _, k := range mon.SortedKeys(dset) {
				_, isRestored := restored[k]
				switch {
				case isRestored && count[k] == 0:
					rep.Violation(ID+"/designated-state-modifier/not-called-for-the-designated-graph", desc, w)
					return
				case count[k] > 1:
					rep.Violation(ID+"/designated-state-modifier/called-more-than-once-for-one-graph", desc, w)
					return
				case isRestored:
					modified[restored[k].Serial] = true
					rep.Count("designated_state_modifier_calls_checked", 1)
					rep.Count(fmt.Sprintf("designated_state_modifier_depth_%d", strings.Count(k, "/")+1), 1)
				}
			}
			if len(restored) > len(cs) {
				rep.Count("restored_states_left_alone_checked", int64(len(restored)-len(cs)))
			}
			// what the state handlers of this call see: only the designated graphs' states are modified
			for _, ev := range states {
				pth, known := serialPath[ev.Serial]
				if !known || ev.Kind == "gen" {
					continue
				}
				isMod := ev.Val >= modDelta
				if isMod != modified[ev.Serial] {
					cl := "state-of-designated-graph-not-modified"
					if isMod {
						cl = "state-of-another-graph-modified"
						if pth == "" {
							cl = "state-of-the-top-level-graph-modified"
						}
					}
					rep.Violation(ID+"/designated-state-modifier/"+cl, desc+fmt.Sprintf("\nstate handler %s of node %s (graph %q) saw the counter %d", ev.Kind, ev.Node, pth, ev.Val), w)
					return
				}
				rep.Count("state_values_after_designated_modifier_checked", 1)
			}
			rep.NonTrivial(fmt.Sprintf("statemod|%s|%s|%d|%v", spec.Digest(), plan, call, designated))
		}
		if !isInt {
			return
		}
		prevInfo = info
	}
}
