package c16

import (
	"context"
	"fmt"
	"strings"

	"github.com/cloudwego/eino/callbacks"
	"github.com/cloudwego/eino/compose"

	"verifharness/internal/gspec"
	"verifharness/internal/mon"
)

// resumeCase: options passed on a call that resumes from a checkpoint must reach the nodes executed by
// that call exactly like on a fresh call (the pending nodes restored from the checkpoint included).
func resumeCase(ctx context.Context, rep *mon.Reporter, rng *mon.Rand, spec *gspec.GraphSpec, inv []nodeInfo, in gspec.V) {
	pts := gspec.AllPoints(spec)
	if len(pts) == 0 {
		return
	}
	plan := gspec.Plan{pts[rng.Intn(len(pts))]}
	ps := gspec.ApplyPlan(spec, plan)
	store := gspec.NewByteStore()
	r, err := gspec.Build(ctx, ps, gspec.BuildOpts{Store: store})
	if err != nil {
		rep.Violation(ID+"/build-error/with-interrupts", err.Error(), ps)
		return
	}
	for call := 0; call < 6; call++ {
		os := genOptions(rng, inv, fmt.Sprintf("r%d", call), 0)
		opts := []compose.Option{compose.WithCheckPointID("cp")}
		for _, o := range os {
			opts = append(opts, toOption(o, nil))
		}
		ctl := gspec.NewCtl("c")
		out := gspec.Call(gspec.WithCtl(ctx, ctl), r, "I", in, 0, -1, opts...)
		rep.AddEvaluations(1)
		execs, _, _, _ := ctl.Log.Snapshot()
		exp, mustFail, _ := route(ps, os)
		if mustFail {
			return
		}
		wit := map[string]any{"spec": ps, "plan": plan.String(), "call": call, "options": os}
		for _, e := range execs {
			want, got := exp[e.Path], e.Opts
			if strings.Join(want, ",") != strings.Join(got, ",") {
				when := "first-call"
				if call > 0 {
					when = "resumed-call"
				}
				cl := "wrong-options"
				if mc := mixedClass(os, want, got); mc != "" {
					cl = mc
				}
				rep.Violation(ID+"/"+cl+"/"+when, fmt.Sprintf("call %d of an interrupted history (plan %s): node %s received %v, the reference router delivers %v\noptions: %+v", call, plan, e.Path, got, want, os), wit)
				return
			}
			rep.Count("node_option_lists_checked", 1)
		}
		if call > 0 && len(execs) > 0 {
			rep.Count("resumed_calls_with_options_checked", 1)
			if len(os) > 0 {
				rep.NonTrivial(fmt.Sprintf("resume|%s|%s|%v", spec.Digest(), plan, os))
			}
		}
		if _, isInt := compose.ExtractInterruptInfo(out.Err); !isInt {
			return
		}
	}
}

// unknownCallbackTarget: a callbacks-only option designated to a node that does not exist is an error,
// at the top level and inside a nested graph that runs.
func unknownCallbackTarget(ctx context.Context, rep *mon.Reporter, rng *mon.Rand, spec *gspec.GraphSpec, r compose.Runnable[gspec.V, gspec.V], in gspec.V) {
	h := callbacks.NewHandlerBuilder().OnStartFn(func(ctx context.Context, _ *callbacks.RunInfo, _ callbacks.CallbackInput) context.Context { return ctx }).Build()
	ref := gspec.EvalGraph(spec, in, nil)
	type tc struct {
		path []string
		kind string
	}
	cases := []tc{{[]string{"nope"}, "top-level"}}
	for i := range spec.Nodes {
		if spec.Nodes[i].Sub != nil && len(ref.SubIn[spec.Nodes[i].Key]) > 0 {
			cases = append(cases, tc{[]string{spec.Nodes[i].Key, "nope"}, "nested"})
			break
		}
	}
	for _, c := range cases {
		res := doCall(ctx, r, in, []compose.Option{compose.WithCallbacks(h).DesignateNodeWithPath(compose.NewNodePath(c.path...))})
		rep.AddEvaluations(1)
		rep.Count("unknown_callback_target_calls", 1)
		if !res.out.Failed() {
			rep.Violation(ID+"/invalid-designation-accepted/callbacks-to-unknown-node/"+c.kind, fmt.Sprintf("WithCallbacks(h) designated to %v (no such node) was accepted and the run returned %s", c.path, gspec.Canon(res.out.Out)), map[string]any{"spec": spec, "path": c.path})
			return
		}
	}
}
