package c16

import (
	"context"
	"fmt"
	"sort"
	"strings"
	"sync"

	"github.com/cloudwego/eino/components/model"
	"github.com/cloudwego/eino/compose"
	"github.com/cloudwego/eino/schema"

	"verifharness/internal/gspec"
	"verifharness/internal/mon"
)

// recModel records the model options it receives (the model name of each option is its payload).
type recModel struct {
	key string
	mu  sync.Mutex
	got map[string][]string // call id -> payloads
}

func (m *recModel) record(in []*schema.Message, opts []model.Option) {
	call := in[0].Content
	var ps []string
	for _, o := range opts {
		c := model.GetCommonOptions(&model.Options{}, o)
		if c.Model != nil {
			ps = append(ps, *c.Model)
		}
	}
	m.mu.Lock()
	if m.got == nil {
		m.got = map[string][]string{}
	}
	m.got[call] = append(m.got[call], ps...)
	m.mu.Unlock()
}

func (m *recModel) Generate(_ context.Context, in []*schema.Message, opts ...model.Option) (*schema.Message, error) {
	m.record(in, opts)
	return schema.AssistantMessage(in[0].Content, nil), nil
}

func (m *recModel) Stream(_ context.Context, in []*schema.Message, opts ...model.Option) (*schema.StreamReader[*schema.Message], error) {
	m.record(in, opts)
	return schema.StreamReaderFromArray([]*schema.Message{schema.AssistantMessage(in[0].Content, nil)}), nil
}

func (m *recModel) BindTools(_ []*schema.ToolInfo) error { return nil }

type lamRec struct {
	mu  sync.Mutex
	got map[string][]string
}

// componentCase: chat-model nodes (model.Option) next to lambdas (OptA) in a graph with a nested graph:
// undesignated component options reach every node of that component type, at every depth, and no other.
func componentCase(ctx context.Context, rep *mon.Reporter, rng *mon.Rand) {
	m1, m2, m3 := &recModel{key: "m1"}, &recModel{key: "m2"}, &recModel{key: "m3"}
	lr := &lamRec{got: map[string][]string{}}
	lam := func(key string) *compose.Lambda {
		return compose.InvokableLambdaWithOption(func(_ context.Context, in *schema.Message, opts ...gspec.OptA) ([]*schema.Message, error) {
			lr.mu.Lock()
			for _, o := range opts {
				lr.got[key+"|"+in.Content] = append(lr.got[key+"|"+in.Content], o.ID)
			}
			lr.mu.Unlock()
			return []*schema.Message{schema.UserMessage(in.Content)}, nil
		})
	}
	inner := compose.NewGraph[[]*schema.Message, []*schema.Message]()
	_ = inner.AddChatModelNode("m2", m2)
	_ = inner.AddLambdaNode("l2", lam("l2"))
	_ = inner.AddEdge(compose.START, "m2")
	_ = inner.AddEdge("m2", "l2")
	_ = inner.AddEdge("l2", compose.END)
	g := compose.NewGraph[[]*schema.Message, *schema.Message]()
	_ = g.AddChatModelNode("m1", m1)
	_ = g.AddLambdaNode("l1", lam("l1"))
	_ = g.AddGraphNode("sub", inner)
	_ = g.AddChatModelNode("m3", m3)
	_ = g.AddEdge(compose.START, "m1")
	_ = g.AddEdge("m1", "l1")
	_ = g.AddEdge("l1", "sub")
	_ = g.AddEdge("sub", "m3")
	_ = g.AddEdge("m3", compose.END)
	r, err := g.Compile(ctx)
	if err != nil {
		rep.Violation(ID+"/component/build-error", err.Error(), nil)
		return
	}
	type optDesc struct {
		Kind  string // model | lambda
		ID    string
		Paths [][]string
	}
	for c := 0; c < 6; c++ {
		call := fmt.Sprintf("call%d-%s", c, rng.Str(2, 4))
		var descs []optDesc
		var opts []compose.Option
		expect := map[string][]string{} // node -> payloads
		invalid := ""
		for i, n := 0, rng.Intn(5); i < n; i++ {
			id := fmt.Sprintf("%s-o%d", call, i)
			d := optDesc{ID: id}
			var o compose.Option
			if rng.Bool() {
				d.Kind = "model"
				o = compose.WithChatModelOption(model.WithModel(id))
				switch rng.Intn(6) {
				case 0:
					d.Paths = [][]string{{"m1"}}
					expect["m1"] = append(expect["m1"], id)
				case 1:
					d.Paths = [][]string{{"sub", "m2"}, {"m3"}}
					expect["m2"] = append(expect["m2"], id)
					expect["m3"] = append(expect["m3"], id)
				case 2:
					d.Paths = [][]string{{"sub"}}
					expect["m2"] = append(expect["m2"], id)
				case 3:
					d.Paths = [][]string{{"l1"}} // a model option for a lambda: wrong type
					invalid = "wrong-option-type"
				default:
					for _, k := range []string{"m1", "m2", "m3"} {
						expect[k] = append(expect[k], id)
					}
				}
			} else {
				d.Kind = "lambda"
				o = compose.WithLambdaOption(gspec.OptA{ID: id})
				switch rng.Intn(5) {
				case 0:
					d.Paths = [][]string{{"sub", "l2"}}
					expect["l2"] = append(expect["l2"], id)
				case 1:
					d.Paths = [][]string{{"m1"}} // a lambda option for a chat model: wrong type
					invalid = "wrong-option-type"
				case 2:
					d.Paths = [][]string{{"m1", "x"}}
					invalid = "path-below-component"
				default:
					expect["l1"] = append(expect["l1"], id)
					expect["l2"] = append(expect["l2"], id)
				}
			}
			for _, p := range d.Paths {
				o = o.DesignateNodeWithPath(compose.NewNodePath(p...))
			}
			descs = append(descs, d)
			opts = append(opts, o)
		}
		var runErr error
		p := mon.Safe(func() { _, runErr = r.Invoke(ctx, []*schema.Message{schema.UserMessage(call)}, opts...) })
		rep.AddEvaluations(1)
		rep.Count("component_calls", 1)
		wit := map[string]any{"options": descs}
		if p != nil {
			rep.Violation(ID+"/component/panic", p.Value+"\n"+p.Stack, wit)
			return
		}
		if invalid != "" {
			if runErr == nil {
				rep.Violation(ID+"/component/invalid-designation-accepted/"+invalid, fmt.Sprintf("options %+v: the call succeeded", descs), wit)
				return
			}
			continue
		}
		if runErr != nil {
			rep.Violation(ID+"/component/unexpected-error", runErr.Error()+fmt.Sprintf("\noptions %+v", descs), wit)
			return
		}
		got := map[string][]string{}
		for _, m := range []*recModel{m1, m2, m3} {
			m.mu.Lock()
			got[m.key] = append([]string(nil), m.got[call]...)
			m.mu.Unlock()
		}
		lr.mu.Lock()
		got["l1"] = append([]string(nil), lr.got["l1|"+call]...)
		got["l2"] = append([]string(nil), lr.got["l2|"+call]...)
		lr.mu.Unlock()
		var keys []string
		for k := range got {
			keys = append(keys, k)
		}
		sort.Strings(keys)
		for _, k := range keys {
			if strings.Join(got[k], ",") != strings.Join(expect[k], ",") {
				kind := "chat-model"
				if strings.HasPrefix(k, "l") {
					kind = "lambda"
				}
				rep.Violation(ID+"/component/wrong-options/"+kind, fmt.Sprintf("node %s received %v, expected %v\noptions %+v", k, got[k], expect[k], descs), wit)
				return
			}
			rep.Count("node_option_lists_checked", 1)
		}
		if len(descs) >= 2 {
			rep.NonTrivial("component|" + fmt.Sprint(descs))
		}
	}
}
