package c16

import (
	"context"
	"fmt"
	"sort"
	"strings"
	"sync"

	"github.com/cloudwego/eino/compose"

	"verifharness/internal/mon"
)

// lambdas whose option type is an interface (with a method), a concrete struct type, or `any`
type tagger interface{ Tag() string }

type tagA struct{ id string }

func (t tagA) Tag() string { return "A:" + t.id }

type tagB struct{ id string }

func (t *tagB) Tag() string { return "B:" + t.id }

type plainOpt struct{ id string } // does not implement tagger

// ifaceOptionCase: "an undesignated component option reaches every node of that component type ... and no node
// of another type; an option designated to a node reaches only that node, and designating ... an option of
// the wrong type is an error". Here the option type of some lambdas is an interface: a value that implements
// it is of that type. Nil options and values of a wrong type designated to a node are errors, never panics.
func ifaceOptionCase(ctx context.Context, rep *mon.Reporter, rng *mon.Rand) {
	var mu sync.Mutex
	got := map[string][]string{}
	rec := func(key string, tags ...string) {
		mu.Lock()
		got[key] = append(got[key], tags...)
		mu.Unlock()
	}
	ifaceLam := func(key string) *compose.Lambda {
		return compose.InvokableLambdaWithOption(func(_ context.Context, in string, opts ...tagger) (string, error) {
			for _, o := range opts {
				rec(key, o.Tag())
			}
			return in + key, nil
		})
	}
	structLam := func(key string) *compose.Lambda {
		return compose.InvokableLambdaWithOption(func(_ context.Context, in string, opts ...plainOpt) (string, error) {
			for _, o := range opts {
				rec(key, "P:"+o.id)
			}
			return in + key, nil
		})
	}
	// top: i1 -> s1 -> sub{i2 -> s2} -> i3
	sub := compose.NewGraph[string, string]()
	_ = sub.AddLambdaNode("i2", ifaceLam("i2"))
	_ = sub.AddLambdaNode("s2", structLam("s2"))
	_ = sub.AddEdge(compose.START, "i2")
	_ = sub.AddEdge("i2", "s2")
	_ = sub.AddEdge("s2", compose.END)
	g := compose.NewGraph[string, string]()
	_ = g.AddLambdaNode("i1", ifaceLam("i1"))
	_ = g.AddLambdaNode("s1", structLam("s1"))
	_ = g.AddGraphNode("sub", sub)
	_ = g.AddLambdaNode("i3", ifaceLam("i3"))
	_ = g.AddEdge(compose.START, "i1")
	_ = g.AddEdge("i1", "s1")
	_ = g.AddEdge("s1", "sub")
	_ = g.AddEdge("sub", "i3")
	_ = g.AddEdge("i3", compose.END)
	r, err := g.Compile(ctx)
	if err != nil {
		rep.Violation(ID+"/interface-option/build-error", err.Error(), nil)
		return
	}
	ifaceNodes := map[string][]string{"i1": {"i1"}, "i2": {"sub", "i2"}, "i3": {"i3"}}
	structNodes := map[string][]string{"s1": {"s1"}, "s2": {"sub", "s2"}}
	for c := 0; c < 8; c++ {
		mu.Lock()
		got = map[string][]string{}
		mu.Unlock()
		expect := map[string][]string{}
		invalid := ""
		twoTypes := false
		var opts []compose.Option
		var desc []string
		for i, n := 0, 1+rng.Intn(3); i < n; i++ {
			id := fmt.Sprintf("c%d-o%d", c, i)
			kind := rng.Intn(4) // 0: tagA value, 1: *tagB, 2: plainOpt, 3: nil
			var val any
			tag := ""
			switch kind {
			case 0:
				val, tag = tagA{id}, "A:"+id
			case 1:
				val, tag = &tagB{id}, "B:"+id
			case 2:
				val, tag = plainOpt{id}, "P:"+id
			}
			o := compose.WithLambdaOption(val)
			target := rng.Intn(4) // 0: undesignated, 1: an interface lambda, 2: a struct lambda, 3: the nested graph
			if kind != 3 && rng.Prob(0.3) {
				// ONE Option with a value for the interface lambdas and a value for the struct lambdas, in either
				// order: undesignated or designated to the nested graph every value reaches the nodes of its
				// type; designated to a lambda, one of the two is of the wrong type for it
				var other any
				otherTag, id2 := "", id+"x"
				switch kind {
				case 0, 1:
					other, otherTag = plainOpt{id2}, "P:"+id2
				default:
					other, otherTag = tagA{id2}, "A:"+id2
				}
				vals, tags := []any{val, other}, []string{tag, otherTag}
				if rng.Bool() {
					vals, tags = []any{other, val}, []string{otherTag, tag}
				}
				o = compose.WithLambdaOption(vals...)
				rep.Count("interface_option_two_types_in_one_option", 1)
				twoTypes = true
				put := func(keys []string) {
					for _, t := range tags {
						for _, k := range keys {
							if (t[0] == 'P') == (k[0] == 's') {
								expect[k] = append(expect[k], t)
							}
						}
					}
				}
				switch target {
				case 0:
					desc = append(desc, fmt.Sprintf("%v:undesignated", tags))
					put([]string{"i1", "i2", "i3", "s1", "s2"})
				case 1, 2:
					k := []string{"i1", "i2", "i3", "s1", "s2"}[rng.Intn(5)]
					desc = append(desc, fmt.Sprintf("%v:->%s", tags, k))
					p := ifaceNodes[k]
					if p == nil {
						p = structNodes[k]
					}
					o = o.DesignateNodeWithPath(compose.NewNodePath(p...))
					if invalid == "" || invalid == "maybe" {
						invalid = "one-of-two-values-of-wrong-type"
					}
				case 3:
					desc = append(desc, fmt.Sprintf("%v:->sub", tags))
					o = o.DesignateNode("sub")
					put([]string{"i2", "s2"})
				}
				opts = append(opts, o)
				continue
			}
			switch target {
			case 0:
				desc = append(desc, fmt.Sprintf("%d:undesignated", kind))
				switch kind {
				case 0, 1:
					for k := range ifaceNodes {
						expect[k] = append(expect[k], tag)
					}
				case 2:
					for k := range structNodes {
						expect[k] = append(expect[k], tag)
					}
				case 3:
					// an undesignated nil option fits no node: it reaches nobody (or is refused)
					invalid = "maybe"
				}
			case 1:
				k := []string{"i1", "i2", "i3"}[rng.Intn(3)]
				desc = append(desc, fmt.Sprintf("%d:->%s", kind, k))
				o = o.DesignateNodeWithPath(compose.NewNodePath(ifaceNodes[k]...))
				if kind == 0 || kind == 1 {
					expect[k] = append(expect[k], tag)
				} else if invalid == "" || invalid == "maybe" {
					invalid = "wrong-type-for-interface-lambda"
				}
			case 2:
				k := []string{"s1", "s2"}[rng.Intn(2)]
				desc = append(desc, fmt.Sprintf("%d:->%s", kind, k))
				o = o.DesignateNodeWithPath(compose.NewNodePath(structNodes[k]...))
				if kind == 2 {
					expect[k] = append(expect[k], tag)
				} else if invalid == "" || invalid == "maybe" {
					invalid = "wrong-type-for-struct-lambda"
				}
			case 3:
				desc = append(desc, fmt.Sprintf("%d:->sub", kind))
				o = o.DesignateNode("sub")
				switch kind {
				case 0, 1:
					expect["i2"] = append(expect["i2"], tag)
				case 2:
					expect["s2"] = append(expect["s2"], tag)
				case 3:
					invalid = "maybe"
				}
			}
			opts = append(opts, o)
		}
		var out string
		var rerr error
		p := mon.Safe(func() { out, rerr = r.Invoke(ctx, "x", opts...) })
		rep.AddEvaluations(1)
		rep.Count("interface_option_calls", 1)
		wit := map[string]any{"options": desc, "kinds": "0=tagA 1=*tagB 2=plainOpt 3=nil"}
		if p != nil {
			rep.Violation(ID+"/interface-option/panic", fmt.Sprintf("the call panicked on the caller: %s\noptions: %v", p.Value, desc), wit)
			return
		}
		if invalid != "" && invalid != "maybe" {
			if rerr == nil {
				rep.Violation(ID+"/interface-option/invalid-designation-accepted/"+invalid, fmt.Sprintf("options %v: the call returned %q", desc, out), wit)
				return
			}
			continue
		}
		if rerr != nil {
			if invalid == "maybe" {
				continue
			}
			cl := "valid-option-refused"
			if twoTypes {
				cl = "one-option-with-values-of-two-types/valid-call-failed"
			}
			rep.Violation(ID+"/interface-option/"+cl, fmt.Sprintf("options %v (every value implements / is the option type of the node it is addressed to): %v", desc, rerr), wit)
			return
		}
		mu.Lock()
		for k := range ifaceNodes {
			a, b := append([]string(nil), got[k]...), append([]string(nil), expect[k]...)
			sort.Strings(a)
			sort.Strings(b)
			if strings.Join(a, ",") != strings.Join(b, ",") {
				mu.Unlock()
				cl := "did-not-receive-option-addressed-to-it"
				if len(a) > len(b) {
					cl = "received-option-not-addressed-to-it"
				}
				rep.Violation(ID+"/interface-option/"+cl, fmt.Sprintf("lambda %s (option type: an interface) received %v, expected %v\noptions: %v", k, a, b, desc), wit)
				return
			}
		}
		for k := range structNodes {
			a, b := append([]string(nil), got[k]...), append([]string(nil), expect[k]...)
			sort.Strings(a)
			sort.Strings(b)
			if strings.Join(a, ",") != strings.Join(b, ",") {
				mu.Unlock()
				rep.Violation(ID+"/interface-option/struct-lambda-options-differ", fmt.Sprintf("lambda %s (option type: a struct) received %v, expected %v\noptions: %v", k, a, b, desc), wit)
				return
			}
		}
		mu.Unlock()
		rep.NonTrivial(fmt.Sprintf("iface|%v", desc))
	}
}
