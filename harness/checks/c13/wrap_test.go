package c13

// A node that runs another compiled runnable (a nested Invoke / Stream / Collect / Transform of a graph, chain or
// workflow from inside a Lambda or a tool) and fails with its own error around the inner run's error:
// "When a node fails, the run returns an error that names the failing node path (through nested graphs) and
// from which the original error can be recovered with errors.Is / errors.As". The node's own error is the
// original error of the node that failed; the inner run's cause has to stay reachable as well; the path has to
// lead from the outermost calling node to the innermost failing node.

import (
	"context"
	"errors"
	"fmt"
	"io"
	"strings"
	"sync"

	"github.com/cloudwego/eino/components/model"
	"github.com/cloudwego/eino/components/tool"
	"github.com/cloudwego/eino/compose"
	"github.com/cloudwego/eino/flow/agent/react"
	"github.com/cloudwego/eino/schema"

	"verifharness/internal/mon"
)

var errLeaf = errors.New("verif: innermost failure")

type leafErr struct{ Code int }

func (e *leafErr) Error() string { return fmt.Sprintf("verif: innermost failure with code %d", e.Code) }

var errLevel = [3]error{errors.New("verif: level-0 marker"), errors.New("verif: level-1 marker"), errors.New("verif: level-2 marker")}

// the error types a calling node puts around the error of the run it started
type wrapErr struct {
	Level int
	cause error
}

func (e *wrapErr) Error() string { return fmt.Sprintf("level %d run failed: %v", e.Level, e.cause) }
func (e *wrapErr) Unwrap() error { return e.cause }

type wrapVal struct {
	Level int
	cause error
}

func (e wrapVal) Error() string {
	return fmt.Sprintf("level %d run failed (value type): %v", e.Level, e.cause)
}
func (e wrapVal) Unwrap() error { return e.cause }

type multiErr struct {
	Level int
	errs  []error
}

func (e *multiErr) Error() string {
	return fmt.Sprintf("level %d run failed (several): %v", e.Level, e.errs)
}
func (e *multiErr) Unwrap() []error { return e.errs }

var wrapStyles = []string{"pointer-type", "value-type", "%w", "two-%w", "join-cause-first", "join-cause-last", "unwrap-slice-type", "three-layers"}

func wrapWith(style string, level int, err error) error {
	switch style {
	case "pointer-type":
		return &wrapErr{Level: level, cause: err}
	case "value-type":
		return wrapVal{Level: level, cause: err}
	case "%w":
		return fmt.Errorf("level %d: the run I started failed: %w", level, err)
	case "two-%w":
		return fmt.Errorf("level %d: %w: %w", level, errLevel[level], err)
	case "join-cause-first":
		return errors.Join(err, errLevel[level])
	case "join-cause-last":
		return errors.Join(errLevel[level], err)
	case "unwrap-slice-type":
		return &multiErr{Level: level, errs: []error{errLevel[level], err}}
	}
	return fmt.Errorf("level %d outer: %w", level, &wrapErr{Level: level, cause: fmt.Errorf("level %d inner: %w", level, err)})
}

type wlevel struct {
	G      *mgraph  `json:"graph"`
	Active string   `json:"calling_node"`
	Path   []string `json:"path"`
	Via    string   `json:"via"`  // lambda | tool-invokable | tool-streamable
	Call   string   `json:"call"` // the paradigm in which the node runs the inner runnable
	Wrap   string   `json:"wrap"`
	AsItem bool     `json:"as_item"` // the node hands its error on as an item of its own output stream
	ItemAt int      `json:"item_at"`
	Memo   bool     `json:"memo"` // the node keeps the error of its first failure and returns the same value again
	Fin    string   `json:"fin,omitempty"`
}

type wleaf struct {
	G            *mgraph  `json:"graph,omitempty"`
	Active       string   `json:"failing_node,omitempty"`
	Path         []string `json:"path"`
	Fail         string   `json:"fail"`
	CompileLimit int      `json:"compile_limit,omitempty"`
	CallLimit    int      `json:"call_limit,omitempty"`
	LoopNested   bool     `json:"loop_nested,omitempty"`
	Pos          int      `json:"pos,omitempty"`
}

type wspec struct {
	Levels []wlevel `json:"levels"`
	Leaf   wleaf    `json:"leaf"`
}

var leafFails = []string{"error-sentinel", "error-custom", "panic-string", "panic-error", "error-mid-stream", "panic-in-converter", "step-limit", "cancelled", "agent-tool-error", "agent-model-error"}

func (c *mctl) setOwn(level int, own, inner error) {
	c.mu.Lock()
	if c.own == nil {
		c.own, c.inner = map[int]error{}, map[int]error{}
	}
	c.own[level], c.inner[level] = own, inner
	c.mu.Unlock()
}

func (c *mctl) setCancel(level int, f context.CancelFunc) {
	c.mu.Lock()
	if c.cancels == nil {
		c.cancels = map[int]context.CancelFunc{}
	}
	c.cancels[level] = f
	c.mu.Unlock()
}

func (c *mctl) cancelInnermost() {
	c.mu.Lock()
	var f context.CancelFunc
	best := -1
	for l, cf := range c.cancels {
		if l > best {
			best, f = l, cf
		}
	}
	c.mu.Unlock()
	if f != nil {
		f()
	}
}

// innerRun: what a calling node runs - a compiled graph / chain / workflow in one of the four paradigms, or an agent.
type innerRun func(ctx context.Context, para, in string, opts []compose.Option) (string, error)

func readStr(sr *schema.StreamReader[string], err error) (string, error) {
	if err != nil {
		return "", err
	}
	defer sr.Close()
	var sb strings.Builder
	for {
		c, err := sr.Recv()
		if err == io.EOF {
			return sb.String(), nil
		}
		if err != nil {
			return "", err
		}
		sb.WriteString(c)
	}
}

// runnableInner runs r in the given paradigm and reads a stream result to its first error.
func runnableInner(r compose.Runnable[string, string]) innerRun {
	return func(ctx context.Context, para, in string, opts []compose.Option) (string, error) {
		switch para {
		case "I":
			return r.Invoke(ctx, in, opts...)
		case "S":
			return readStr(r.Stream(ctx, in, opts...))
		case "C":
			return r.Collect(ctx, schema.StreamReaderFromArray(split(in, 2)), opts...)
		}
		return readStr(r.Transform(ctx, schema.StreamReaderFromArray(split(in, 2)), opts...))
	}
}

// ---- an agent as the innermost run: its model asks for a tool that fails, or fails itself

type agentModel struct{ fail string }

func (m *agentModel) answer() (*schema.Message, error) {
	if m.fail == "agent-model-error" {
		return nil, fmt.Errorf("the model fails: %w", errLeaf)
	}
	return &schema.Message{Role: schema.Assistant, ToolCalls: []schema.ToolCall{{ID: "a1", Function: schema.FunctionCall{Name: "boom", Arguments: "{}"}}}}, nil
}

func (m *agentModel) Generate(_ context.Context, _ []*schema.Message, _ ...model.Option) (*schema.Message, error) {
	return m.answer()
}

func (m *agentModel) Stream(_ context.Context, _ []*schema.Message, _ ...model.Option) (*schema.StreamReader[*schema.Message], error) {
	msg, err := m.answer()
	if err != nil {
		return nil, err
	}
	return schema.StreamReaderFromArray([]*schema.Message{msg}), nil
}

func (m *agentModel) WithTools([]*schema.ToolInfo) (model.ToolCallingChatModel, error) { return m, nil }

type boomTool struct{}

func (boomTool) Info(context.Context) (*schema.ToolInfo, error) {
	return &schema.ToolInfo{Name: "boom", Desc: "fails"}, nil
}

func (boomTool) InvokableRun(context.Context, string, ...tool.Option) (string, error) {
	return "", fmt.Errorf("the agent's tool fails: %w", errLeaf)
}

func agentInner(ctx context.Context, fail string) (innerRun, error) {
	ag, err := react.NewAgent(ctx, &react.AgentConfig{ToolCallingModel: &agentModel{fail: fail}, ToolsConfig: compose.ToolsNodeConfig{Tools: []tool.BaseTool{boomTool{}}}})
	if err != nil {
		return nil, err
	}
	return func(ctx context.Context, para, in string, _ []compose.Option) (string, error) {
		msgs := []*schema.Message{schema.UserMessage(in)}
		if para == "I" || para == "C" {
			m, err := ag.Generate(ctx, msgs)
			if err != nil {
				return "", err
			}
			return m.Content, nil
		}
		sr, err := ag.Stream(ctx, msgs)
		if err != nil {
			return "", err
		}
		defer sr.Close()
		out := ""
		for {
			m, err := sr.Recv()
			if err == io.EOF {
				return out, nil
			}
			if err != nil {
				return "", err
			}
			out += m.Content
		}
	}, nil
}

// ---- tools that run a graph

type runTool struct {
	name string
	fn   activeFn
	node *mnode
}

func (t *runTool) Info(context.Context) (*schema.ToolInfo, error) {
	return &schema.ToolInfo{Name: t.name, Desc: t.name}, nil
}

type runToolInv struct{ runTool }

func (t *runToolInv) InvokableRun(ctx context.Context, args string, _ ...tool.Option) (string, error) {
	chunks, _, item, callErr := t.fn(ctx, t.node, args)
	if callErr != nil {
		return "", callErr
	}
	if item != nil {
		return "", item
	}
	return strings.Join(chunks, ""), nil
}

type runToolStr struct{ runTool }

func (t *runToolStr) StreamableRun(ctx context.Context, args string, _ ...tool.Option) (*schema.StreamReader[string], error) {
	chunks, errAt, item, callErr := t.fn(ctx, t.node, args)
	if callErr != nil {
		return nil, callErr
	}
	return itemsStream(chunks, errAt, item, false, 1), nil
}

func toolsGraph(ctx context.Context, lv *wlevel, n *mnode, fn activeFn) (compose.AnyGraph, error) {
	var bt tool.BaseTool
	if lv.Via == "tool-streamable" {
		bt = &runToolStr{runTool{name: "run", fn: fn, node: n}}
	} else {
		bt = &runToolInv{runTool{name: "run", fn: fn, node: n}}
	}
	tn, err := compose.NewToolNode(ctx, &compose.ToolsNodeConfig{Tools: []tool.BaseTool{bt}})
	if err != nil {
		return nil, err
	}
	g := compose.NewGraph[string, string]()
	_ = g.AddLambdaNode("mk", compose.InvokableLambda(func(_ context.Context, in string) (*schema.Message, error) {
		return &schema.Message{Role: schema.Assistant, ToolCalls: []schema.ToolCall{{ID: "c1", Function: schema.FunctionCall{Name: "run", Arguments: in}}}}, nil
	}))
	_ = g.AddToolsNode("tools", tn)
	text := func(ms []*schema.Message) string {
		s := ""
		for _, m := range ms {
			if m != nil {
				s += m.Content
			}
		}
		return s
	}
	if lv.Fin == "C" {
		_ = g.AddLambdaNode("fin", compose.CollectableLambda(func(_ context.Context, in *schema.StreamReader[[]*schema.Message]) (string, error) {
			return readAll(in, text)
		}))
	} else {
		_ = g.AddLambdaNode("fin", compose.InvokableLambda(func(_ context.Context, in []*schema.Message) (string, error) { return text(in), nil }))
	}
	_ = g.AddEdge(compose.START, "mk")
	_ = g.AddEdge("mk", "tools")
	_ = g.AddEdge("tools", "fin")
	if err := g.AddEdge("fin", compose.END); err != nil {
		return nil, err
	}
	return g, nil
}

// ---- generation

func genWrapSpec(r *mon.Rand, cfg mon.Config) *wspec {
	mg := &mgen{r: r}
	depth := 1 + r.Intn(3)
	sp := &wspec{}
	small := mgenOpts{MaxStages: 3, Wide: 0.25, Nest: 2, NestProb: 0.25}
	for i := 0; i < depth; i++ {
		g := mg.graph(small, 0)
		ns, paths := g.lambdas()
		// the calling node needs a string input: the first node of a graph always has one
		var cand []int
		for k, n := range ns {
			if n.InKey != "" || isFirstStageNode(g, n.Key) || singleBefore(g, n.Key) {
				cand = append(cand, k)
			}
		}
		k := cand[r.Intn(len(cand))]
		n := ns[k]
		lv := wlevel{G: g, Active: n.Key, Path: paths[k], Via: "lambda", Call: []string{"I", "S", "C", "T"}[r.Intn(4)], Wrap: wrapStyles[r.Intn(len(wrapStyles))], Memo: r.Prob(0.25)}
		n.Role = "caller"
		n.OnErr, n.Fwd = "", ""
		if r.Prob(0.3) {
			// the caller is a tool of a tools node: the lambda becomes a nested graph mk -> tools -> fin
			n.Kind = "X"
			lv.Via = []string{"tool-invokable", "tool-streamable"}[r.Intn(2)]
			lv.Path = append(lv.Path, "tools")
			lv.Fin = []string{"I", "C"}[r.Intn(2)]
			if lv.Via == "tool-streamable" && r.Bool() {
				lv.AsItem, lv.ItemAt = true, r.Intn(3)
			}
		} else if (n.Kind == "S" || n.Kind == "T") && r.Bool() {
			lv.AsItem, lv.ItemAt = true, r.Intn(3)
		}
		sp.Levels = append(sp.Levels, lv)
	}
	lf := wleaf{Fail: leafFails[r.Intn(len(leafFails))]}
	switch lf.Fail {
	case "step-limit":
		if r.Bool() {
			lf.CompileLimit = 1 + r.Intn(5)
		}
		lf.LoopNested = r.Bool()
		if !lf.LoopNested && (lf.CompileLimit == 0 || r.Bool()) {
			lf.CallLimit = 1 + r.Intn(5)
		}
		if lf.LoopNested {
			lf.Path = []string{"lg"}
		}
	case "agent-tool-error":
		lf.Path = []string{"tools"}
	case "agent-model-error":
		lf.Path = []string{"chat"}
	case "cancelled":
		g := mg.graph(mgenOpts{MaxStages: 2, Wide: 0.25, Nest: 1, NestProb: 0.2}, 0)
		cn := mnode{Key: mg.key("c"), Kind: "I", Role: "canceller"}
		g.Stages = append([][]mnode{{cn}}, g.Stages...)
		if g.BranchAfter != nil {
			nb := map[int]string{}
			for k, v := range g.BranchAfter {
				nb[k+1] = v
			}
			g.BranchAfter = nb
		}
		lf.G, lf.Active = g, cn.Key
	default:
		g := mg.graph(small, 0)
		ns, paths := g.lambdas()
		k := r.Intn(len(ns))
		n := ns[k]
		lf.G, lf.Active, lf.Path = g, n.Key, paths[k]
		switch lf.Fail {
		case "error-mid-stream", "panic-in-converter":
			n.Role = "victim"
			if n.Kind == "I" || n.Kind == "C" {
				n.Kind = []string{"S", "T"}[r.Intn(2)]
				n.OnErr = ""
			}
			if n.Kind == "S" && n.Chunks == 0 {
				n.Chunks = 1 + r.Intn(3)
			}
			if n.Kind == "T" && n.Fwd == "" {
				n.Fwd = []string{"convert", "pipe"}[r.Intn(2)]
			}
			lf.Pos = r.Intn(3)
		default:
			n.Role = "leaf"
			n.OnErr, n.Fwd = "", ""
		}
	}
	sp.Leaf = lf
	return sp
}

func isFirstStageNode(g *mgraph, key string) bool {
	found := false
	g.walk(func(n *mnode, _ []string, owner *mgraph) {
		if n.Key == key {
			for _, f := range owner.Stages[0] {
				if f.Key == key {
					found = true
				}
			}
		}
	}, nil)
	return found
}

// singleBefore: the stage before the node's stage has one node (the node's input is a plain string)
func singleBefore(g *mgraph, key string) bool {
	found := false
	g.walk(func(n *mnode, _ []string, owner *mgraph) {
		if n.Key != key {
			return
		}
		for si := 1; si < len(owner.Stages); si++ {
			for _, x := range owner.Stages[si] {
				if x.Key == key && len(owner.Stages[si-1]) == 1 {
					found = true
				}
			}
		}
	}, nil)
	return found
}

// ---- build: innermost first

func buildLoop(ctx context.Context, lf *wleaf) (compose.Runnable[string, string], error) {
	pass := func(tag string) *compose.Lambda {
		return compose.InvokableLambda(func(_ context.Context, in string) (string, error) { return short(in) + tag, nil })
	}
	loop := compose.NewGraph[string, string]()
	_ = loop.AddLambdaNode("a", pass("a"))
	_ = loop.AddLambdaNode("b", pass("b"))
	_ = loop.AddEdge(compose.START, "a")
	_ = loop.AddEdge("a", "b")
	if err := loop.AddBranch("b", compose.NewGraphBranch(func(context.Context, string) (string, error) { return "a", nil }, map[string]bool{"a": true, compose.END: true})); err != nil {
		return nil, err
	}
	var copts []compose.GraphCompileOption
	if lf.CompileLimit > 0 {
		copts = append(copts, compose.WithMaxRunSteps(lf.CompileLimit))
	}
	if !lf.LoopNested {
		return loop.Compile(ctx, copts...)
	}
	outer := compose.NewGraph[string, string]()
	_ = outer.AddLambdaNode("pre", pass("p"))
	_ = outer.AddGraphNode("lg", loop, compose.WithGraphCompileOptions(copts...))
	_ = outer.AddEdge(compose.START, "pre")
	_ = outer.AddEdge("pre", "lg")
	_ = outer.AddEdge("lg", compose.END)
	return outer.Compile(ctx)
}

type wbuilt struct {
	top  compose.Runnable[string, string]
	memo []*sync.Map

	mu      sync.Mutex
	lastOwn map[int][2]error // what each level returned / saw the last time it ran
}

func (b *wbuilt) record(c *mctl, level int, own, inner error) {
	c.setOwn(level, own, inner)
	b.mu.Lock()
	b.lastOwn[level] = [2]error{own, inner}
	b.mu.Unlock()
}

// replay: a node that returns a remembered error does not run the levels below it again; what they returned
// when that error was made is still inside it
func (b *wbuilt) replay(c *mctl, below int, levels int) {
	b.mu.Lock()
	defer b.mu.Unlock()
	for l := below + 1; l < levels; l++ {
		if p, ok := b.lastOwn[l]; ok {
			c.setOwn(l, p[0], p[1])
		}
	}
}

func buildWrap(ctx context.Context, sp *wspec) (*wbuilt, error) {
	var inner innerRun
	var compiled compose.Runnable[string, string]
	var err error
	lf := &sp.Leaf
	switch lf.Fail {
	case "step-limit":
		if compiled, err = buildLoop(ctx, lf); err == nil {
			inner = runnableInner(compiled)
		}
	case "agent-tool-error", "agent-model-error":
		inner, err = agentInner(ctx, lf.Fail)
	default:
		env := &menv{active: map[string]activeFn{}}
		switch lf.Fail {
		case "cancelled":
			env.active[lf.Active] = func(ctx context.Context, n *mnode, in string) ([]string, int, error, error) {
				ctlOf(ctx).cancelInnermost()
				return []string{short(in) + "!"}, -1, nil, nil
			}
		case "error-sentinel", "error-custom", "panic-string", "panic-error":
			fail := lf.Fail
			env.active[lf.Active] = func(ctx context.Context, n *mnode, in string) ([]string, int, error, error) {
				switch fail {
				case "error-sentinel":
					return nil, -1, nil, fmt.Errorf("node %s: %w", n.Key, errLeaf)
				case "error-custom":
					return nil, -1, nil, &leafErr{Code: len(n.Key) + 40}
				case "panic-string":
					panic("verif-leaf-panic@" + n.Key)
				}
				panic(fmt.Errorf("verif-leaf-panic-error@%s", n.Key))
			}
		}
		if compiled, err = compileM(ctx, lf.G, env); err == nil {
			inner = runnableInner(compiled)
		}
	}
	if err != nil {
		return nil, fmt.Errorf("innermost graph: %w", err)
	}
	b := &wbuilt{memo: make([]*sync.Map, len(sp.Levels)), lastOwn: map[int][2]error{}}
	nLevels := len(sp.Levels)
	for i := len(sp.Levels) - 1; i >= 0; i-- {
		lv := &sp.Levels[i]
		level, run := i, inner
		memo := &sync.Map{}
		b.memo[i] = memo
		last := i == len(sp.Levels)-1
		var callOpts []compose.Option
		if last && lf.CallLimit > 0 {
			callOpts = append(callOpts, compose.WithRuntimeMaxSteps(lf.CallLimit))
		}
		fn := func(ctx context.Context, n *mnode, in string) ([]string, int, error, error) {
			c := ctlOf(ctx)
			own, remembered := error(nil), false
			if lv.Memo {
				if v, ok := memo.Load("own"); ok {
					own, remembered = v.(error), true
					inn, _ := memo.Load("inner")
					c.setOwn(level, own, inn.(error))
					b.replay(c, level, nLevels)
				}
			}
			if !remembered {
				cctx := ctx
				if last && lf.Fail == "cancelled" {
					var cancel context.CancelFunc
					cctx, cancel = context.WithCancel(ctx)
					defer cancel()
					c.setCancel(level, cancel)
				}
				out, err := run(cctx, lv.Call, in, callOpts)
				if err == nil {
					return split(n.Key+"("+short(out)+")", 2), -1, nil, nil
				}
				own = wrapWith(lv.Wrap, level, err)
				b.record(c, level, own, err)
				if lv.Memo {
					memo.Store("inner", err)
					memo.Store("own", own)
				}
			}
			if lv.AsItem {
				return split(n.Key+"(partial)", 2), lv.ItemAt, own, nil
			}
			return nil, -1, nil, own
		}
		env := &menv{active: map[string]activeFn{}, tools: map[string]func() (compose.AnyGraph, error){}}
		var node *mnode
		lv.G.walk(func(n *mnode, _ []string, _ *mgraph) {
			if n.Key == lv.Active {
				node = n
			}
		}, nil)
		if lv.Via == "lambda" {
			env.active[lv.Active] = fn
		} else {
			env.tools[lv.Active] = func() (compose.AnyGraph, error) { return toolsGraph(ctx, lv, node, fn) }
		}
		compiled, err = compileM(ctx, lv.G, env)
		if err != nil {
			return nil, fmt.Errorf("level %d graph: %w", i, err)
		}
		inner = runnableInner(compiled)
	}
	b.top = compiled
	return b, nil
}

// ---- the case

func wrapCase(ctx context.Context, rep *mon.Reporter, rng *mon.Rand, cfg mon.Config) {
	sp := genWrapSpec(rng, cfg)
	b, err := buildWrap(ctx, sp)
	if err != nil {
		rep.Violation(ID+"/build-error/nested-run", err.Error(), sp)
		return
	}
	var want []string
	graphNodes := map[string]bool{}
	var shapes []string
	for i := range sp.Levels {
		want = append(want, sp.Levels[i].Path...)
		sp.Levels[i].G.walk(func(n *mnode, _ []string, _ *mgraph) {
			if n.Kind == "G" || n.Kind == "X" {
				graphNodes[n.Key] = true
			}
		}, nil)
		shapes = append(shapes, sp.Levels[i].G.shape()+"/"+sp.Levels[i].Via+"/"+sp.Levels[i].Call+"/"+sp.Levels[i].Wrap)
	}
	want = append(want, sp.Leaf.Path...)
	if sp.Leaf.G != nil {
		shapes = append(shapes, sp.Leaf.G.shape())
	}
	shapes = append(shapes, sp.Leaf.Fail)
	rep.Distinct("nested_run_shapes", strings.Join(shapes, " -> "))
	in := rng.Str(2, 6)
	inChunks := 1 + rng.Intn(3)
	for _, para := range []string{"I", "S", "C", "T"} {
		c := &mctl{Fault: "mid-error", Pos: sp.Leaf.Pos, ErrKind: "sentinel", PanicKind: "string", Delivery: 1}
		if sp.Leaf.Fail == "panic-in-converter" {
			c.Fault = "conv-panic"
		}
		o := runM(withMctl(ctx, c), b.top, para, in, inChunks)
		judgeWrap(rep, sp, want, graphNodes, c, para, in, o, strings.Join(shapes, " -> "))
	}
}

func judgeWrap(rep *mon.Reporter, sp *wspec, want []string, graphNodes map[string]bool, c *mctl, para, in string, o mout, shape string) {
	rep.AddEvaluations(1)
	rep.Count("nested_run_runs", 1)
	rep.Count("nested_run_innermost_"+strings.ReplaceAll(sp.Leaf.Fail, "-", "_"), 1)
	fam := ID + "/nested-run"
	wit := map[string]any{"spec": sp, "paradigm": para, "input": in}
	ctxt := fmt.Sprintf("%s\nparadigm %s; the run error has to name [%s]", shape, para, strings.Join(want, ", "))
	if o.Wait == mon.Stuck {
		where, detail := stuckSig(o.Dump)
		rep.Violation(fam+"/hang/"+where, "the run can never finish\n"+ctxt+"\n"+detail, wit)
		return
	}
	if o.Wait != mon.Finished {
		rep.Inconclusive("watchdog fired while goroutines were active")
		return
	}
	if o.Panic != nil {
		rep.Violation(fam+"/panic-on-the-caller", "a failure inside the nested runs panicked on the goroutine of the caller: "+o.Panic.Value+"\n"+ctxt+"\n"+o.Panic.Stack, wit)
		return
	}
	if _, escaped := c.snapshot(); len(escaped) > 0 {
		rep.Violation(fam+"/panic-in-a-goroutine-reading-the-stream", "the failure was raised as a panic inside Recv on a goroutine that a healthy node started to forward its input\n"+ctxt+"\n"+escaped[0], wit)
		return
	}
	if o.Err == nil {
		rep.Violation(fam+"/failure-swallowed", fmt.Sprintf("the run succeeded with %q although the innermost run fails (%s)\n%s", o.Out, sp.Leaf.Fail, ctxt), wit)
		return
	}
	msg := o.Err.Error()
	c.mu.Lock()
	own := map[int]error{}
	for k, v := range c.own {
		own[k] = v
	}
	c.mu.Unlock()
	// ---- every calling node's own error is in the chain
	for i := range sp.Levels {
		lv := &sp.Levels[i]
		e := own[i]
		if e == nil {
			rep.Violation(fam+"/inner-failure-not-returned-as-an-error", fmt.Sprintf("the calling node of level %d never got an error from the run it started (innermost failure: %s), yet the outer run failed with:\n%s\n%s", i, sp.Leaf.Fail, msg, ctxt), wit)
			return
		}
		how := strings.SplitN(lv.Via, "-", 2)[0] + "-returns-it"
		if lv.AsItem {
			how = strings.SplitN(lv.Via, "-", 2)[0] + "-streams-it"
		}
		if !errors.Is(o.Err, e) {
			rep.Violation(fam+"/node-error-dropped/"+how, fmt.Sprintf("the error value that the calling node of level %d (%v) returned around the error of the run it started is not in the chain of the run error (wrapping style %s):\n%s\n%s", i, lv.Path, lv.Wrap, msg, ctxt), wit)
			return
		}
		switch lv.Wrap {
		case "two-%w", "join-cause-first", "join-cause-last", "unwrap-slice-type":
			if !errors.Is(o.Err, errLevel[i]) {
				rep.Violation(fam+"/node-error-dropped/"+how, fmt.Sprintf("errors.Is(err, marker of level %d) is false (wrapping style %s):\n%s\n%s", i, lv.Wrap, msg, ctxt), wit)
				return
			}
		}
	}
	// errors.As reaches the outermost error of each wrapper type
	seenPtr, seenVal, seenMulti := false, false, false
	for i := range sp.Levels {
		bad := ""
		switch sp.Levels[i].Wrap {
		case "pointer-type", "three-layers":
			var w *wrapErr
			if !seenPtr && (!errors.As(o.Err, &w) || w.Level != i) {
				bad = "*wrapErr"
			}
			seenPtr = true
		case "value-type":
			var w wrapVal
			if !seenVal && (!errors.As(o.Err, &w) || w.Level != i) {
				bad = "wrapVal"
			}
			seenVal = true
		case "unwrap-slice-type":
			var w *multiErr
			if !seenMulti && (!errors.As(o.Err, &w) || w.Level != i) {
				bad = "*multiErr"
			}
			seenMulti = true
		}
		if bad != "" {
			rep.Violation(fam+"/node-error-dropped/errors.As", fmt.Sprintf("errors.As(err, %s) does not find the error of the calling node of level %d:\n%s\n%s", bad, i, msg, ctxt), wit)
			return
		}
	}
	rep.Count("nested_run_own_errors_reached", int64(len(sp.Levels)))
	// ---- the innermost cause
	lost := false
	switch sp.Leaf.Fail {
	case "error-sentinel", "agent-tool-error", "agent-model-error":
		lost = !errors.Is(o.Err, errLeaf)
	case "error-custom":
		var le *leafErr
		lost = !errors.As(o.Err, &le) || le.Code < 40
	case "error-mid-stream":
		lost = !errors.Is(o.Err, errMid)
	case "step-limit":
		lost = !errors.Is(o.Err, compose.ErrExceedMaxSteps)
	case "cancelled":
		lost = !errors.Is(o.Err, context.Canceled)
	}
	if lost {
		rep.Violation(fam+"/original-error-lost/"+sp.Leaf.Fail, "the cause of the innermost run's failure cannot be matched with errors.Is / errors.As on the run error:\n"+msg+"\n"+ctxt, wit)
		return
	}
	rep.Count("nested_run_causes_reached", 1)
	// ---- the path: from the outermost calling node to the innermost failing node
	if class, got := judgePath(o.Err, want, func(k string) bool { return graphNodes[k] }); class != "" {
		streamed := sp.Leaf.Fail == "error-mid-stream" || sp.Leaf.Fail == "panic-in-converter"
		for i := range sp.Levels {
			streamed = streamed || sp.Levels[i].AsItem
		}
		sig := fam + "/node-path/" + class
		if streamed {
			// an error item read by another node: the class of behaviour of the stream-error-item workload
			sig = ID + "/stream-error-item/node-path/" + class
		}
		rep.Violation(sig, fmt.Sprintf("the run error does not name the path of the failing node [%s] (found: [%s])\n%s\n%s", strings.Join(want, ", "), got, msg, ctxt), wit)
		return
	}
	rep.Count("node_paths_checked", 1)
	rep.Count("nested_run_paths_checked", 1)
	rep.NonTrivial("nested-run|" + shape + "|" + para)
}
