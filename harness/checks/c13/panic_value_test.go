package c13

// Panic VALUES. "A panic inside a node body, a tool call ... surfaces as an error of the run ...: it never kills
// the process, hangs the run, or is swallowed", and "when a node fails, the run returns an error that names the
// failing node path". What the body panics WITH must not matter: code panics with strings, with runtime errors,
// and - the usual `if err != nil { panic(err) }` of a must-helper - with whatever error it was handed: one that
// wraps io.EOF or context.Canceled, one that wraps compose.InterruptAndRerun, the interrupt error of a run of
// its own (a Lambda / tool that runs another compiled graph, which interrupts, and treats that as fatal). The
// engine classifies the errors of its nodes with errors.Is / errors.As (interrupts pass through unwrapped, are
// checkpointed, are reported by compose.ExtractInterruptInfo): a panic must never be classified that way.
//
// Family: a graph of 0-3 nested levels (each level DAG or Pregel trigger mode, optional healthy nodes before /
// after / beside the nested graph); in the innermost graph the panicking site is a single Lambda (I/S/C/T), one
// (or two) of 2-4 parallel Lambdas, or one (or two) of 1-4 calls of a tools node (invokable / streamable tools;
// call 0 runs on the node's goroutine, the others on goroutines of the tools node); the run has no checkpoint
// store, a store and a checkpoint id, or a store without id; paradigms Invoke, Stream and Collect or Transform.
// Oracle (public API): the call ends (quiescence monitor), does not panic on the caller, returns an error;
// compose.ExtractInterruptInfo does not report an interrupt; nothing was written to the run's checkpoint store;
// the error names the full path of (one of) the panicking node(s); the error tells that something panicked.

import (
	"context"
	"errors"
	"fmt"
	"io"
	"sort"
	"strings"
	"sync"
	"sync/atomic"

	"github.com/cloudwego/eino/components/tool"
	"github.com/cloudwego/eino/compose"
	"github.com/cloudwego/eino/schema"

	"verifharness/internal/mon"
)

// ---------------------------------------------------------------- store

type pvStore struct {
	mu   sync.Mutex
	m    map[string][]byte
	sets []string
}

func newPvStore() *pvStore { return &pvStore{m: map[string][]byte{}} }

func (s *pvStore) Get(_ context.Context, id string) ([]byte, bool, error) {
	s.mu.Lock()
	defer s.mu.Unlock()
	v, ok := s.m[id]
	return v, ok, nil
}

func (s *pvStore) Set(_ context.Context, id string, cp []byte) error {
	s.mu.Lock()
	defer s.mu.Unlock()
	s.m[id] = cp
	s.sets = append(s.sets, id)
	return nil
}

func (s *pvStore) written() []string {
	s.mu.Lock()
	defer s.mu.Unlock()
	return append([]string(nil), s.sets...)
}

// ---------------------------------------------------------------- panic values

type pvErr struct{ Code int }

func (e *pvErr) Error() string { return fmt.Sprintf("verif: application failure %d", e.Code) }

// an application error type with a cause
type pvCause struct {
	What  string
	cause error
}

func (e *pvCause) Error() string { return e.What + ": " + e.cause.Error() }
func (e *pvCause) Unwrap() error { return e.cause }

// pvValue: one way of panicking. blow never returns.
type pvValue struct {
	Name   string
	Family string // "other" | "interrupt" (the value is an error whose chain holds an error of the interrupt family)
	blow   func(ctx context.Context, c *pvCtl)
}

var pvPlain = errors.New("verif: plain application failure")

// the values that need nothing but themselves
func pvSimpleValues() []*pvValue {
	val := func(name, fam string, v func() any) *pvValue {
		return &pvValue{Name: name, Family: fam, blow: func(context.Context, *pvCtl) { panic(v()) }}
	}
	return []*pvValue{
		val("string", "other", func() any { return "verif-boom" }),
		val("int", "other", func() any { return 4711 }),
		val("plain-error", "other", func() any { return pvPlain }),
		val("custom-error-type", "other", func() any { return &pvErr{Code: 7} }),
		val("io.EOF", "other", func() any { return io.EOF }),
		val("error-wrapping-io.EOF", "other", func() any { return fmt.Errorf("read of the reply gave up: %w", io.EOF) }),
		val("error-wrapping-context.Canceled", "other", func() any { return fmt.Errorf("lookup gave up: %w", context.Canceled) }),
		val("error-wrapping-ErrExceedMaxSteps", "other", func() any { return fmt.Errorf("helper gave up: %w", compose.ErrExceedMaxSteps) }),
		{Name: "nil-dereference", Family: "other", blow: func(context.Context, *pvCtl) {
			var p *pvErr
			_ = p.Code
		}},
		{Name: "index-out-of-range", Family: "other", blow: func(_ context.Context, c *pvCtl) {
			var xs []int
			_ = xs[len(c.Victims)+2]
		}},
		val("InterruptAndRerun", "interrupt", func() any { return compose.InterruptAndRerun }),
		val("error-wrapping-InterruptAndRerun", "interrupt", func() any { return fmt.Errorf("backend asked to come back later: %w", compose.InterruptAndRerun) }),
		val("error-type-with-cause-InterruptAndRerun", "interrupt", func() any { return &pvCause{What: "lookup", cause: compose.InterruptAndRerun} }),
		val("errors.Join-with-InterruptAndRerun", "interrupt", func() any { return errors.Join(pvPlain, compose.InterruptAndRerun) }),
		val("two-layers-around-InterruptAndRerun", "interrupt", func() any {
			return fmt.Errorf("outer: %w", &pvCause{What: "inner", cause: compose.InterruptAndRerun})
		}),
	}
}

// pvInner: a tiny graph of its own that interrupts when run.
type pvInner struct {
	Variant string // before | after | rerun | in-subgraph
	WithID  bool   // run with a store and a fresh checkpoint id (a top-level run wherever it is started)
	r       compose.Runnable[string, string]
	n       atomic.Int64 // a tool call of an earlier run may still be running when the next run starts
}

func pvBuildInner(ctx context.Context, variant string, withID bool) (*pvInner, error) {
	step := compose.InvokableLambda(func(_ context.Context, in string) (string, error) { return in + "!", nil })
	rerun := compose.InvokableLambda(func(_ context.Context, in string) (string, error) { return "", compose.InterruptAndRerun })
	g := compose.NewGraph[string, string]()
	var errs []error
	var opts []compose.GraphCompileOption
	switch variant {
	case "before":
		errs = append(errs, g.AddLambdaNode("step", step), g.AddEdge(compose.START, "step"), g.AddEdge("step", compose.END))
		opts = append(opts, compose.WithInterruptBeforeNodes([]string{"step"}))
	case "after":
		errs = append(errs, g.AddLambdaNode("step", step), g.AddLambdaNode("next", step),
			g.AddEdge(compose.START, "step"), g.AddEdge("step", "next"), g.AddEdge("next", compose.END))
		opts = append(opts, compose.WithInterruptAfterNodes([]string{"step"}))
	case "rerun":
		errs = append(errs, g.AddLambdaNode("step", rerun), g.AddEdge(compose.START, "step"), g.AddEdge("step", compose.END))
	default: // in-subgraph
		sub := compose.NewGraph[string, string]()
		errs = append(errs, sub.AddLambdaNode("step", step), sub.AddEdge(compose.START, "step"), sub.AddEdge("step", compose.END))
		errs = append(errs, g.AddGraphNode("sub", sub, compose.WithGraphCompileOptions(compose.WithInterruptBeforeNodes([]string{"step"}))),
			g.AddEdge(compose.START, "sub"), g.AddEdge("sub", compose.END))
	}
	if err := errors.Join(errs...); err != nil {
		return nil, err
	}
	if withID {
		opts = append(opts, compose.WithCheckPointStore(newPvStore()))
	}
	r, err := g.Compile(ctx, opts...)
	if err != nil {
		return nil, err
	}
	return &pvInner{Variant: variant, WithID: withID, r: r}, nil
}

// run: the error of one (fresh) run of the tiny graph.
func (in *pvInner) run(ctx context.Context) error {
	var opts []compose.Option
	if in.WithID {
		opts = append(opts, compose.WithCheckPointID(fmt.Sprintf("inner-%d", in.n.Add(1)))) // a fresh id: the run starts from START
	}
	_, err := in.r.Invoke(ctx, "x", opts...)
	return err
}

// pvNestedValue: the body runs a graph of its own, which interrupts, and panics with that run's error:
// live (inside the body, on the body's context) or with an error it was handed from an earlier run; as it is
// or below an error of its own.
func pvNestedValue(ctx context.Context, r *mon.Rand) (*pvValue, error) {
	variant := mon.PickOne(r, []string{"before", "after", "rerun", "in-subgraph"})
	withID := r.Prob(0.7)
	live := r.Prob(0.65)
	wrapped := r.Prob(0.35)
	in, err := pvBuildInner(ctx, variant, withID)
	if err != nil {
		return nil, err
	}
	name := "error-of-a-nested-run/interrupt-" + variant
	if !withID {
		name += "/without-checkpoint-id"
	}
	if live {
		name += "/run-in-the-body"
	} else {
		name += "/handed-in"
	}
	if wrapped {
		name += "/wrapped"
	}
	var held error
	if !live {
		held = in.run(ctx)
		if held == nil {
			return nil, fmt.Errorf("the tiny graph (%s) did not interrupt", variant)
		}
	}
	return &pvValue{Name: name, Family: "interrupt", blow: func(bctx context.Context, c *pvCtl) {
		err := held
		if live {
			err = in.run(bctx)
		}
		c.noteNested(err)
		if err == nil {
			panic("verif: the nested run did not fail")
		}
		if wrapped {
			err = fmt.Errorf("the nested run failed: %w", err)
		}
		panic(err) // if err != nil { panic(err) }
	}}, nil
}

// ---------------------------------------------------------------- control block of one run

type pvKey struct{}

type pvCtl struct {
	Victims map[string]*pvValue // role -> how it panics
	mu      sync.Mutex
	blown   map[string]int
	nested  []string // types of the errors nested runs returned
}

func (c *pvCtl) noteNested(err error) {
	c.mu.Lock()
	defer c.mu.Unlock()
	c.nested = append(c.nested, fmt.Sprintf("%T", err))
}

// pvBlow panics if the run told this role to.
func pvBlow(ctx context.Context, role string) {
	c, _ := ctx.Value(pvKey{}).(*pvCtl)
	if c == nil {
		return
	}
	v := c.Victims[role]
	if v == nil {
		return
	}
	c.mu.Lock()
	c.blown[role]++
	c.mu.Unlock()
	v.blow(ctx, c)
	panic("verif: unreachable") // blow always panics
}

// ---------------------------------------------------------------- shapes

type pvLevel struct {
	DAG  bool
	Pre  bool
	Post bool
	Side bool // a healthy Lambda beside the nested graph (only on levels that hold a nested graph)
}

type pvShape struct {
	Levels   []pvLevel // Levels[0] is the top-level graph; the site is in the last one
	Site     string    // node | parallel-node | tool-call
	Kind     string    // I S C T: the panicking Lambda(s)
	Parallel int       // number of parallel Lambdas
	Tools    []string  // inv | str
	Calls    []int     // tool index of every call
	Roles    []string  // role of every parallel Lambda / tool call: "" healthy, "victim", "victim2"
	Store    string    // none | store+id | store-without-id
}

func (s *pvShape) String() string {
	var b strings.Builder
	for i, l := range s.Levels {
		if i > 0 {
			b.WriteString(">")
		}
		b.WriteString(map[bool]string{true: "dag", false: "pregel"}[l.DAG])
		if l.Pre {
			b.WriteString("+pre")
		}
		if l.Side {
			b.WriteString("+side")
		}
		if l.Post {
			b.WriteString("+post")
		}
	}
	fmt.Fprintf(&b, " %s", s.Site)
	switch s.Site {
	case "node":
		b.WriteString(":" + s.Kind)
	case "parallel-node":
		fmt.Fprintf(&b, ":%s%v", s.Kind, s.Roles)
	default:
		fmt.Fprintf(&b, ":%v%v%v", s.Tools, s.Calls, s.Roles)
	}
	return b.String() + " " + s.Store
}

func pvGenShape(r *mon.Rand) *pvShape {
	s := &pvShape{}
	depth := []int{0, 0, 1, 1, 2, 3}[r.Intn(6)]
	for i := 0; i <= depth; i++ {
		s.Levels = append(s.Levels, pvLevel{DAG: r.Bool(), Pre: r.Prob(0.4), Post: r.Prob(0.4), Side: i < depth && r.Prob(0.3)})
	}
	s.Site = mon.PickOne(r, []string{"node", "parallel-node", "tool-call"})
	s.Kind = mon.PickOne(r, []string{"I", "I", "S", "C", "T"})
	n := 1
	switch s.Site {
	case "parallel-node":
		s.Parallel = 2 + r.Intn(3)
		n = s.Parallel
	case "tool-call":
		for i, nt := 0, 1+r.Intn(3); i < nt; i++ {
			s.Tools = append(s.Tools, mon.PickOne(r, []string{"inv", "str"}))
		}
		n = 1 + r.Intn(4)
		for i := 0; i < n; i++ {
			s.Calls = append(s.Calls, r.Intn(len(s.Tools)))
		}
	}
	s.Roles = make([]string, n)
	v1 := r.Intn(n)
	s.Roles[v1] = "victim"
	if n > 1 && r.Prob(0.25) {
		if v2 := r.Intn(n); v2 != v1 {
			s.Roles[v2] = "victim2"
		}
	}
	s.Store = mon.PickOne(r, []string{"none", "store+id", "store+id", "store-without-id"})
	return s
}

// a tool that panics when the run tells the role named by its arguments to
type pvTool struct{ name string }

func (t *pvTool) Info(context.Context) (*schema.ToolInfo, error) {
	return &schema.ToolInfo{Name: t.name, Desc: t.name}, nil
}

type pvInvTool struct{ pvTool }

func (t *pvInvTool) InvokableRun(ctx context.Context, args string, _ ...tool.Option) (string, error) {
	pvBlow(ctx, args)
	return t.name + "(" + args + ")", nil
}

type pvStrTool struct{ pvTool }

func (t *pvStrTool) StreamableRun(ctx context.Context, args string, _ ...tool.Option) (*schema.StreamReader[string], error) {
	pvBlow(ctx, args)
	return schema.StreamReaderFromArray([]string{t.name, "(" + args + ")"}), nil
}

func pvPass(tag string) *compose.Lambda {
	return compose.InvokableLambda(func(_ context.Context, in string) (string, error) { return in + tag, nil })
}

func pvJoin() *compose.Lambda {
	return compose.InvokableLambda(func(_ context.Context, m map[string]any) (string, error) {
		ks := make([]string, 0, len(m))
		for k := range m {
			ks = append(ks, k)
		}
		sort.Strings(ks)
		out := ""
		for _, k := range ks {
			out += fmt.Sprint(k, "=", m[k], ";")
		}
		return out, nil
	})
}

// pvLambda: a Lambda of the given kind that panics (before producing anything) when it is told to.
func pvLambda(kind, role string) *compose.Lambda {
	switch kind {
	case "S":
		return compose.StreamableLambda(func(ctx context.Context, in string) (*schema.StreamReader[string], error) {
			pvBlow(ctx, role)
			return schema.StreamReaderFromArray([]string{in, "~"}), nil
		})
	case "C":
		return compose.CollectableLambda(func(ctx context.Context, sr *schema.StreamReader[string]) (string, error) {
			in, err := readAll(sr, strOfString)
			if err != nil {
				return "", err
			}
			pvBlow(ctx, role)
			return in + "~", nil
		})
	case "T":
		return compose.TransformableLambda(func(ctx context.Context, sr *schema.StreamReader[string]) (*schema.StreamReader[string], error) {
			if c, _ := ctx.Value(pvKey{}).(*pvCtl); c != nil && c.Victims[role] != nil {
				sr.Close()
			}
			pvBlow(ctx, role)
			return sr, nil
		})
	}
	return compose.InvokableLambda(func(ctx context.Context, in string) (string, error) {
		pvBlow(ctx, role)
		return in + "~", nil
	})
}

// pvBuild builds level i of the shape; paths receives role -> full node path.
func pvBuild(ctx context.Context, s *pvShape, i int, prefix []string, paths map[string][]string) (*compose.Graph[string, string], error) {
	l := s.Levels[i]
	g := compose.NewGraph[string, string]()
	var errs []error
	prev := compose.START
	add := func(key string, lam *compose.Lambda, opts ...compose.GraphAddNodeOpt) {
		errs = append(errs, g.AddLambdaNode(key, lam, opts...), g.AddEdge(prev, key))
		prev = key
	}
	pathTo := func(key string) []string { return append(append([]string(nil), prefix...), key) }
	if l.Pre {
		add(fmt.Sprintf("pre%d", i), pvPass("<"))
	}
	switch {
	case i < len(s.Levels)-1:
		key := fmt.Sprintf("g%d", i+1)
		sub, err := pvBuild(ctx, s, i+1, pathTo(key), paths)
		if err != nil {
			return nil, err
		}
		var copts []compose.GraphCompileOption
		if s.Levels[i+1].DAG {
			copts = append(copts, compose.WithNodeTriggerMode(compose.AllPredecessor))
		}
		if !l.Side {
			errs = append(errs, g.AddGraphNode(key, sub, compose.WithGraphCompileOptions(copts...)), g.AddEdge(prev, key))
			prev = key
			break
		}
		side, join := fmt.Sprintf("side%d", i), fmt.Sprintf("join%d", i)
		errs = append(errs,
			g.AddGraphNode(key, sub, compose.WithGraphCompileOptions(copts...), compose.WithOutputKey(key)),
			g.AddLambdaNode(side, pvPass("|"), compose.WithOutputKey(side)),
			g.AddLambdaNode(join, pvJoin()),
			g.AddEdge(prev, key), g.AddEdge(prev, side), g.AddEdge(key, join), g.AddEdge(side, join))
		prev = join
	case s.Site == "node":
		add("work", pvLambda(s.Kind, "victim"))
		paths["victim"] = pathTo("work")
	case s.Site == "parallel-node":
		join := "join"
		errs = append(errs, g.AddLambdaNode(join, pvJoin()))
		for j, role := range s.Roles {
			key := fmt.Sprintf("p%d", j)
			kind := "I"
			if role != "" {
				kind = s.Kind
				paths[role] = pathTo(key)
			}
			errs = append(errs, g.AddLambdaNode(key, pvLambda(kind, role), compose.WithOutputKey(key)), g.AddEdge(prev, key), g.AddEdge(key, join))
		}
		prev = join
	default: // tool-call
		var tools []tool.BaseTool
		for j, k := range s.Tools {
			t := pvTool{name: fmt.Sprintf("t%d", j)}
			if k == "inv" {
				tools = append(tools, &pvInvTool{t})
			} else {
				tools = append(tools, &pvStrTool{t})
			}
		}
		tn, err := compose.NewToolNode(ctx, &compose.ToolsNodeConfig{Tools: tools})
		if err != nil {
			return nil, err
		}
		calls, roles := s.Calls, s.Roles
		add("ask", compose.InvokableLambda(func(_ context.Context, in string) (*schema.Message, error) {
			msg := &schema.Message{Role: schema.Assistant, Content: in}
			for j, t := range calls {
				arg := roles[j]
				if arg == "" {
					arg = fmt.Sprintf("a%d", j)
				}
				msg.ToolCalls = append(msg.ToolCalls, schema.ToolCall{ID: fmt.Sprintf("c%d", j), Function: schema.FunctionCall{Name: fmt.Sprintf("t%d", t), Arguments: arg}})
			}
			return msg, nil
		}))
		errs = append(errs, g.AddToolsNode("tools", tn), g.AddEdge(prev, "tools"))
		prev = "tools"
		for _, role := range s.Roles {
			if role != "" {
				paths[role] = pathTo("tools")
			}
		}
		add("answers", compose.InvokableLambda(func(_ context.Context, ms []*schema.Message) (string, error) {
			out := ""
			for _, m := range ms {
				out += m.Content + ";"
			}
			return out, nil
		}))
	}
	if l.Post {
		add(fmt.Sprintf("post%d", i), pvPass(">"))
	}
	errs = append(errs, g.AddEdge(prev, compose.END))
	return g, errors.Join(errs...)
}

// pvHead: the beginning of an error text (panic errors carry a stack).
func pvHead(s string) string {
	if len(s) > 400 {
		return s[:400] + " ..."
	}
	return s
}

// ---------------------------------------------------------------- the case

func panicValueCase(ctx context.Context, rep *mon.Reporter, rng *mon.Rand, cfg mon.Config) {
	s := pvGenShape(rng)
	paths := map[string][]string{}
	var r compose.Runnable[string, string]
	var store *pvStore
	var err error
	if p := mon.Safe(func() {
		var g *compose.Graph[string, string]
		if g, err = pvBuild(ctx, s, 0, nil, paths); err != nil {
			return
		}
		var copts []compose.GraphCompileOption
		if s.Levels[0].DAG {
			copts = append(copts, compose.WithNodeTriggerMode(compose.AllPredecessor))
		}
		if s.Store != "none" {
			store = newPvStore()
			copts = append(copts, compose.WithCheckPointStore(store))
		}
		r, err = g.Compile(ctx, copts...)
	}); p != nil {
		err = fmt.Errorf("panic while building: %s", p.Value)
	}
	if err != nil {
		rep.Violation(ID+"/build-error/panic-value", err.Error(), s)
		return
	}
	rep.Distinct("panic_value_shapes", s.String())
	graphNodes := map[string]bool{}
	for i := range s.Levels {
		graphNodes[fmt.Sprintf("g%d", i)] = true
	}
	roles := mon.SortedKeys(paths)

	// the values of this case: one of the interrupt family, the others from the whole universe
	simple := pvSimpleValues()
	pick := func(family string) *pvValue {
		for {
			if rng.Prob(map[bool]float64{true: 0.35, false: 0.12}[family == "interrupt"]) {
				v, err := pvNestedValue(ctx, rng)
				if err != nil {
					rep.Violation(ID+"/build-error/panic-value/nested-run", err.Error(), s)
					return nil
				}
				return v
			}
			if v := mon.PickOne(rng, simple); family == "" || v.Family == family {
				return v
			}
		}
	}
	nvals := cfg.Pick(3, 4)
	runs := 0
	for k := 0; k < nvals; k++ {
		fam := ""
		if k == 0 {
			fam = "interrupt"
		}
		victims := map[string]*pvValue{}
		for _, role := range roles {
			if victims[role] = pick(fam); victims[role] == nil {
				return
			}
		}
		paras := []string{"I", "S", mon.PickOne(rng, []string{"C", "T"})}
		if cfg.Thorough() {
			paras = []string{"I", "S", "C", "T"}
		}
		in, inChunks := rng.Str(1, 4), 1+rng.Intn(2)
		for _, para := range paras {
			c := &pvCtl{Victims: victims, blown: map[string]int{}}
			var opts []compose.Option
			before := 0
			if store != nil {
				before = len(store.written())
				if s.Store == "store+id" {
					runs++
					opts = append(opts, compose.WithCheckPointID(fmt.Sprintf("run-%d", runs)))
				}
			}
			o := runM(context.WithValue(ctx, pvKey{}, c), r, para, in, inChunks, opts...)
			var written []string
			if store != nil && o.Wait == mon.Finished {
				written = store.written()[before:]
			}
			pvJudge(rep, s, paths, roles, graphNodes, c, para, in, o, written)
		}
	}
}

func pvJudge(rep *mon.Reporter, s *pvShape, paths map[string][]string, roles []string, graphNodes map[string]bool, c *pvCtl, para, in string, o mout, written []string) {
	rep.AddEvaluations(1)
	rep.Count("panic_value_runs", 1)
	site := s.Site
	var names []string
	family := "other"
	for _, role := range roles {
		names = append(names, role+"="+strings.Join(paths[role], "/")+" panics with "+c.Victims[role].Name)
		if c.Victims[role].Family == "interrupt" {
			family = "interrupt"
		}
	}
	wit := map[string]any{"shape": s, "shape_text": s.String(), "panics": names, "paradigm": para, "input": in}
	ctxt := fmt.Sprintf("graph %s, %v, paradigm %s", s.String(), names, para)
	if o.Wait == mon.Stuck {
		where, detail := stuckSig(o.Dump)
		rep.Violation(ID+"/panic-value/hang/"+site+"/"+where, "the run can never finish after the panic\n"+ctxt+"\n"+detail, wit)
		return
	}
	if o.Wait != mon.Finished {
		rep.Inconclusive("watchdog fired while goroutines were active")
		return
	}
	c.mu.Lock()
	blown, nested := len(c.blown), append([]string(nil), c.nested...)
	c.mu.Unlock()
	if o.Panic != nil {
		rep.Violation(ID+"/panic-value/panic-on-the-caller/"+site, "the panic of the node reached the goroutine of the caller: "+o.Panic.Value+"\n"+ctxt+"\n"+o.Panic.Stack, wit)
		return
	}
	if blown == 0 {
		rep.Count("panic_value_runs_in_which_the_chosen_node_never_ran", 1) // nothing panicked: nothing to judge
		return
	}
	if family == "interrupt" {
		rep.Count("panic_value_runs_with_a_value_of_the_interrupt_family", 1)
	}
	for _, t := range nested {
		if strings.Contains(strings.ToLower(t), "interrupt") {
			rep.Count("panic_value_runs_with_the_interrupt_error_of_a_nested_run", 1)
			break
		}
	}
	if len(s.Levels) > 1 {
		rep.Count("panic_value_runs_in_a_nested_graph", 1)
	}
	if s.Store == "store+id" {
		rep.Count("panic_value_runs_with_checkpoint_store_and_id", 1)
	}
	if o.Err == nil {
		rep.Violation(ID+"/panic-value/swallowed/"+site, fmt.Sprintf("the run succeeded with %q although a node panicked\n%s", o.Out, ctxt), wit)
		return
	}
	msg := o.Err.Error()
	if info, ok := compose.ExtractInterruptInfo(o.Err); ok {
		rep.Violation(ID+"/panic-value/reported-as-interrupt/"+site, fmt.Sprintf("the panic is reported as an interrupt of the run (compose.ExtractInterruptInfo: %+v; checkpoints written by the run: %v), not as a failure\n%s\n%s", info, written, pvHead(msg), ctxt), wit)
		return
	}
	if len(written) > 0 {
		rep.Violation(ID+"/panic-value/checkpoint-written/"+site, fmt.Sprintf("the run that failed by a panic wrote a checkpoint to resume from (ids %v)\n%s\n%s", written, pvHead(msg), ctxt), wit)
		return
	}
	class, got := "", ""
	for _, role := range roles {
		if class, got = judgePath(o.Err, paths[role], func(k string) bool { return graphNodes[k] }); class == "" {
			break
		}
	}
	if class != "" {
		rep.Violation(ID+"/panic-value/node-path/"+site+"/"+class, fmt.Sprintf("the error of the run does not name the path of the panicking node (found: [%s])\n%s\n%s", got, msg, ctxt), wit)
		return
	}
	rep.Count("node_paths_checked", 1)
	if !strings.Contains(strings.ToLower(msg), "panic") {
		rep.Violation(ID+"/panic-value/not-reported-as-a-panic/"+site, "the error of the run does not tell that a node panicked\n"+msg+"\n"+ctxt, wit)
		return
	}
	rep.Count("panic_value_runs_judged", 1)
	rep.Distinct("panic_values", strings.Join(names, " & "))
	rep.NonTrivial(fmt.Sprintf("panic-value|%s|%v|%s", s.String(), names, para))
}
