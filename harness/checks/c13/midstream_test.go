package c13

// Failures that arise while a node streams: an error item in the middle of the node's output stream, and a
// panic of the converter a node's stream is built on (schema.StreamReaderWithConvert). "When a node fails, the
// run returns an error that names the failing node path ... A panic inside a node body ... surfaces as an error
// of the run (or an error item on the stream)" - in every paradigm, whoever reads the item first: the caller
// from the output stream, a streaming node, a value-only node (the framework concatenates), a fan-in, a keyed
// node, a branch condition, a nested graph.

import (
	"context"
	"errors"
	"fmt"
	"strings"

	"verifharness/internal/mon"
)

// pickVictim turns one lambda of g into the node that fails while streaming; nodes whose stream is copied
// to several consumers are preferred (the same error item is then handled by several readers at once).
func pickVictim(r *mon.Rand, g *mgraph) (*mnode, []string) {
	type cand struct {
		n      *mnode
		path   []string
		fanOut bool
	}
	var all, fan []cand
	var rec func(g *mgraph, prefix []string)
	rec = func(g *mgraph, prefix []string) {
		for si := range g.Stages {
			for j := range g.Stages[si] {
				n := &g.Stages[si][j]
				p := append(append([]string(nil), prefix...), n.Key)
				if n.Sub != nil {
					rec(n.Sub, p)
					continue
				}
				c := cand{n: n, path: p, fanOut: si+1 < len(g.Stages) && len(g.Stages[si+1]) > 1}
				all = append(all, c)
				if c.fanOut {
					fan = append(fan, c)
				}
			}
		}
	}
	rec(g, nil)
	pool := all
	if len(fan) > 0 && r.Prob(0.5) {
		pool = fan
	}
	c := pool[r.Intn(len(pool))]
	n := c.n
	n.Role = "victim"
	if n.Kind == "I" || n.Kind == "C" {
		n.Kind = []string{"S", "T"}[r.Intn(2)]
		n.OnErr = ""
	}
	if n.Kind == "S" && n.Chunks == 0 {
		n.Chunks = 1 + r.Intn(3)
	}
	if n.Kind == "T" && n.Fwd == "" {
		n.Fwd = []string{"convert", "pipe"}[r.Intn(2)]
	}
	return n, c.path
}

func streamFaultCase(ctx context.Context, rep *mon.Reporter, rng *mon.Rand, cfg mon.Config) {
	mg := &mgen{r: rng}
	g := mg.graph(mgenOpts{MaxStages: 4, Wide: 0.35, Nest: cfg.Pick(2, 3), NestProb: 0.25}, 0)
	v, want := pickVictim(rng, g)
	r, err := compileM(ctx, g, nil)
	if err != nil {
		rep.Violation(ID+"/build-error/stream-fault", err.Error(), g)
		return
	}
	graphNodes := map[string]bool{}
	g.walk(func(n *mnode, _ []string, _ *mgraph) {
		if n.Kind == "G" {
			graphNodes[n.Key] = true
		}
	}, nil)
	rep.Distinct("stream_fault_shapes", g.shape())
	in := rng.Str(2, 6)
	inChunks := 1 + rng.Intn(3)

	// ---- an error item at every position of the victim's stream
	var positions []int
	switch {
	case v.Kind == "S":
		for p := 0; p <= v.Chunks; p++ {
			positions = append(positions, p)
		}
	case v.Fwd == "pipe":
		positions = []int{0, 1, 2, 99} // 99: when the victim's input ends
	default:
		positions = []int{0}
	}
	for _, pos := range positions {
		andOn, kind, capacity := rng.Bool(), []string{"sentinel", "custom"}[rng.Intn(2)], rng.Intn(3)
		for _, para := range []string{"I", "S", "C", "T"} {
			c := &mctl{Fault: "mid-error", Pos: pos, AndOn: andOn, ErrKind: kind, Delivery: capacity} // a fresh control block per run
			judgeStreamFault(rep, g, v, want, graphNodes, c, para, in, inChunks, runM(withMctl(ctx, c), r, para, in, inChunks))
		}
	}
	// ---- a converter that panics
	positions = []int{0}
	if v.Kind == "S" {
		positions = positions[:0]
		for p := 0; p < v.Chunks; p++ {
			positions = append(positions, p)
		}
	}
	for _, pos := range positions {
		kind := []string{"string", "error", "runtime"}[rng.Intn(3)]
		for _, para := range []string{"I", "S", "C", "T"} {
			c := &mctl{Fault: "conv-panic", Pos: pos, PanicKind: kind}
			judgeStreamFault(rep, g, v, want, graphNodes, c, para, in, inChunks, runM(withMctl(ctx, c), r, para, in, inChunks))
		}
	}
}

func judgeStreamFault(rep *mon.Reporter, g *mgraph, v *mnode, want []string, graphNodes map[string]bool, c *mctl, para, in string, inChunks int, o mout) {
	rep.AddEvaluations(1)
	fam := "stream-error-item"
	if c.Fault == "conv-panic" {
		fam = "converter-panic"
	}
	rep.Count(strings.ReplaceAll(fam, "-", "_")+"_runs", 1)
	wit := map[string]any{"graph": g, "victim": strings.Join(want, "/"), "fault": c.Fault, "position": c.Pos, "stream_goes_on": c.AndOn,
		"error_kind": c.ErrKind, "panic_kind": c.PanicKind, "pipe_capacity": c.Delivery, "paradigm": para, "input": in, "input_chunks": inChunks}
	ctxt := fmt.Sprintf("graph %s, failing node %v (%s), fault %s at position %d, paradigm %s", g.shape(), want, v.Kind+v.Fwd, c.Fault, c.Pos, para)
	if o.Wait == mon.Stuck {
		where, detail := stuckSig(o.Dump)
		rep.Violation(ID+"/"+fam+"/hang/"+where, "the run can never finish\n"+ctxt+"\n"+detail, wit)
		return
	}
	if o.Wait != mon.Finished {
		rep.Inconclusive("watchdog fired while goroutines were active")
		return
	}
	raised, escaped := c.snapshot()
	if o.Panic != nil {
		rep.Violation(ID+"/"+fam+"/panic-on-the-caller", "the failure of the node was raised as a panic on the goroutine of the caller: "+o.Panic.Value+"\n"+ctxt+"\n"+o.Panic.Stack, wit)
		return
	}
	if len(escaped) > 0 {
		rep.Violation(ID+"/"+fam+"/panic-in-a-goroutine-reading-the-stream", "the failure of the node was raised as a panic inside Recv on a goroutine that a healthy node started to forward its input (unrecovered there it ends the process)\n"+ctxt+"\n"+escaped[0], wit)
		return
	}
	if len(raised) == 0 {
		if o.Err != nil {
			rep.Violation(ID+"/"+fam+"/unexpected-error", "the run failed although the node never raised its failure: "+o.Err.Error()+"\n"+ctxt, wit)
			return
		}
		rep.Count("stream_fault_never_raised", 1)
		return
	}
	if o.Err == nil {
		rep.Violation(ID+"/"+fam+"/failure-swallowed", fmt.Sprintf("the run succeeded with %q although the node failed\n%s", o.Out, ctxt), wit)
		return
	}
	msg := o.Err.Error()
	if c.Fault == "mid-error" {
		found := false
		for _, e := range raised {
			if errors.Is(o.Err, e) {
				found = true
			}
		}
		var me *midErr
		switch {
		case !errors.Is(o.Err, errMid):
			rep.Violation(ID+"/"+fam+"/not-unwrappable/errors.Is/"+wrapSite(o.Err), "errors.Is(err, sentinel) is false for the run error:\n"+msg+"\n"+ctxt, wit)
			return
		case !found:
			rep.Violation(ID+"/"+fam+"/not-unwrappable/error-object/"+wrapSite(o.Err), "the error value the node put on its stream is not in the chain of the run error:\n"+msg+"\n"+ctxt, wit)
			return
		case c.ErrKind == "custom" && (!errors.As(o.Err, &me) || me.Node != v.Key):
			rep.Violation(ID+"/"+fam+"/not-unwrappable/errors.As/"+wrapSite(o.Err), "errors.As(err, *midErr) fails for the run error:\n"+msg+"\n"+ctxt, wit)
			return
		}
		rep.Count("stream_error_item_unwrapped", 1)
	}
	if class, got := judgePath(o.Err, want, func(k string) bool { return graphNodes[k] }); class != "" {
		// a converter panic reaches the readers as an error item: one family of signatures for the path of an item
		rep.Violation(ID+"/stream-error-item/node-path/"+class, fmt.Sprintf("the run error does not name the failing node path [%s] (found: [%s]; at call time: %v)\n%s\n%s", strings.Join(want, ", "), got, o.AtCall, msg, ctxt), wit)
		return
	}
	rep.Count("node_paths_checked", 1)
	rep.Count(strings.ReplaceAll(fam, "-", "_")+"_paths_checked", 1)
	if !o.AtCall {
		rep.Count("stream_fault_read_by_the_caller_as_an_item", 1)
	}
	rep.NonTrivial(fmt.Sprintf("%s|%s|%v|%d|%s|%s", fam, g.shape(), want, c.Pos, para, c.ErrKind+c.PanicKind))
}
