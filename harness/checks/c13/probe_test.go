package c13

import (
	"context"
	"errors"
	"fmt"
	"io"
	"strings"
	"testing"

	"github.com/cloudwego/eino/compose"
	"github.com/cloudwego/eino/schema"
)

var errP = errors.New("base failure")

func probeProducer() *compose.Lambda {
	return compose.StreamableLambda(func(ctx context.Context, in string) (*schema.StreamReader[string], error) {
		sr, sw := schema.Pipe[string](3)
		sw.Send("a", nil)
		sw.Send("", errP)
		sw.Send("b", nil)
		sw.Close()
		return sr, nil
	})
}

func drain(sr *schema.StreamReader[string], err error) (string, error) {
	if err != nil {
		return "", err
	}
	defer sr.Close()
	var sb strings.Builder
	for {
		c, err := sr.Recv()
		if err == io.EOF {
			return sb.String(), nil
		}
		if err != nil {
			return sb.String(), err
		}
		sb.WriteString(c)
	}
}

func show(t *testing.T, name string, r compose.Runnable[string, string]) {
	ctx := context.Background()
	_, e1 := r.Invoke(ctx, "x")
	_, e2 := drain(r.Stream(ctx, "x"))
	_, e3 := r.Collect(ctx, schema.StreamReaderFromArray([]string{"x", "y"}))
	_, e4 := drain(r.Transform(ctx, schema.StreamReaderFromArray([]string{"x", "y"})))
	for i, e := range []error{e1, e2, e3, e4} {
		t.Logf("%s %s: is=%v %s", name, "ISCT"[i:i+1], errors.Is(e, errP), strings.ReplaceAll(fmt.Sprint(e), "\n", " | "))
	}
}

func TestProbe(t *testing.T) {
	ctx := context.Background()
	for _, wrap := range []bool{false, true} {
		col := compose.CollectableLambda(func(ctx context.Context, in *schema.StreamReader[string]) (string, error) {
			defer in.Close()
			s := ""
			for {
				c, err := in.Recv()
				if err == io.EOF {
					return s, nil
				}
				if err != nil {
					if wrap {
						return "", fmt.Errorf("reading my input: %w", err)
					}
					return "", err
				}
				s += c
			}
		})
		g := compose.NewGraph[string, string]()
		_ = g.AddLambdaNode("P", probeProducer())
		_ = g.AddLambdaNode("C", col)
		_ = g.AddEdge(compose.START, "P")
		_ = g.AddEdge("P", "C")
		_ = g.AddEdge("C", compose.END)
		r, err := g.Compile(ctx)
		if err != nil {
			t.Fatal(err)
		}
		show(t, fmt.Sprint("P->C(collectable) wrap=", wrap), r)
	}
	inv := compose.InvokableLambda(func(ctx context.Context, in string) (string, error) { return in + "+", nil })
	tr := compose.TransformableLambda(func(ctx context.Context, in *schema.StreamReader[string]) (*schema.StreamReader[string], error) {
		return schema.StreamReaderWithConvert(in, func(s string) (string, error) { return s + "!", nil }), nil
	})
	{
		g := compose.NewGraph[string, string]()
		_ = g.AddLambdaNode("P", probeProducer())
		_ = g.AddLambdaNode("C", inv)
		_ = g.AddEdge(compose.START, "P")
		_ = g.AddEdge("P", "C")
		_ = g.AddEdge("C", compose.END)
		r, err := g.Compile(ctx)
		if err != nil {
			t.Fatal(err)
		}
		show(t, "P->C(inv)", r)
	}
	{
		g := compose.NewGraph[string, string]()
		_ = g.AddLambdaNode("P", probeProducer())
		_ = g.AddLambdaNode("C", tr)
		_ = g.AddLambdaNode("D", inv)
		_ = g.AddEdge(compose.START, "P")
		_ = g.AddEdge("P", "C")
		_ = g.AddEdge("C", "D")
		_ = g.AddEdge("D", compose.END)
		r, err := g.Compile(ctx)
		if err != nil {
			t.Fatal(err)
		}
		show(t, "P->C(tr)->D(inv)", r)
	}
	{
		sg := compose.NewGraph[string, string]()
		_ = sg.AddLambdaNode("P", probeProducer())
		_ = sg.AddLambdaNode("C", tr)
		_ = sg.AddEdge(compose.START, "P")
		_ = sg.AddEdge("P", "C")
		_ = sg.AddEdge("C", compose.END)
		g := compose.NewGraph[string, string]()
		_ = g.AddGraphNode("sub", sg)
		_ = g.AddLambdaNode("D", inv)
		_ = g.AddLambdaNode("E", tr)
		_ = g.AddEdge(compose.START, "sub")
		_ = g.AddEdge("sub", "D")
		_ = g.AddEdge("D", "E")
		_ = g.AddEdge("E", compose.END)
		r, err := g.Compile(ctx)
		if err != nil {
			t.Fatal(err)
		}
		show(t, "sub[P->C(tr)]->D(inv)->E", r)
	}
	{
		sg := compose.NewGraph[string, string]()
		_ = sg.AddLambdaNode("P", probeProducer())
		_ = sg.AddLambdaNode("C", tr)
		_ = sg.AddEdge(compose.START, "P")
		_ = sg.AddEdge("P", "C")
		_ = sg.AddEdge("C", compose.END)
		g := compose.NewGraph[string, string]()
		_ = g.AddGraphNode("sub", sg)
		_ = g.AddLambdaNode("E", tr)
		_ = g.AddEdge(compose.START, "sub")
		_ = g.AddEdge("sub", "E")
		_ = g.AddEdge("E", compose.END)
		r, err := g.Compile(ctx)
		if err != nil {
			t.Fatal(err)
		}
		show(t, "sub[P->C(tr)]->E(tr)", r)
	}
}
