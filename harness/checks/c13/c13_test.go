// Package c13: node failures surface as identifiable, unwrappable errors; panics are contained.
package c13

import (
	"context"
	"errors"
	"fmt"
	"os"
	"regexp"
	"strings"
	"sync"
	"testing"

	"github.com/cloudwego/eino/compose"

	"verifharness/internal/gspec"
	"verifharness/internal/mon"
)

const ID = "C13"

func genOpts(r *mon.Rand, cfg mon.Config, mode gspec.Mode) gspec.GenOpts {
	o := gspec.GenOpts{
		Mode: mode, MinNodes: 2, MaxNodes: cfg.Pick(6, 8),
		Branches: 0.4, Multi: 0.4, StreamCond: 0.3, AllowEmpty: 0.1,
		Nest: cfg.Pick(2, 3), NestProb: 0.2, State: 0.2, StreamState: 0.3,
		Streamy: true, Keys: 0.15, Renames: 0.1, Passthrough: 0.1, Wide: 0.2,
		CtrlOnly: 0.2, DataOnly: 0.3, Fields: 0.4, TwoBranches: 0.1,
	}
	if mode == gspec.Pregel {
		o.Cycles = 0.3
	}
	return o
}

var kinds = []gspec.Fault{gspec.FailSentinel, gspec.FailCustom, gspec.PanicString, gspec.PanicError, gspec.PanicNilDeref, gspec.FailMidStream, gspec.PanicConverter}

func kindName(f gspec.Fault) string {
	return [...]string{"none", "error-sentinel", "error-custom", "panic-string", "panic-error", "panic-nil-deref", "error-mid-stream", "panic-in-converter"}[f]
}

var pathRe = regexp.MustCompile(`node path: \[([^\]]*)\]`)

func TestCheck(t *testing.T) {
	cfg := mon.Load(ID)
	rep := mon.NewReporter(cfg, "fault_enumeration",
		"generated specs (all modes, nesting depth <=2/3, mixed native paradigms, Pipe/array producers); for each spec EVERY node the reference executes is made, in turn, to return a sentinel error, return a custom error type, panic with a string / an error / a nil dereference, put an error item in the middle of its output stream, or stream through a converter that panics (the framework's forwarding goroutine when merged); pairs of nodes of one step fail together; paradigms Invoke + one other (quick) / all four (thorough); cyclic graphs hit compile-time and call-time step limits; runs are cancelled before the call and from inside a node. Oracle (public API only): the run fails (never succeeds, never panics on the caller, never hangs — quiescence monitor — never kills the child process); a failure raised by the node call itself names the full node path through nested graphs in order; errors.Is/As recover the sentinel / custom error; errors.Is(err, ErrExceedMaxSteps) and errors.Is(err, context.Canceled) hold. Non-trivial: a fault in a node with >=1 other executed node; distinct = (spec, input, victim(s), fault, paradigm). "+
			"Added, on graphs built directly on the public API (stages of I/S/C/T lambdas, nested graphs / chains / workflows, fan-out to 2-4 consumers, fan-in, keyed nodes, stream branches; all four paradigms): (a) a Streamable / Transformable node puts an error item at EVERY position of its output stream, or streams through a converter (schema.StreamReaderWithConvert) that panics on some chunk - the run must fail with an error (never a panic on the caller or inside Recv on a goroutine a healthy node started), errors.Is/As reach the item's error value, and the error names the failing node's full path whoever read the item first (the caller from the output stream, a streaming node, a value-only node, a node that returns what it read, a fan-in, a keyed node, a branch condition, a nested graph); (b) a Lambda or a tool (invokable / streamable, in a tools node) runs another compiled runnable or a ReAct agent in any paradigm, 1-3 levels deep, and fails - at call time or by an error item - with its own error around the inner run's error (pointer / value type with Unwrap, %w, two %w, errors.Join either order, Unwrap() []error, three layers; a remembered error returned again), the innermost run failing by error / custom error / panic / mid-stream item / converter panic / step limit (compile or call option) / cancellation of its own context / an agent's tool or model: errors.Is reaches the error value of EVERY calling node and the innermost cause (sentinel, custom type, ErrExceedMaxSteps, context.Canceled), and the path leads from the outermost calling node to the innermost failing node. (c) panic values (panic_value_test.go): in a graph of 0-3 nested levels (DAG / Pregel per level) a single Lambda (I/S/C/T), one or two of 2-4 parallel Lambdas, or one or two of 1-4 calls of a tools node panic with a drawn VALUE - string, int, plain / custom error, io.EOF, errors wrapping io.EOF / context.Canceled / ErrExceedMaxSteps, runtime errors, compose.InterruptAndRerun bare and wrapped (%w, error type with cause, errors.Join, two layers), the error of a run of its own that interrupts (before / after a node, by a node asking to be rerun, inside a subgraph; with or without checkpoint id; run inside the body or handed in; bare or wrapped) - with no checkpoint store, store + id, or store without id, under Invoke, Stream and Collect or Transform: the call ends with an error that compose.ExtractInterruptInfo does not take for an interrupt, writes no checkpoint, names the panicking node's full path and tells of a panic.",
		[]string{"a lazily failing stream (error item) is only required to fail the run when the node's data reaches END", "in eager mode only ancestors of END must have been collected", "a panic value is not required to be unwrappable, only contained"},
		300)
	defer func() {
		if err := rep.Flush(); err != nil {
			t.Fatalf("flush: %v", err)
		}
	}()
	rep.Require("stream_error_item_runs", 100)
	rep.Require("converter_panic_runs", 50)
	rep.Require("nested_run_own_errors_reached", 100)
	rep.Require("stream_fault_read_by_the_caller_as_an_item", 20)
	rep.Require("panic_value_runs_with_a_value_of_the_interrupt_family", 50)
	rep.Require("panic_value_runs_with_the_interrupt_error_of_a_nested_run", 10)
	ctx := context.Background()
	n := int64(cfg.Pick(50, 120))
	rep.Cases(n, func(idx int64, rng *mon.Rand) {
		// sub-workloads written directly on the public API (mini_test.go, midstream_test.go, wrap_test.go); their
		// generators are derived from the case, not from rng: what the gspec workload below draws is unchanged
		pub := rep.CaseRand(idx).Sub("public-api")
		for k := 0; k < 2; k++ {
			streamFaultCase(ctx, rep, pub.Sub(fmt.Sprint("stream-fault", k)), cfg)
		}
		for k := 0; k < 3; k++ {
			wrapCase(ctx, rep, pub.Sub(fmt.Sprint("nested-run", k)), cfg)
		}
		for k := 0; k < 3; k++ { // panic_value_test.go: what a node body / tool call panics WITH
			panicValueCase(ctx, rep, pub.Sub(fmt.Sprint("panic-value", k)), cfg)
		}
		if os.Getenv("C13_ONLY") != "" { // debugging aid: only the sub-workloads above
			return
		}
		mode := gspec.Mode(idx % 3)
		spec := gspec.Gen(rng, genOpts(rng, cfg, mode))
		specCase(ctx, rep, rng, cfg, spec, idx < 2)
		if mode == gspec.Pregel && idx%2 == 0 {
			limitCase(ctx, rep, rng, cfg)
		}
		if idx%4 == 1 {
			cancelCase(ctx, rep, rng, cfg, spec)
		}
		sameKeyCase(ctx, rep, rng)
		toolFaultCase(ctx, rep, rng.Sub("tool"))
	})
}

func findNode(g *gspec.GraphSpec, key string) (*gspec.NodeSpec, *gspec.GraphSpec) {
	for i := range g.Nodes {
		if g.Nodes[i].Key == key {
			return &g.Nodes[i], g
		}
		if g.Nodes[i].Sub != nil {
			if n, o := findNode(g.Nodes[i].Sub, key); n != nil {
				return n, o
			}
		}
	}
	return nil, nil
}

// dataAncestors: top-level nodes whose data reaches END in the fault-free reference.
func dataAncestors(spec *gspec.GraphSpec, ref *gspec.RefResult) map[string]bool {
	in := map[string][]string{}
	for _, e := range spec.Edges {
		if !e.NoData {
			in[e.To] = append(in[e.To], e.From)
		}
	}
	if spec.Mode != gspec.Workflow {
		for _, b := range spec.Branches {
			for _, t := range ref.Branch[b.ID] {
				in[t] = append(in[t], b.From)
			}
		}
	}
	seen := map[string]bool{}
	var walk func(n string)
	walk = func(n string) {
		for _, p := range in[n] {
			if p == gspec.START || seen[p] {
				continue
			}
			seen[p] = true
			walk(p)
		}
	}
	walk(gspec.END)
	return seen
}

// feedsMergeOnly: the node's output goes into a fan-in (>=2 data predecessors) and not directly to END.
func feedsMergeOnly(spec *gspec.GraphSpec, key string) bool {
	nin := map[string]int{}
	for _, e := range spec.Edges {
		if !e.NoData {
			nin[e.To]++
		}
	}
	ok := false
	for _, e := range spec.Edges {
		if e.From == key && !e.NoData {
			if e.To == gspec.END || nin[e.To] < 2 {
				return false
			}
			ok = true
		}
	}
	for _, b := range spec.Branches {
		if b.From == key {
			return false
		}
	}
	return ok
}

func specCase(ctx context.Context, rep *mon.Reporter, rng *mon.Rand, cfg mon.Config, spec *gspec.GraphSpec, sample bool) {
	r, err := gspec.Build(ctx, spec, gspec.BuildOpts{})
	if err != nil {
		rep.Violation(ID+"/build-error", err.Error(), spec)
		return
	}
	in := gspec.V{"in": rng.Str(1, 5)}
	ref := gspec.EvalGraph(spec, in, nil)
	if ref.Err != "" {
		return
	}
	rep.Distinct("shapes", spec.Shape())
	anc := dataAncestors(spec, ref)
	// victims: every body node the reference executes (once per node key)
	seen := map[string]bool{}
	var victims []gspec.RefExec
	for _, e := range ref.Execs {
		if !seen[e.Node] {
			seen[e.Node] = true
			victims = append(victims, e)
		}
	}
	for _, v := range victims {
		for _, k := range kinds {
			paras := []string{"I", []string{"S", "C", "T"}[rng.Intn(3)]}
			if cfg.Thorough() {
				paras = []string{"I", "S", "C", "T"}
			}
			if k == gspec.PanicConverter {
				if n := spec.Node(v.Node); n == nil || n.Kind != gspec.Hash || n.InputKey != "" || !feedsMergeOnly(spec, v.Node) {
					continue
				}
				paras = []string{"S", "T"}
			}
			for _, para := range paras {
				oneFault(ctx, rep, spec, r, in, ref, anc, map[string]gspec.Fault{v.Node: k}, []gspec.RefExec{v}, para, sample && v == victims[0] && k == kinds[0])
			}
		}
	}
	// pairs of nodes of the same top-level step / both executed: both fail
	if len(victims) >= 2 {
		for t := 0; t < 2; t++ {
			a := victims[rng.Intn(len(victims))]
			b := victims[rng.Intn(len(victims))]
			if a.Node == b.Node {
				continue
			}
			ka, kb := kinds[rng.Intn(5)], kinds[rng.Intn(5)]
			oneFault(ctx, rep, spec, r, in, ref, anc, map[string]gspec.Fault{a.Node: ka, b.Node: kb}, []gspec.RefExec{a, b}, "I", false)
		}
	}
}

func wantPath(p string) string { return strings.ReplaceAll(p, "/", ", ") }

func oneFault(ctx context.Context, rep *mon.Reporter, spec *gspec.GraphSpec, r compose.Runnable[gspec.V, gspec.V], in gspec.V, ref *gspec.RefResult, anc map[string]bool, faults map[string]gspec.Fault, victims []gspec.RefExec, para string, sample bool) {
	fref := gspec.EvalGraph(spec, in, &gspec.RefEnv{Faults: faults})
	if fref.Err != "nodefail" {
		return // with the fault the reference never reaches the victim (cannot happen for single victims)
	}
	var names []string
	for _, v := range victims {
		names = append(names, v.Path+":"+kindName(faults[v.Node]))
	}
	ctl := gspec.NewCtl("r")
	ctl.Faults = faults
	// in a third of the runs the injected errors also have io.EOF in their Unwrap chain: still failures
	ctl.EOFInChain = mon.HashStr(fmt.Sprint(names, para, gspec.Canon(in)))%3 == 0
	// a panicking converter may panic late, while the caller is a full forwarding buffer behind
	if h := mon.HashStr(fmt.Sprint("lag", names, para, gspec.Canon(in))); h%2 == 0 && (para == "S" || para == "T") {
		ctl.LagReader = true
		ctl.PanicAt = 6 + int(h/2%3)
		rep.Count("fault_runs_with_lagging_reader", 1)
	}
	out, wres, dump := gspec.CallGuarded(gspec.WithCtl(ctx, ctl), r, para, in, 0, -1)
	rep.AddEvaluations(1)
	rep.Count("fault_runs", 1)
	if ctl.EOFInChain {
		rep.Count("fault_runs_with_io_EOF_in_the_error_chain", 1)
	}
	wit := map[string]any{"spec": spec, "input": in, "faults": names, "paradigm": para, "io_EOF_in_chain": ctl.EOFInChain, "lagging_reader": ctl.LagReader, "panic_at_chunk": ctl.PanicAt}
	kindSig := kindName(faults[victims[0].Node])
	if len(victims) > 1 {
		kindSig = "pair"
	}
	extra := fmt.Sprintf("paradigm=%s input=%s faults=%v\nreference (fault-free): %s", para, gspec.Canon(in), names, ref.String())
	if wres == mon.Stuck {
		where, detail := gspec.StuckSignature(dump)
		rep.Violation(ID+"/hang/"+kindSig+"/"+where, "the run can never finish after the injected failure\n"+detail+"\n"+extra, wit)
		return
	}
	if wres == mon.Inconclusive {
		rep.Inconclusive("watchdog fired while goroutines were active")
		return
	}
	execs, _, _, _ := ctl.Log.Snapshot()
	// which victim actually raised its failure, and was it raised by the node call itself?
	var raised []gspec.RefExec
	atCall := map[string]bool{}
	for _, v := range victims {
		for _, e := range execs {
			if e.Node != v.Node {
				continue
			}
			raised = append(raised, v)
			n, _ := findNode(spec, v.Node)
			f := faults[v.Node]
			isPanic := f >= gspec.PanicString && f <= gspec.PanicNilDeref
			lazy := (e.Para == "T" && n != nil && (n.Lazy || n.Kind == gspec.Rename) && !isPanic) ||
				((f == gspec.FailMidStream || f == gspec.PanicConverter) && (e.Para == "S" || e.Para == "T"))
			if !lazy {
				atCall[v.Path] = true
			}
			break
		}
	}
	if out.Panic != nil {
		if len(victims) == 1 && faults[victims[0].Node] == gspec.PanicConverter {
			// only acceptable if the caller itself read the panicking stream (no framework goroutine in between)
			if !strings.Contains(out.Panic.Stack, "github.com/cloudwego/eino/schema.(*streamReaderWithConvert") {
				rep.Violation(ID+"/panic-escaped/"+kindSig, "panic reached the caller: "+out.Panic.Value+"\n"+out.Panic.Stack+"\n"+extra, wit)
			}
			return
		}
		rep.Violation(ID+"/panic-escaped/"+kindSig, "a failure inside the graph panicked on the caller goroutine: "+out.Panic.Value+"\n"+out.Panic.Stack+"\n"+extra, wit)
		return
	}
	if out.Err == nil {
		// swallowed? only a violation when the failure had to be observed
		must := false
		for _, v := range victims {
			top := strings.SplitN(v.Path, "/", 2)[0]
			if atCall[v.Path] {
				if spec.Mode != gspec.Workflow || ref.MustRun[top] {
					must = true
				}
			} else if ref.Contrib[top] && !strings.Contains(v.Path, "/") && len(raised) > 0 {
				// a lazily failing stream must fail the run when that node's data reaches END
				must = true
			}
		}
		if must {
			rep.Violation(ID+"/failure-swallowed/"+kindSig, "the run succeeded with "+gspec.Canon(out.Out)+" although the node failed\n"+extra+"\n"+gspec.RenderExecs(execs), wit)
		} else {
			rep.Count("failure_legitimately_unobserved", 1)
		}
		return
	}
	rep.Count("failures_reported", 1)
	msg := out.Err.Error()
	// ---- unwrappable
	for _, v := range victims {
		if len(victims) > 1 {
			break
		}
		switch faults[v.Node] {
		case gspec.FailSentinel, gspec.FailMidStream:
			if !errors.Is(out.Err, gspec.ErrSentinel) {
				rep.Violation(ID+"/not-unwrappable/errors.Is/"+kindSig+"/"+wrapSite(out.Err), "errors.Is(err, sentinel) is false for the run error:\n"+msg+"\n"+extra, wit)
				return
			}
			rep.Count("errors_is_checked", 1)
		case gspec.FailCustom:
			var ce *gspec.CustomErr
			if !errors.As(out.Err, &ce) || ce.Node != v.Node {
				rep.Violation(ID+"/not-unwrappable/errors.As/"+kindSig+"/"+wrapSite(out.Err), "errors.As(err, *CustomErr) fails for the run error:\n"+msg+"\n"+extra, wit)
				return
			}
			rep.Count("errors_as_checked", 1)
		}
	}
	// ---- names the failing node path
	anyAtCall := false
	for _, v := range raised {
		if atCall[v.Path] {
			anyAtCall = true
		}
	}
	if anyAtCall {
		ms := pathRe.FindAllStringSubmatch(msg, -1)
		ok := false
		for _, m := range ms {
			for _, v := range raised {
				if (atCall[v.Path] || len(victims) > 1) && m[1] == wantPath(v.Path) {
					ok = true
				}
			}
		}
		if !ok {
			got := "none"
			if len(ms) > 0 {
				got = ms[len(ms)-1][1]
			}
			depth := "flat"
			if strings.Contains(raised[0].Path, "/") {
				depth = "nested"
			}
			rep.Violation(ID+"/node-path/"+depth+"/"+kindSig, fmt.Sprintf("the error does not name the failing node path %q (found: %q)\n%s\n%s", wantPath(raised[0].Path), got, msg, extra), wit)
			return
		}
		rep.Count("node_paths_checked", 1)
	} else if len(victims) == 1 && len(raised) == 1 {
		// the failure was raised while the node streamed (an error item, a lazily evaluated body, a converter
		// that panics): whoever read the item, the run error has to name the node the item came from
		isGraph := func(k string) bool { n, _ := findNode(spec, k); return n != nil && n.Sub != nil }
		if class, got := judgePath(out.Err, strings.Split(raised[0].Path, "/"), isGraph); class != "" {
			rep.Violation(ID+"/stream-error-item/node-path/"+class, fmt.Sprintf("the error does not name the path %q of the node that failed while streaming (found: %q)\n%s\n%s", wantPath(raised[0].Path), got, msg, extra), wit)
			return
		}
		rep.Count("node_paths_checked", 1)
		rep.Count("node_paths_checked_for_failures_while_streaming", 1)
	}
	if len(ref.Execs) >= 2 {
		rep.NonTrivial(spec.Digest() + "|" + gspec.Canon(in) + "|" + fmt.Sprint(names) + para)
	}
	if sample {
		rep.Sample(map[string]any{"spec": spec, "input": in, "faults": names, "paradigm": para, "error": msg})
	}
}

// wrapSite: a coarse, stable description of where the error chain stops being unwrappable.
func wrapSite(err error) string {
	depth := 0
	cur := err
	for cur != nil {
		next := errors.Unwrap(cur)
		if next == nil {
			t := fmt.Sprintf("%T", cur)
			return strings.TrimPrefix(t, "*")
		}
		cur = next
		depth++
		if depth > 50 {
			break
		}
	}
	return "unknown"
}

// limitCase: a cycle without exit must stop with the documented sentinel, matchable with errors.Is.
func limitCase(ctx context.Context, rep *mon.Reporter, rng *mon.Rand, cfg mon.Config) {
	spec := &gspec.GraphSpec{Mode: gspec.Pregel, Nodes: []gspec.NodeSpec{
		{Key: "a", Kind: gspec.Hash, Para: gspec.PI, PipeCap: -1}, {Key: "b", Kind: gspec.Hash, Para: gspec.PI, PipeCap: -1}, {Key: "c", Kind: gspec.Hash, Para: gspec.PI, PipeCap: -1}},
		Edges:    []gspec.EdgeSpec{{From: gspec.START, To: "a"}, {From: "a", To: "b"}, {From: "b", To: "a"}, {From: "c", To: gspec.END}},
		Branches: []gspec.BranchSpec{{ID: "never", From: "b", Targets: []string{"c", "a"}}}}
	// the branch always chooses "a": END is never reached
	choices := map[string][]string{"never": {"a"}}
	compileLimit := rng.Intn(6) // 0 = default
	spec.MaxSteps = compileLimit
	r, err := gspec.Build(ctx, spec, gspec.BuildOpts{})
	if err != nil {
		rep.Violation(ID+"/build-error/limit", err.Error(), spec)
		return
	}
	for _, para := range []string{"I", "S"} {
		var opts []compose.Option
		callLimit := rng.Intn(5)
		if callLimit > 0 {
			opts = append(opts, compose.WithRuntimeMaxSteps(callLimit))
		}
		ctl := gspec.NewCtl("r")
		ctl.Choices = choices
		out, wres, dump := gspec.CallGuarded(gspec.WithCtl(ctx, ctl), r, para, gspec.V{"in": "x"}, 0, -1, opts...)
		rep.AddEvaluations(1)
		rep.Count("step_limit_runs", 1)
		wit := map[string]any{"spec": spec, "compile_limit": compileLimit, "call_limit": callLimit, "paradigm": para}
		if wres == mon.Stuck {
			where, detail := gspec.StuckSignature(dump)
			rep.Violation(ID+"/hang/step-limit/"+where, detail, wit)
			return
		}
		if wres != mon.Finished {
			return
		}
		if out.Err == nil || out.Panic != nil {
			rep.Violation(ID+"/step-limit/no-error", "a cycle without exit returned "+out.String(), wit)
			return
		}
		if !errors.Is(out.Err, compose.ErrExceedMaxSteps) {
			rep.Violation(ID+"/not-unwrappable/errors.Is/step-limit/"+wrapSite(out.Err), "errors.Is(err, compose.ErrExceedMaxSteps) is false for: "+out.Err.Error(), wit)
			return
		}
		rep.Count("step_limit_matched", 1)
	}
}

// cancelCase: cancellation before and during a run is matchable with errors.Is(err, context.Canceled).
func cancelCase(ctx context.Context, rep *mon.Reporter, rng *mon.Rand, cfg mon.Config, spec *gspec.GraphSpec) {
	r, err := gspec.Build(ctx, spec, gspec.BuildOpts{})
	if err != nil {
		return
	}
	in := gspec.V{"in": rng.Str(1, 5)}
	ref := gspec.EvalGraph(spec, in, nil)
	if ref.Err != "" || len(ref.Execs) < 2 {
		return
	}
	for variant := 0; variant < 2; variant++ {
		cctx, cancel := context.WithCancel(ctx)
		ctl := gspec.NewCtl("r")
		when := "before-the-call"
		if variant == 0 {
			cancel()
		} else {
			when = "from-inside-the-first-node"
			var once sync.Once
			ctl.OnBody = func(_ context.Context, _ string, _ any) {
				once.Do(cancel)
			}
		}
		out, wres, dump := gspec.CallGuarded(gspec.WithCtl(cctx, ctl), r, "I", in, 0, -1)
		cancel()
		rep.AddEvaluations(1)
		rep.Count("cancel_runs", 1)
		wit := map[string]any{"spec": spec, "input": in, "cancel": when}
		if wres == mon.Stuck {
			where, detail := gspec.StuckSignature(dump)
			rep.Violation(ID+"/hang/cancel/"+where, detail, wit)
			return
		}
		if wres != mon.Finished || out.Panic != nil {
			return
		}
		if out.Err == nil {
			// the run may legitimately finish if no cancellation check lies between the node and END
			if variant == 0 {
				rep.Violation(ID+"/cancel/ignored/"+when, "the context was cancelled before the call but the run succeeded", wit)
			}
			rep.Count("cancel_run_finished_anyway", 1)
			continue
		}
		if !errors.Is(out.Err, context.Canceled) {
			rep.Violation(ID+"/not-unwrappable/errors.Is/context-canceled/"+wrapSite(out.Err), "errors.Is(err, context.Canceled) is false for: "+out.Err.Error(), wit)
			return
		}
		rep.Count("cancel_matched", 1)
	}
}

// sameKeyCase: nested graphs / chains that reuse the same node key on adjacent nesting levels (chains do so
// naturally: their generated keys are node_0, node_1, … at every level). The failing node's full path must
// still be reported with every level.
func sameKeyCase(ctx context.Context, rep *mon.Reporter, rng *mon.Rand) {
	depth := 2 + rng.Intn(3)
	useChain := rng.Bool()
	keys := make([]string, depth)
	for i := range keys {
		keys[i] = []string{"w", "step"}[rng.Intn(2)]
		if rng.Prob(0.25) {
			keys[i] = fmt.Sprintf("k%d", i) // sometimes a distinct key in between
		}
	}
	fail := compose.InvokableLambda(func(_ context.Context, in string) (string, error) {
		return "", fmt.Errorf("leaf wraps: %w", gspec.ErrSentinel)
	})
	pass := compose.InvokableLambda(func(_ context.Context, in string) (string, error) { return in + "+", nil })
	var want []string
	var build func(level int) (compose.AnyGraph, error)
	build = func(level int) (compose.AnyGraph, error) {
		if useChain {
			// chain: [pass, X] where X is the failing lambda (innermost) or the next chain; generated keys node_0, node_1
			ch := compose.NewChain[string, string]()
			ch.AppendLambda(pass)
			if level == depth-1 {
				ch.AppendLambda(fail)
			} else {
				inner, err := build(level + 1)
				if err != nil {
					return nil, err
				}
				ch.AppendGraph(inner)
			}
			return ch, nil
		}
		g := compose.NewGraph[string, string]()
		k := keys[level]
		var err error
		if level == depth-1 {
			err = g.AddLambdaNode(k, fail)
		} else {
			var inner compose.AnyGraph
			inner, err = build(level + 1)
			if err == nil {
				err = g.AddGraphNode(k, inner)
			}
		}
		if err != nil {
			return nil, err
		}
		if err = g.AddEdge(compose.START, k); err != nil {
			return nil, err
		}
		if err = g.AddEdge(k, compose.END); err != nil {
			return nil, err
		}
		return g, nil
	}
	top, err := build(0)
	if err != nil {
		rep.Violation(ID+"/build-error/same-key", err.Error(), nil)
		return
	}
	for level := 0; level < depth; level++ {
		if useChain {
			want = append(want, "node_1")
		} else {
			want = append(want, keys[level])
		}
	}
	var runErr error
	p := mon.Safe(func() {
		if useChain {
			r, err := top.(*compose.Chain[string, string]).Compile(ctx)
			if err != nil {
				runErr = fmt.Errorf("compile: %w", err)
				return
			}
			_, runErr = r.Invoke(ctx, "x")
		} else {
			r, err := top.(*compose.Graph[string, string]).Compile(ctx)
			if err != nil {
				runErr = fmt.Errorf("compile: %w", err)
				return
			}
			_, runErr = r.Invoke(ctx, "x")
		}
	})
	rep.AddEvaluations(1)
	rep.Count("same_key_runs", 1)
	wit := map[string]any{"chain": useChain, "keys": want}
	if p != nil || runErr == nil || strings.HasPrefix(runErr.Error(), "compile:") {
		rep.Violation(ID+"/same-key/unexpected-outcome", fmt.Sprint(p, runErr), wit)
		return
	}
	if !errors.Is(runErr, gspec.ErrSentinel) {
		rep.Violation(ID+"/not-unwrappable/errors.Is/same-key/"+wrapSite(runErr), runErr.Error(), wit)
		return
	}
	ms := pathRe.FindAllStringSubmatch(runErr.Error(), -1)
	got := "none"
	if len(ms) > 0 {
		got = ms[len(ms)-1][1]
	}
	if got != strings.Join(want, ", ") {
		kind := "graphs"
		if useChain {
			kind = "chains"
		}
		rep.Violation(ID+"/node-path/same-key-on-adjacent-levels/"+kind, fmt.Sprintf("the error names the path %q, the failing node's path is %q\n%s", got, strings.Join(want, ", "), runErr.Error()), wit)
		return
	}
	rep.Count("node_paths_checked", 1)
	rep.NonTrivial(fmt.Sprintf("samekey|%v|%v", useChain, want))
}
