package c13

import (
	"context"
	"errors"
	"fmt"
	"io"

	"github.com/cloudwego/eino/components/tool"
	"github.com/cloudwego/eino/compose"
	"github.com/cloudwego/eino/schema"

	"verifharness/internal/gspec"
	"verifharness/internal/mon"
)

// a tool that answers, fails with the sentinel, or panics, as told by its arguments
type faultTool struct {
	name     string
	streamed bool
}

func (t *faultTool) Info(context.Context) (*schema.ToolInfo, error) {
	return &schema.ToolInfo{Name: t.name, Desc: t.name}, nil
}

func (t *faultTool) act(args string) (string, error) {
	switch args {
	case "panic-string":
		panic("verif-tool-panic@" + t.name)
	case "panic-error":
		panic(fmt.Errorf("verif-tool-panic-error@%s: %w", t.name, gspec.ErrSentinel))
	case "panic-nil":
		var p *faultTool
		_ = p.name
	case "fail":
		return "", fmt.Errorf("tool %s wraps: %w", t.name, gspec.ErrSentinel)
	}
	return t.name + "(" + args + ")", nil
}

type invTool struct{ faultTool }

func (t *invTool) InvokableRun(_ context.Context, args string, _ ...tool.Option) (string, error) {
	return t.act(args)
}

type strTool struct{ faultTool }

func (t *strTool) StreamableRun(_ context.Context, args string, _ ...tool.Option) (*schema.StreamReader[string], error) {
	s, err := t.act(args)
	if err != nil {
		return nil, err
	}
	return schema.StreamReaderFromArray([]string{s[:1], s[1:]}), nil
}

// toolFaultCase: "a panic inside ... a tool call ... surfaces as an error of the run: it never kills the
// process, hangs the run, or is swallowed". 1-5 calls over invokable-only and streamable-only tools, one or
// two of which panic or fail; through the tools node alone and inside a graph; Invoke and Stream; each
// configuration is repeated (the calls of one message run concurrently).
func toolFaultCase(ctx context.Context, rep *mon.Reporter, rng *mon.Rand) {
	nt := 1 + rng.Intn(3)
	var tools []tool.BaseTool
	for i := 0; i < nt; i++ {
		ft := faultTool{name: fmt.Sprintf("t%d", i)}
		if rng.Bool() {
			tools = append(tools, &invTool{ft})
		} else {
			tools = append(tools, &strTool{ft})
		}
	}
	tn, err := compose.NewToolNode(ctx, &compose.ToolsNodeConfig{Tools: tools})
	if err != nil {
		rep.Violation(ID+"/tool/build-error", err.Error(), nil)
		return
	}
	g := compose.NewGraph[*schema.Message, []*schema.Message]()
	_ = g.AddToolsNode("tools", tn)
	_ = g.AddEdge(compose.START, "tools")
	_ = g.AddEdge("tools", compose.END)
	r, err := g.Compile(ctx)
	if err != nil {
		rep.Violation(ID+"/tool/build-error", err.Error(), nil)
		return
	}
	nc := 1 + rng.Intn(5)
	kinds := []string{"panic-string", "panic-error", "panic-nil", "fail"}
	args := make([]string, nc)
	for i := range args {
		args[i] = fmt.Sprintf("a%d", i)
	}
	v1 := rng.Intn(nc)
	args[v1] = kinds[rng.Intn(len(kinds))]
	if nc > 1 && rng.Intn(3) == 0 {
		args[rng.Intn(nc)] = kinds[rng.Intn(len(kinds))]
	}
	msg := &schema.Message{Role: schema.Assistant}
	for i, a := range args {
		msg.ToolCalls = append(msg.ToolCalls, schema.ToolCall{ID: fmt.Sprintf("c%d", i), Function: schema.FunctionCall{Name: fmt.Sprintf("t%d", rng.Intn(nt)), Arguments: a}})
	}
	wantSentinel := true
	for _, a := range args {
		if a == "panic-string" || a == "panic-nil" || a == "panic-error" {
			// a panic has to surface as an error; that the panic value can be unwrapped is not promised,
			// and which failure is reported when several calls fail is not specified
			wantSentinel = false
		}
	}
	for rep_ := 0; rep_ < 12; rep_++ {
		for _, via := range []string{"node", "graph"} {
			for _, stream := range []bool{false, true} {
				var outErr error
				var got int
				call := func() {
					collect := func(sr *schema.StreamReader[[]*schema.Message]) {
						defer sr.Close()
						for {
							c, err := sr.Recv()
							if err != nil {
								if err != io.EOF {
									outErr = err
								}
								return
							}
							got += len(c)
						}
					}
					switch {
					case via == "node" && !stream:
						var out []*schema.Message
						out, outErr = tn.Invoke(ctx, msg)
						got = len(out)
					case via == "node":
						sr, err := tn.Stream(ctx, msg)
						if err != nil {
							outErr = err
							return
						}
						collect(sr)
					case !stream:
						var out []*schema.Message
						out, outErr = r.Invoke(ctx, msg)
						got = len(out)
					default:
						sr, err := r.Stream(ctx, msg)
						if err != nil {
							outErr = err
							return
						}
						collect(sr)
					}
				}
				done := make(chan struct{})
				var p *mon.Panic
				go func() { defer close(done); p = mon.Safe(call) }()
				wres, dump := mon.WaitDone(done, 120e9)
				rep.AddEvaluations(1)
				rep.Count("tool_fault_runs", 1)
				wit := map[string]any{"tools": nt, "arguments": args, "via": via, "stream": stream}
				if wres == mon.Stuck {
					where, detail := gspec.StuckSignature(dump)
					rep.Violation(ID+"/tool/hang/"+where, detail, wit)
					return
				}
				if wres != mon.Finished {
					rep.Inconclusive("watchdog")
					return
				}
				if p != nil && via == "node" {
					// ToolsNode.Invoke/Stream called directly is not a run: the statement is about "an error of
					// the run"; the first call executes on the caller's goroutine and its panic is the caller's
					rep.Count("direct_tools_node_call_panicked_on_the_caller", 1)
					continue
				}
				if p != nil {
					rep.Violation(ID+"/tool/panic-escaped", fmt.Sprintf("a failing tool call made %s panic on the caller goroutine: %s\n%+v", via, p.Value, wit), wit)
					return
				}
				if outErr == nil {
					rep.Violation(ID+"/tool/failure-swallowed", fmt.Sprintf("tool calls with arguments %v (one panics or fails) through the %s (stream=%v): the call succeeded with %d tool messages\n%+v", args, via, stream, got, wit), wit)
					return
				}
				if wantSentinel && !errors.Is(outErr, gspec.ErrSentinel) {
					rep.Violation(ID+"/tool/not-unwrappable", fmt.Sprintf("errors.Is(err, sentinel) is false for %v\n%+v", outErr, wit), wit)
					return
				}
			}
		}
	}
	rep.NonTrivial(fmt.Sprintf("tool|%d|%v", nt, args))
}
