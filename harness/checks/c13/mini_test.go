package c13

// A small graph language built directly on eino's public API (no gspec): stages of lambda nodes / nested
// graphs wired all-to-all, every node string -> string (a node behind a wide stage reads the fan-in map or
// one key of it). The sub-workloads of midstream_test.go and wrap_test.go put one "active" node (a node that
// fails while it streams, a node whose stream converter panics, a node that runs another compiled runnable)
// at an arbitrary position of such a graph and judge what the run reports.

import (
	"context"
	"errors"
	"fmt"
	"io"
	"sort"
	"strings"
	"sync"
	"sync/atomic"

	"github.com/cloudwego/eino/compose"
	"github.com/cloudwego/eino/schema"

	"verifharness/internal/gspec"
	"verifharness/internal/mon"
)

// ---------------------------------------------------------------- spec

type mnode struct {
	Key    string  `json:"key"`
	Kind   string  `json:"kind"`             // I S C T: lambda of that native paradigm; G: nested graph; X: tools node (wrap workload)
	Chunks int     `json:"chunks,omitempty"` // S: number of output chunks
	Fwd    string  `json:"fwd,omitempty"`    // T: "convert" (lazy schema.StreamReaderWithConvert) | "pipe" (own goroutine forwarding through schema.Pipe)
	OnErr  string  `json:"on_err,omitempty"` // what the node's own code does with an error item of its input: C: "return" | "wrap"; T/pipe: "forward-stop" | "forward-go-on"
	OutKey string  `json:"out_key,omitempty"`
	InKey  string  `json:"in_key,omitempty"`
	Sub    *mgraph `json:"sub,omitempty"`
	Role   string  `json:"role,omitempty"` // "" healthy | victim | caller | leaf | canceller
}

type mgraph struct {
	Mode   string    `json:"mode"` // dag | pregel | chain | workflow
	Stages [][]mnode `json:"stages"`
	// BranchAfter[i] != "": stage i (one node) reaches the wide stage i+1 through a stream multi-branch that
	// selects every node of it; its condition reads the "first" chunk / "all" chunks of the stream
	BranchAfter map[int]string `json:"branch_after,omitempty"`
}

func (g *mgraph) walk(fn func(n *mnode, path []string, owner *mgraph), prefix []string) {
	for i := range g.Stages {
		for j := range g.Stages[i] {
			n := &g.Stages[i][j]
			p := append(append([]string(nil), prefix...), n.Key)
			fn(n, p, g)
			if n.Sub != nil {
				n.Sub.walk(fn, p)
			}
		}
	}
}

func (g *mgraph) pathOf(key string) []string {
	var out []string
	g.walk(func(n *mnode, path []string, _ *mgraph) {
		if n.Key == key {
			out = path
		}
	}, nil)
	return out
}

func (g *mgraph) shape() string {
	var sb strings.Builder
	sb.WriteString(g.Mode + "[")
	for i, st := range g.Stages {
		if i > 0 {
			if g.BranchAfter[i-1] != "" {
				sb.WriteString(" ?> ")
			} else {
				sb.WriteString(" > ")
			}
		}
		for j, n := range st {
			if j > 0 {
				sb.WriteString("|")
			}
			sb.WriteString(n.Kind)
			if n.Kind == "T" && n.Fwd != "" {
				sb.WriteString(n.Fwd[:1])
			}
			if n.Role != "" {
				sb.WriteString("*")
			}
			if n.InKey != "" {
				sb.WriteString("k")
			}
			if n.Sub != nil {
				sb.WriteString(n.Sub.shape())
			}
		}
	}
	sb.WriteString("]")
	return sb.String()
}

type mgenOpts struct {
	MaxStages int
	Wide      float64 // probability of a wide stage
	Nest      int     // nesting budget
	NestProb  float64
	Linear    bool // forced for chain / workflow
}

type mgen struct {
	r    *mon.Rand
	next int
}

func (mg *mgen) key(prefix string) string {
	mg.next++
	return fmt.Sprintf("%s%d", prefix, mg.next)
}

func (mg *mgen) lambda(inMap bool) mnode {
	r := mg.r
	n := mnode{Key: mg.key("n"), Kind: []string{"I", "S", "C", "T"}[r.Intn(4)]}
	switch n.Kind {
	case "S":
		n.Chunks = 1 + r.Intn(3)
	case "C":
		n.OnErr = []string{"return", "wrap"}[r.Intn(2)]
	case "T":
		n.Fwd = []string{"convert", "pipe"}[r.Intn(2)]
		if n.Fwd == "pipe" {
			n.OnErr = []string{"forward-stop", "forward-go-on"}[r.Intn(2)]
		}
	}
	return n
}

func (mg *mgen) graph(o mgenOpts, depth int) *mgraph {
	r := mg.r
	g := &mgraph{Mode: []string{"dag", "pregel", "dag", "pregel", "chain", "workflow"}[r.Intn(6)]}
	linear := o.Linear || g.Mode == "chain" || g.Mode == "workflow"
	ns := 1 + r.Intn(o.MaxStages)
	prevWide := false
	var prevKeys []string
	for s := 0; s < ns; s++ {
		w := 1
		if !linear && r.Prob(o.Wide) {
			w = 2 + r.Intn(3)
		}
		var st []mnode
		var keys []string
		for j := 0; j < w; j++ {
			var n mnode
			inMap := prevWide
			inKey := ""
			if prevWide && r.Prob(0.3) {
				inKey = prevKeys[r.Intn(len(prevKeys))]
				inMap = false
			}
			if !inMap && depth < o.Nest && r.Prob(o.NestProb) {
				n = mnode{Key: mg.key("g"), Kind: "G", Sub: mg.graph(o, depth+1)}
			} else {
				n = mg.lambda(inMap)
			}
			n.InKey = inKey
			if w > 1 {
				n.OutKey = fmt.Sprintf("o%d", j)
				keys = append(keys, n.OutKey)
			}
			st = append(st, n)
		}
		g.Stages = append(g.Stages, st)
		prevWide, prevKeys = w > 1, keys
	}
	if prevWide {
		n := mg.lambda(true)
		if r.Prob(0.3) {
			n.InKey = prevKeys[r.Intn(len(prevKeys))]
		}
		g.Stages = append(g.Stages, []mnode{n})
	}
	if g.Mode == "dag" || g.Mode == "pregel" {
		for i := 0; i+1 < len(g.Stages); i++ {
			if len(g.Stages[i]) == 1 && len(g.Stages[i+1]) > 1 && r.Prob(0.3) {
				if g.BranchAfter == nil {
					g.BranchAfter = map[int]string{}
				}
				g.BranchAfter[i] = []string{"first", "all"}[r.Intn(2)]
			}
		}
	}
	return g
}

// lambdas: every lambda node of the graph (any depth) with its path.
func (g *mgraph) lambdas() (ns []*mnode, paths [][]string) {
	g.walk(func(n *mnode, path []string, _ *mgraph) {
		if n.Kind != "G" && n.Kind != "X" {
			ns = append(ns, n)
			paths = append(paths, path)
		}
	}, nil)
	return
}

// ---------------------------------------------------------------- per-run control (travels in the context)

type mctlKey struct{}

type mctl struct {
	// plan of the victim
	Fault     string // mid-error | conv-panic
	Pos       int    // the error item / the panic comes at output position Pos (or at the end of the input, for a T victim)
	AndOn     bool   // the victim's stream goes on after the error item
	ErrKind   string // sentinel | custom
	PanicKind string // string | error | runtime
	Delivery  int    // capacity of the victim's pipe (0: unbuffered, a goroutine sends)

	mu      sync.Mutex
	raised  []error // error objects / panic markers the victim put on its stream
	escaped []string
	own     map[int]error
	inner   map[int]error
	cancels map[int]context.CancelFunc
	calls   int
}

func withMctl(ctx context.Context, c *mctl) context.Context {
	return context.WithValue(ctx, mctlKey{}, c)
}

func ctlOf(ctx context.Context) *mctl {
	c, _ := ctx.Value(mctlKey{}).(*mctl)
	if c == nil {
		return &mctl{}
	}
	return c
}

func (c *mctl) raise(err error) error {
	c.mu.Lock()
	c.raised = append(c.raised, err)
	c.mu.Unlock()
	return err
}

func (c *mctl) escape(where string, p *mon.Panic) {
	c.mu.Lock()
	c.escaped = append(c.escaped, where+": "+p.Value+"\n"+p.Stack)
	c.mu.Unlock()
}

func (c *mctl) snapshot() (raised []error, escaped []string) {
	c.mu.Lock()
	defer c.mu.Unlock()
	return append([]error(nil), c.raised...), append([]string(nil), c.escaped...)
}

// errors a node puts on its stream
var errMid = errors.New("verif: failure in the middle of a stream")

type midErr struct {
	Node  string
	cause error
}

func (e *midErr) Error() string {
	return "node " + e.Node + " failed while streaming: " + e.cause.Error()
}
func (e *midErr) Unwrap() error { return e.cause }

// ---------------------------------------------------------------- node bodies

func short(s string) string {
	if len(s) > 24 {
		return s[:24]
	}
	return s
}

func split(s string, n int) []string {
	if n < 1 {
		n = 1
	}
	for len(s) < n {
		s += "_"
	}
	var out []string
	for i := 0; i < n; i++ {
		out = append(out, s[i*len(s)/n:(i+1)*len(s)/n])
	}
	return out
}

func strOfString(s string) string { return s }

func strOfMap(m map[string]any) string {
	ks := make([]string, 0, len(m))
	for k := range m {
		ks = append(ks, k)
	}
	sort.Strings(ks)
	var sb strings.Builder
	for _, k := range ks {
		sb.WriteString(k + "=" + fmt.Sprint(m[k]) + ";")
	}
	return sb.String()
}

// recvSafe: Recv on a stream from a goroutine the node started itself; a panic raised inside Recv would kill
// the process there, so it is caught and recorded: the oracle reports it.
func recvSafe[T any](c *mctl, where string, sr *schema.StreamReader[T]) (v T, err error, panicked bool) {
	p := mon.Safe(func() { v, err = sr.Recv() })
	if p != nil {
		c.escape(where, p)
		return v, nil, true
	}
	return v, err, false
}

func readAll[In any](in *schema.StreamReader[In], str func(In) string) (string, error) {
	defer in.Close()
	var sb strings.Builder
	for {
		c, err := in.Recv()
		if err == io.EOF {
			return sb.String(), nil
		}
		if err != nil {
			return "", err
		}
		sb.WriteString(str(c))
	}
}

// itemsStream delivers chunks, with item err inserted before chunk errAt (errAt<0: none; errAt>=len: at the end).
func itemsStream(chunks []string, errAt int, item error, andOn bool, capacity int) *schema.StreamReader[string] {
	type it struct {
		s string
		e error
	}
	var items []it
	for i, ch := range chunks {
		if item != nil && i == errAt {
			items = append(items, it{"", item})
			if !andOn {
				break
			}
		}
		items = append(items, it{ch, nil})
	}
	if item != nil && errAt >= len(chunks) {
		items = append(items, it{"", item})
	}
	if capacity > 0 {
		sr, sw := schema.Pipe[string](len(items) + 1)
		for _, x := range items {
			sw.Send(x.s, x.e)
		}
		sw.Close()
		return sr
	}
	sr, sw := schema.Pipe[string](0)
	go func() {
		defer sw.Close()
		for _, x := range items {
			if sw.Send(x.s, x.e) {
				return
			}
		}
	}()
	return sr
}

func doPanic(kind, node string) {
	switch kind {
	case "error":
		panic(fmt.Errorf("verif-converter-panic-error@%s", node))
	case "runtime":
		var m map[string]int
		m[node] = 1
	}
	panic("verif-converter-panic@" + node)
}

// activeFn is the body of a caller / leaf node of the wrap workload: it gets the node's whole input and answers
// with the chunks to put out and, possibly, an error to return at call time or to deliver as an item.
type activeFn func(ctx context.Context, n *mnode, in string) (chunks []string, errAt int, item error, callErr error)

type menv struct {
	active map[string]activeFn // by node key
	tools  map[string]func() (compose.AnyGraph, error)
}

func mkLambda[In any](n *mnode, str func(In) string, env *menv) *compose.Lambda {
	key := n.Key
	out := func(in string) string { return key + "(" + short(in) + ")" }
	if fn := env.active[key]; fn != nil {
		return activeLambda(n, str, fn)
	}
	switch n.Role {
	case "victim":
		return victimLambda(n, str)
	}
	switch n.Kind {
	case "I":
		return compose.InvokableLambda(func(ctx context.Context, in In) (string, error) { return out(str(in)), nil })
	case "S":
		return compose.StreamableLambda(func(ctx context.Context, in In) (*schema.StreamReader[string], error) {
			return schema.StreamReaderFromArray(split(out(str(in)), n.Chunks)), nil
		})
	case "C":
		return compose.CollectableLambda(func(ctx context.Context, in *schema.StreamReader[In]) (string, error) {
			s, err := readAll(in, str)
			if err != nil {
				if n.OnErr == "wrap" {
					return "", fmt.Errorf("node %s could not read its input: %w", key, err)
				}
				return "", err
			}
			return out(s), nil
		})
	}
	// T
	if n.Fwd == "convert" {
		return compose.TransformableLambda(func(ctx context.Context, in *schema.StreamReader[In]) (*schema.StreamReader[string], error) {
			return schema.StreamReaderWithConvert(in, func(c In) (string, error) { return short(str(c)) + ".", nil }), nil
		})
	}
	return compose.TransformableLambda(func(ctx context.Context, in *schema.StreamReader[In]) (*schema.StreamReader[string], error) {
		c := ctlOf(ctx)
		// the buffer holds everything the node will ever send: a run that fails elsewhere abandons the stream
		// without closing it, and a goroutine parked in Send for the rest of the process would be the result
		sr, sw := schema.Pipe[string](64)
		go func() {
			defer in.Close()
			defer sw.Close()
			for {
				v, err, panicked := recvSafe(c, "forwarding goroutine of healthy node "+key, in)
				if panicked || err == io.EOF {
					return
				}
				if err != nil {
					if sw.Send("", err) || n.OnErr == "forward-stop" {
						return
					}
					continue
				}
				if sw.Send(short(str(v))+".", nil) {
					return
				}
			}
		}()
		return sr, nil
	})
}

// victimLambda: a Streamable / Transformable node that, as told by the run's control block, fails with an error
// item at some position of its output stream, or whose stream is built on a converter that panics.
func victimLambda[In any](n *mnode, str func(In) string) *compose.Lambda {
	key := n.Key
	mkItem := func(c *mctl) error {
		if c.ErrKind == "custom" {
			return c.raise(&midErr{Node: key, cause: errMid})
		}
		return c.raise(fmt.Errorf("node %s fails while streaming: %w", key, errMid))
	}
	if n.Kind == "S" {
		return compose.StreamableLambda(func(ctx context.Context, in In) (*schema.StreamReader[string], error) {
			c := ctlOf(ctx)
			chunks := split(key+"("+short(str(in))+")", n.Chunks)
			if c.Fault == "conv-panic" {
				var idx int32
				pos := c.Pos
				if pos >= len(chunks) {
					pos = len(chunks) - 1
				}
				return schema.StreamReaderWithConvert(schema.StreamReaderFromArray(chunks), func(s string) (string, error) {
					if int(atomic.AddInt32(&idx, 1))-1 == pos {
						c.raise(errors.New("panic"))
						doPanic(c.PanicKind, key)
					}
					return s, nil
				}), nil
			}
			return itemsStream(chunks, c.Pos, mkItem(c), c.AndOn, c.Delivery), nil
		})
	}
	return compose.TransformableLambda(func(ctx context.Context, in *schema.StreamReader[In]) (*schema.StreamReader[string], error) {
		c := ctlOf(ctx)
		if c.Fault == "conv-panic" {
			var fired int32
			inner := schema.StreamReaderWithConvert(in, func(v In) (string, error) {
				if atomic.CompareAndSwapInt32(&fired, 0, 1) {
					c.raise(errors.New("panic"))
					doPanic(c.PanicKind, key)
				}
				return short(str(v)) + ".", nil
			})
			if n.Fwd == "pipe" { // a second lazy layer above the panicking one
				return schema.StreamReaderWithConvert(inner, func(s string) (string, error) { return s + "'", nil }), nil
			}
			return inner, nil
		}
		if n.Fwd == "convert" {
			var fired int32
			return schema.StreamReaderWithConvert(in, func(v In) (string, error) {
				if atomic.CompareAndSwapInt32(&fired, 0, 1) {
					return "", mkItem(c)
				}
				return short(str(v)) + ".", nil
			}), nil
		}
		sr, sw := schema.Pipe[string](c.Delivery)
		go func() {
			defer in.Close()
			defer sw.Close()
			sent, failed := 0, false
			fail := func() bool {
				failed = true
				return sw.Send("", mkItem(c))
			}
			for {
				if !failed && sent == c.Pos {
					if fail() || !c.AndOn {
						return
					}
				}
				v, err, panicked := recvSafe(c, "forwarding goroutine of the failing node "+key, in)
				if panicked {
					return
				}
				if err == io.EOF {
					if !failed {
						fail()
					}
					return
				}
				if err != nil {
					if sw.Send("", err) {
						return
					}
					continue
				}
				if sw.Send(short(str(v))+".", nil) {
					return
				}
				sent++
			}
		}()
		return sr, nil
	})
}

// activeLambda: a lambda of the node's native paradigm around an activeFn.
func activeLambda[In any](n *mnode, str func(In) string, fn activeFn) *compose.Lambda {
	value := func(ctx context.Context, in string) (string, error) {
		chunks, _, item, callErr := fn(ctx, n, in)
		if callErr != nil {
			return "", callErr
		}
		if item != nil {
			return "", item
		}
		return strings.Join(chunks, ""), nil
	}
	stream := func(ctx context.Context, in string) (*schema.StreamReader[string], error) {
		chunks, errAt, item, callErr := fn(ctx, n, in)
		if callErr != nil {
			return nil, callErr
		}
		return itemsStream(chunks, errAt, item, false, 1), nil
	}
	switch n.Kind {
	case "I":
		return compose.InvokableLambda(func(ctx context.Context, in In) (string, error) { return value(ctx, str(in)) })
	case "S":
		return compose.StreamableLambda(func(ctx context.Context, in In) (*schema.StreamReader[string], error) {
			return stream(ctx, str(in))
		})
	case "C":
		return compose.CollectableLambda(func(ctx context.Context, in *schema.StreamReader[In]) (string, error) {
			s, err := readAll(in, str)
			if err != nil {
				return "", err
			}
			return value(ctx, s)
		})
	}
	return compose.TransformableLambda(func(ctx context.Context, in *schema.StreamReader[In]) (*schema.StreamReader[string], error) {
		s, err := readAll(in, str)
		if err != nil {
			return nil, err
		}
		return stream(ctx, s)
	})
}

// ---------------------------------------------------------------- build

func nodeOpts(n *mnode) []compose.GraphAddNodeOpt {
	var o []compose.GraphAddNodeOpt
	if n.OutKey != "" {
		o = append(o, compose.WithOutputKey(n.OutKey))
	}
	if n.InKey != "" {
		o = append(o, compose.WithInputKey(n.InKey))
	}
	return o
}

func compileOpts(g *mgraph) []compose.GraphCompileOption {
	if g.Mode == "dag" {
		return []compose.GraphCompileOption{compose.WithNodeTriggerMode(compose.AllPredecessor)}
	}
	return nil
}

func buildM(g *mgraph, env *menv) (compose.AnyGraph, error) {
	lambdaFor := func(n *mnode, inMap bool) *compose.Lambda {
		if inMap {
			return mkLambda(n, strOfMap, env)
		}
		return mkLambda(n, strOfString, env)
	}
	subFor := func(n *mnode) (compose.AnyGraph, []compose.GraphAddNodeOpt, error) {
		if n.Kind == "X" {
			sub, err := env.tools[n.Key]()
			return sub, nodeOpts(n), err
		}
		sub, err := buildM(n.Sub, env)
		return sub, append(nodeOpts(n), compose.WithGraphCompileOptions(compileOpts(n.Sub)...)), err
	}
	switch g.Mode {
	case "chain":
		ch := compose.NewChain[string, string]()
		for _, st := range g.Stages {
			n := &st[0]
			if n.Kind == "G" || n.Kind == "X" {
				sub, opts, err := subFor(n)
				if err != nil {
					return nil, err
				}
				ch.AppendGraph(sub, append(opts, compose.WithNodeKey(n.Key))...)
			} else {
				ch.AppendLambda(lambdaFor(n, false), compose.WithNodeKey(n.Key))
			}
		}
		return ch, nil
	case "workflow":
		wf := compose.NewWorkflow[string, string]()
		prev := compose.START
		for _, st := range g.Stages {
			n := &st[0]
			if n.Kind == "G" || n.Kind == "X" {
				sub, opts, err := subFor(n)
				if err != nil {
					return nil, err
				}
				wf.AddGraphNode(n.Key, sub, opts...).AddInput(prev)
			} else {
				wf.AddLambdaNode(n.Key, lambdaFor(n, false)).AddInput(prev)
			}
			prev = n.Key
		}
		wf.End().AddInput(prev)
		return wf, nil
	}
	gr := compose.NewGraph[string, string]()
	prevWide := false
	prev := []string{compose.START}
	for si, st := range g.Stages {
		var cur []string
		for j := range st {
			n := &st[j]
			var err error
			if n.Kind == "G" || n.Kind == "X" {
				var sub compose.AnyGraph
				var opts []compose.GraphAddNodeOpt
				if sub, opts, err = subFor(n); err == nil {
					err = gr.AddGraphNode(n.Key, sub, opts...)
				}
			} else {
				err = gr.AddLambdaNode(n.Key, lambdaFor(n, prevWide && n.InKey == ""), nodeOpts(n)...)
			}
			if err != nil {
				return nil, err
			}
			cur = append(cur, n.Key)
		}
		how := ""
		if si > 0 {
			how = g.BranchAfter[si-1]
		}
		if how != "" {
			targets := map[string]bool{}
			for _, c := range cur {
				targets[c] = true
			}
			all := how == "all"
			cond := func(ctx context.Context, sr *schema.StreamReader[string]) (map[string]bool, error) {
				defer sr.Close()
				chosen := map[string]bool{}
				for k := range targets {
					chosen[k] = true
				}
				for {
					_, err := sr.Recv()
					if err == io.EOF {
						return chosen, nil
					}
					if err != nil {
						return nil, err
					}
					if !all {
						return chosen, nil
					}
				}
			}
			if err := gr.AddBranch(prev[0], compose.NewStreamGraphMultiBranch(cond, targets)); err != nil {
				return nil, err
			}
		} else {
			for _, p := range prev {
				for _, c := range cur {
					if err := gr.AddEdge(p, c); err != nil {
						return nil, err
					}
				}
			}
		}
		prev, prevWide = cur, len(st) > 1
	}
	for _, p := range prev {
		if err := gr.AddEdge(p, compose.END); err != nil {
			return nil, err
		}
	}
	return gr, nil
}

func compileM(ctx context.Context, g *mgraph, env *menv, extra ...compose.GraphCompileOption) (r compose.Runnable[string, string], err error) {
	if env == nil {
		env = &menv{}
	}
	var ag compose.AnyGraph
	if p := mon.Safe(func() { ag, err = buildM(g, env) }); p != nil {
		return nil, fmt.Errorf("panic while building: %s", p.Value)
	}
	if err != nil {
		return nil, err
	}
	opts := append(compileOpts(g), extra...)
	if p := mon.Safe(func() {
		switch x := ag.(type) {
		case *compose.Graph[string, string]:
			r, err = x.Compile(ctx, opts...)
		case *compose.Chain[string, string]:
			r, err = x.Compile(ctx, opts...)
		case *compose.Workflow[string, string]:
			r, err = x.Compile(ctx, opts...)
		}
	}); p != nil {
		return nil, fmt.Errorf("panic while compiling: %s", p.Value)
	}
	return r, err
}

// ---------------------------------------------------------------- run

type mout struct {
	Err    error
	AtCall bool // the error was returned by the call (not read from the output stream)
	Out    string
	Panic  *mon.Panic
	Wait   mon.WaitResult
	Dump   []mon.G
}

// runM calls r in one of the four paradigms on the caller's own goroutine (guarded by the quiescence monitor);
// a stream result is read to its first error item or to EOF.
func runM(ctx context.Context, r compose.Runnable[string, string], para, in string, inChunks int, opts ...compose.Option) mout {
	var o mout
	read := func(sr *schema.StreamReader[string], err error) {
		if err != nil {
			o.Err, o.AtCall = err, true
			return
		}
		defer sr.Close()
		for {
			c, err := sr.Recv()
			if err == io.EOF {
				return
			}
			if err != nil {
				o.Err = err
				return
			}
			o.Out += c
		}
	}
	call := func() {
		switch para {
		case "I":
			o.Out, o.Err = r.Invoke(ctx, in, opts...)
			o.AtCall = o.Err != nil
		case "S":
			read(r.Stream(ctx, in, opts...))
		case "C":
			o.Out, o.Err = r.Collect(ctx, schema.StreamReaderFromArray(split(in, inChunks)), opts...)
			o.AtCall = o.Err != nil
		case "T":
			read(r.Transform(ctx, schema.StreamReaderFromArray(split(in, inChunks)), opts...))
		}
	}
	done := make(chan struct{})
	go func() { defer close(done); o.Panic = mon.Safe(call) }()
	o.Wait, o.Dump = mon.WaitDone(done, 120e9)
	if o.Wait != mon.Finished {
		return mout{Wait: o.Wait, Dump: o.Dump} // the run's goroutine may still write to o
	}
	return o
}

func stuckSig(dump []mon.G) (string, string) { return gspec.StuckSignature(dump) }

// pathSegments: the node paths named by an error message.
func pathSegments(err error) []string {
	var out []string
	for _, m := range pathRe.FindAllStringSubmatch(err.Error(), -1) {
		out = append(out, m[1])
	}
	return out
}

// judgePath: "" if some path named by the error is exactly want; otherwise a coarse description of what
// is named instead (part of the violation signature).
func judgePath(err error, want []string, isGraphNode func(key string) bool) (class string, got string) {
	w := strings.Join(want, ", ")
	segs := pathSegments(err)
	for _, s := range segs {
		if s == w {
			return "", s
		}
	}
	if len(segs) == 0 {
		return "no-path-at-all", "none"
	}
	for _, s := range segs {
		// want is a proper subsequence of the named path: nodes that do not lie on the way to the failing node are in it
		have := strings.Split(s, ", ")
		i := 0
		var extra []string
		for _, h := range have {
			if i < len(want) && h == want[i] {
				i++
			} else {
				extra = append(extra, h)
			}
		}
		if i == len(want) && len(extra) > 0 {
			if isGraphNode != nil && isGraphNode(extra[0]) {
				return "path-runs-through-a-nested-graph-that-only-handed-the-item-on", s
			}
			return "path-runs-through-the-node-that-read-the-item", s
		}
	}
	for _, s := range segs {
		if s != "" && strings.HasSuffix(w, ", "+s) {
			return "outer-nesting-levels-missing", s
		}
	}
	return "names-another-node", segs[len(segs)-1]
}
