// Package c12 is the runtime-monitoring check of property C12: "Checkpoint
// serialisation round-trips every supported value or fails loudly".
//
// A recursive, reflect-based generator builds values over ~90 statically
// declared registered types (among them structs with json tags, structs that
// embed exported and unexported struct types, eino's own schema.Message family
// and the input / output types of the built-in components) and reflect-built
// compositions of them (containers of containers, pointers to containers, named
// containers, arrays, interface- and pointer-keyed maps); every value goes
// through the real serializer (compose.VerifSerialize / VerifDeserialize) and is
// compared with the generator's ground truth. For a value inside the universe of
// the statement an error is a violation, outside of it an error is fine; a
// different value or a panic is a violation for every input (see NOTES.md,
// "Universe"). Sub-workloads: generated values (every third time message-typed)
// through a real interrupted and resumed graph with a byte-only checkpoint store
// (blackbox_test.go); typed graphs around every built-in component kind,
// interrupted before / after the component (components_test.go); values that
// share a reference (round trip due) and values that contain themselves (an error
// is the one acceptable outcome; cycle_test.go).
package c12

import (
	"fmt"
	"os"
	"reflect"
	"testing"

	"github.com/cloudwego/eino/schema"

	"verifharness/internal/mon"
)

type subWitness struct {
	Path    string `json:"path"`
	Type    string `json:"type"`
	Value   string `json:"value"`
	Outcome string `json:"outcome_on_its_own"`
	Why     string `json:"why,omitempty"`
}

type witness struct {
	Via     string      `json:"via"`
	Type    string      `json:"type"`
	Value   string      `json:"value"`
	Outcome string      `json:"outcome"`
	Why     string      `json:"why"`
	Minimal *subWitness `json:"minimal_failing_subvalue,omitempty"`
	Carrier *subWitness `json:"smallest_subvalue_with_same_outcome,omitempty"`
	Encoded string      `json:"encoded,omitempty"`
	Profile string      `json:"profile,omitempty"`
}

func mkWitness(via string, v any, res result, cl *classification) witness {
	w := witness{Via: via, Type: typeStr(v), Value: clip(renderAny(v), 1500), Outcome: res.class, Why: clip(res.why, 400), Encoded: clip(string(res.enc), 600)}
	if cl != nil {
		w.Minimal = &subWitness{Path: cl.minimal.path, Type: cl.minimal.v.Type().String(), Value: clip(render(cl.minimal.v, true), 600),
			Outcome: cl.minRes.class, Why: clip(cl.minRes.why, 300)}
		w.Carrier = &subWitness{Path: cl.carrier.path, Type: cl.carrier.v.Type().String(), Value: clip(render(cl.carrier.v, true), 600)}
	}
	return w
}

// genPair builds the same value twice from the same seed: one copy is handed to
// the code under test, the other one is the ground truth.
func genPair(seed uint64, p profile) (v, truth any, feats map[string]int) {
	g1 := newGen(mon.NewRand(seed), p)
	v = g1.top()
	g2 := newGen(mon.NewRand(seed), p)
	truth = g2.top()
	return v, truth, g1.feats
}

// genPairT: the same for a value of a given type.
func genPairT(seed uint64, p profile, t reflect.Type) (v, truth any) {
	g1 := newGen(mon.NewRand(seed), p)
	v = g1.value(t, 0).Interface()
	g2 := newGen(mon.NewRand(seed), p)
	truth = g2.value(t, 0).Interface()
	return v, truth
}

var (
	debug  = os.Getenv("C12_DEBUG") != ""
	stress = os.Getenv("C12_STRESS") != ""
)

func TestCheck(t *testing.T) {
	cfg := mon.Load("C12")
	rep := mon.NewReporter(cfg,
		"exploration",
		"each case = one PRNG-generated value (random type over ~90 registered types incl. structs with json tags, eino's schema.Message/Document family, named basics, pointers depth 0-3 with nil at any level, pointers to containers, slices, maps with 25 key types, containers of containers to nesting depth 4, any/custom-interface slots, reflect-built compositions; in switched cases also registered named slice/map types, arrays, interface- and pointer-keyed maps, unregistered named containers, unexported fields, invalid UTF-8, NaN; depth<=6, <=~90 nodes) sent through Marshal->copy->Unmarshal and compared with an independently generated identical twin; non-trivial = the encoder accepted it and it has >=3 nodes and at least one pointer, container or interface slot; distinct by rendered value. Every 10th (quick) / 25th (thorough) case additionally sends three generated values (every third time message-typed: []*schema.Message, *schema.Message, map[string]any of them) through a real interrupted+resumed graph (state set at start, state written by a node, pending node input) with a byte-only store. Third revision: structs that embed structs of exported / unexported types by value and by pointer, two deep, with shadowed and ambiguous names (the promoted exported fields are compared); every 20th / 50th case a typed graph START->[pre]->K->[post]->END around one of the 8 built-in component node kinds (loader, transformer, embedder, indexer, retriever, chat model, chat template, tools node; I/O types taken from the component interfaces by reflection) interrupted before or after K, Invoke or Stream, Pregel or all-predecessor, resumed from the byte-only store: what K / its successor receives and the final output must equal the generated values; every 16th / 40th case a value in which one pointer / slice / map occurs twice without containing itself (round trip due, also as state + pending input of one checkpoint); in a quarter of the shards every 8th / 20th case a value that contains itself (back edge set in a generated value, or one of 8 templates: tree with parent pointers, ring, slice / map holding itself through a pointer or an interface, slice holding its prefix, map reachable from its key, cycle through promoted fields), every 4th of them also through a real checkpoint: an error is the only acceptable outcome",
		[]string{
			"inside the stated universe (registered bool/number/valid-UTF-8 string/named basic types, registered structs with exported fields only, pointers at any depth incl. nil and incl. pointers to containers, unnamed slices, unnamed maps with a basic / named basic / registered struct key type, containers of containers, any / registered-interface fields and elements holding such values) every outcome but an exact round trip is a violation, an error included; outside of it (registered named slice/map types, arrays, interface- or pointer-typed map keys, complex, NaN/Inf, invalid UTF-8, unexported fields, unregistered types, chan/func, a nil interface at the top) an error is 'loud' and fine, a different value or a panic is a violation",
			"the set of registered types is known to the check statically: eino's builtin basics, what the check registers, and every type schema.Message / schema.Document are made of (documented by compose/checkpoint.go as registered by eino)",
			"the hooks compose.VerifSerialize/VerifDeserialize are plain aliases of internal/serialization.Marshal/Unmarshal",
			"not generated: types with custom MarshalJSON/MarshalText; map keys that are pointers are matched by what they point to",
			"a struct that embeds a struct of an unexported type is outside the universe (the embedded field itself is unexported): an error is fine, but without an error every field that an exported selector on the outer struct reaches (promoted fields, followed through nested embedded fields; not the hidden or ambiguous ones) must come back",
			"a value that contains itself is outside the universe and has exactly one acceptable outcome, an error; a process-fatal stack overflow is attributed by the driver to the running case (crash/fatal/<first eino frame>) and loses the shard's report, which is why such values are generated in a quarter of the shards only; the stack limit of the child is lowered to 48 MB while they are encoded",
			"the input / output types of the built-in component interfaces count as registered types (compose/checkpoint.go: 'all built-in eino types are already registered'); the fakes that implement the components record their input and return generated values; the tools node is eino's own, its expected output is taken from an uninterrupted run of the same graph",
			"floats are compared with == (so -0 equals +0); nil and empty containers are equal",
			"the generator's twin value is the ground truth (generation is a pure function of the seed; verified by comparing the twins before use)",
		},
		4000)
	defer func() {
		if err := rep.Flush(); err != nil {
			t.Fatalf("flush: %v", err)
		}
	}()
	if err := registerAll(); err != nil {
		rep.Inconclusive("type registration failed: " + err.Error())
		t.Fatalf("register: %v", err)
	}
	if err := registerBelow(); err != nil {
		rep.Inconclusive("type registration failed: " + err.Error())
		t.Fatalf("register: %v", err)
	}

	n := int64(cfg.Pick(20000, 800000))
	bbEvery := int64(cfg.Pick(10, 25))
	rep.Require("outcome/"+clsOK, 1000)
	rep.Require("bb/"+bbOK, 20)
	rep.Require("bb_store_sets", 20)
	rep.Require("bb_store_gets", 20)
	// the classes of the second revision must have been exercised
	rep.Require("values_inside_universe", 1000)
	rep.Require("containers_of_containers", 200)
	rep.Require("schema_structs/Message", 50)
	rep.Require("schema_structs/ChatMessagePart", 20)
	rep.Require("bb_message_cases", 10)
	rep.Require("values_outside_universe/named-container", 50)
	rep.Require("values_outside_universe/interface-key", 20)
	rep.Require("values_outside_universe/array", 20)
	rep.Require("generated/tagged-key-struct", 10)
	// ... and those of the third revision
	compEvery := int64(cfg.Pick(20, 50))
	aliasEvery := int64(cfg.Pick(16, 40))
	cycEvery := int64(cfg.Pick(8, 20))
	cyclic := cyclicShard(cfg)
	rep.Require("generated/soft:embedded-unexported", 100)
	rep.Require("values_outside_universe/embedded-unexported", 50)
	rep.Require("outside_outcome/embedded-unexported/"+clsOK, 20)
	rep.Require("comp_bb/"+bbOK, 50)
	rep.Require("comp_bb_store_gets", 50)
	for _, k := range compKinds {
		rep.Require("comp_bb_kind/"+k.name+"/before/"+bbOK, 1)
		rep.Require("comp_bb_kind/"+k.name+"/after/"+bbOK, 1)
	}
	rep.Require("component_io_types", 8)
	rep.Require("aliased/"+clsOK, 50)
	rep.Require("aliased_bb/"+bbOK, 10)
	rep.Require("cyc/loud-error", 50)
	rep.Require("cyc_bb/cases", 10)
	// named pointer types below containers and nil pointers (named_ptr_below_test.go)
	belowEvery := int64(cfg.Pick(25, 40))
	rep.Require("below/cases", 500)
	rep.Require("below/refused-by-Marshal", 200)
	rep.Require("below/round-tripped", 20)
	rep.Require("below/checkpoint-cases", 50)
	if cfg.Shard == 0 {
		rep.Count("component_io_types", int64(len(componentIOTypes)))
		for _, x := range componentIO {
			rep.Count("component_io/"+x.component+"."+x.method+"/"+x.dir+"/"+x.t.String(), 1)
		}
	}

	rep.Cases(n, func(idx int64, rng *mon.Rand) {
		if idx%50 == 7 {
			namedPointerCase(rep, rng.Sub("named-pointer"))
		}
		prof := newProfile(rng.Sub("profile"))
		if stress {
			// debugging aid: every case may combine all known-defect shapes with
			// loudly refused ones (maximises order-dependent decoder outcomes)
			prof.allowKnown, prof.allowPtrIface = true, true
		}
		seed := rng.Uint64()
		v, truth, feats := genPair(seed, prof)

		// the twins must be equal before anything touches them (generator sanity)
		if eq, why := twinsEqual(truth, v); !eq {
			rep.Inconclusive("generator twins differ (harness bug): " + why)
			return
		}
		before, odBefore := roundtrips, orderDependent
		res := roundtrip(v, truth)
		// the serializer must not modify its input
		if eq, why := twinsEqual(truth, v); !eq {
			rep.Violation("C12/input-mutated/Marshal", "the value handed to Marshal was modified: "+why, mkWitness("serializer", truth, res, nil))
		}

		rep.Count("outcome/"+res.class, 1)
		rep.Count("values", 1)
		for _, k := range mon.SortedKeys(feats) {
			rep.Count("generated/"+k, int64(feats[k]))
		}
		var st vstats
		if truth != nil {
			st.walk(reflect.ValueOf(truth), 0)
		}
		rep.Count("nodes", int64(st.nodes))
		rep.Count("pointers", int64(st.ptrs))
		rep.Count("nil_pointers", int64(st.nilPtrs))
		rep.Count("pointers_depth>=2", int64(st.deepPtrs))
		rep.Count("containers", int64(st.containers))
		rep.Count("interface_slots", int64(st.ifaceSlots))
		rep.Count("containers_of_containers", int64(st.nested))
		for _, k := range mon.SortedKeys(st.schema) {
			rep.Count("schema_structs/"+k, int64(st.schema[k]))
		}
		rep.Count("encoded_bytes", int64(len(res.enc)))
		rep.Count(fmt.Sprintf("depth/%d", min(st.maxDepth, 12)), 1)
		clean := len(feats) == 0
		if clean {
			rep.Count("clean_values", 1)
			rep.Count("clean_outcome/"+res.class, 1)
		}
		outside := valueIn(truth)
		if outside == "" {
			rep.Count("values_inside_universe", 1)
			rep.Count("inside_outcome/"+res.class, 1)
		} else {
			rep.Count("values_outside_universe/"+outside, 1)
			rep.Count("outside_outcome/"+outside+"/"+res.class, 1)
		}
		if res.class == clsEncErr || res.class == clsDecErr {
			// a loud refusal of a value outside the universe: its parts that are
			// inside the universe must still be handled on their own
			if part, pres := findInsideViolation(truth); part != nil {
				x := part.v.Interface()
				cl := classify(x, pres)
				w := mkWitness("serializer (part "+part.path+" of a refused value)", x, pres, &cl)
				rep.Violation(cl.signature, fmt.Sprintf("%s of a %s (inside the universe, part %s of a value that was refused as a whole): %s\n  value: %s",
					pres.class, typeStr(x), part.path, pres.why, clip(renderAny(x), 600)), w)
				rep.Count("violation_class/"+cl.signature, 1)
			}
			if debug {
				fmt.Printf("DEBUG soft %s (%s): %s\n   value: %s\n", res.class, outside, clip(res.why, 300), clip(renderAny(truth), 500))
			}
		}

		if res.violation() {
			cl := classify(truth, res)
			if debug && clean {
				fmt.Printf("DEBUG clean violation %s: %s\n   value: %s\n", cl.signature, clip(res.why, 300), clip(renderAny(truth), 800))
			}
			rep.Count("shrink_steps", int64(cl.steps))
			w := mkWitness("serializer", truth, res, &cl)
			w.Profile = fmt.Sprintf("%+v", prof)
			detail := fmt.Sprintf("%s of a %s: %s\n  minimal failing sub-value at %s: %s  (on its own: %s %s)\n  value: %s",
				res.class, typeStr(truth), res.why, cl.minimal.path, clip(render(cl.minimal.v, true), 300), cl.minRes.class, clip(cl.minRes.why, 200), clip(renderAny(truth), 600))
			rep.Violation(cl.signature, detail, w)
			rep.Count("violation_class/"+cl.signature, 1)
		}

		if res.class != clsEncErr && st.nodes >= 3 && st.ptrs+st.containers+st.ifaceSlots >= 1 {
			rep.NonTrivial(renderAny(truth))
		}
		rep.Distinct("shapes", shapeOf(truth))
		rep.Distinct("types", typeStr(truth))
		if idx < 3 {
			rep.Sample(map[string]any{"type": typeStr(truth), "value": clip(renderAny(truth), 400), "outcome": res.class})
		}

		if idx%bbEvery == 0 {
			blackBoxCase(rep, rng.Sub("blackbox"), prof)
		}
		// third revision: component graphs, shared references, values that contain themselves
		if idx%compEvery == 5 {
			componentCase(rep, rng.Sub("component"), prof)
		}
		if idx%aliasEvery == 3 {
			aliasedCase(rep, rng.Sub("aliased"))
		}
		if cyclic && idx%cycEvery == 7 {
			cyclicCase(rep, rng.Sub("cyclic"))
		}
		rep.AddEvaluations(roundtrips - before - 1)
		if idx%belowEvery == 11 {
			belowCase(rep, rng.Sub("named-pointer-below"))
		}
		rep.Count("decode_outcome_depends_on_map_order", orderDependent-odBefore)
	})
}

// blackBoxCase: three generated values through a real checkpoint.
func blackBoxCase(rep *mon.Reporter, rng *mon.Rand, prof profile) {
	// smaller values: the checkpoint carries three of them
	if prof.budget > 30 {
		prof.budget = 30
	}
	c := bbCase{dag: rng.Bool()}
	if rng.Intn(3) == 0 {
		// eino's own types: a conversation as state, a message written by the node,
		// a message (or several) as pending input
		rep.Count("bb_message_cases", 1)
		prof.allowSchema = true
		prof.maxDepth = max(prof.maxDepth, 4)
		prof.budget = max(prof.budget, 24)
		pick := func(ts ...reflect.Type) reflect.Type { return ts[rng.Intn(len(ts))] }
		c.stateV, c.tV = genPairT(rng.Uint64(), prof, pick(rt[[]*schema.Message](), rt[map[string][]*schema.Message](), rt[[]schema.Message](), rt[map[string]any]()))
		c.stateW, c.tW = genPairT(rng.Uint64(), prof, pick(rt[*schema.Message](), rt[schema.Message](), rt[*schema.ResponseMeta](), rt[[]*schema.Document](), rt[[]schema.ChatMessagePart]()))
		c.pendIn, c.tIn = genPairT(rng.Uint64(), prof, pick(rt[*schema.Message](), rt[[]*schema.Message](), rt[*schema.Message](), rt[map[string]any]()))
	} else {
		c.stateV, c.tV, _ = genPair(rng.Uint64(), prof)
		c.stateW, c.tW, _ = genPair(rng.Uint64(), prof)
		c.pendIn, c.tIn, _ = genPair(rng.Uint64(), prof)
	}
	for _, x := range []any{c.tV, c.tW, c.tIn} {
		var st vstats
		if x != nil {
			st.walk(reflect.ValueOf(x), 0)
		}
		for _, k := range mon.SortedKeys(st.schema) {
			rep.Count("bb_schema_structs/"+k, int64(st.schema[k]))
		}
	}
	if c.pendIn == nil {
		// a nil node output is not a value the graph can route; keep the slot used
		c.pendIn, c.tIn = "x", "x"
	}
	r := runBlackBox(c)
	rep.Count("bb/"+r.class, 1)
	rep.Count("bb_cases", 1)
	rep.Count("bb_store_sets", int64(r.sets))
	rep.Count("bb_store_gets", int64(r.gets))
	rep.Count("bb_checkpoint_bytes", int64(r.cpBytes))
	if c.dag {
		rep.Count("bb_mode/all-predecessor", 1)
	} else {
		rep.Count("bb_mode/pregel", 1)
	}
	values := []struct {
		name string
		v    any
	}{{"state.V", c.tV}, {"state.W", c.tW}, {"pending-input", c.tIn}}
	desc := fmt.Sprintf("state.V=%s | state.W=%s | pending-input=%s", clip(renderAny(c.tV), 300), clip(renderAny(c.tW), 300), clip(renderAny(c.tIn), 300))

	switch r.class {
	case bbOK:
		rep.NonTrivial("bb:" + desc)
	case bbFirstErr, bbResumeErr:
		// loud: fine, unless everything the checkpoint had to carry is inside the universe
		for _, x := range values {
			if x.v != nil && valueIn(x.v) != "" {
				rep.Count("bb_error_value_outside_universe", 1)
				return
			}
		}
		for _, x := range values {
			var tests []any
			if x.v != nil {
				tests = append(tests, x.v)
			}
			tests = append(tests, &bbState{V: x.v})
			for _, tv := range tests {
				res := roundtrip(tv, tv)
				if res.violation() {
					cl := classify(tv, res)
					w := mkWitness("checkpoint (black box, "+x.name+")", tv, res, &cl)
					rep.Violation(cl.signature, r.class+": "+r.why+"\n  "+desc, w)
					rep.Count("violation_class/bb:"+cl.signature, 1)
					return
				}
			}
		}
		at := "at-interrupt"
		if r.class == bbResumeErr {
			at = "at-resume"
		}
		rep.Violation("C12/blackbox/error-for-supported-value/"+at, r.class+": "+r.why+" although all three values are inside the universe and the serializer alone handles them\n  "+desc,
			map[string]any{"values": desc})
	case bbBuildErr, bbNoInterrupt:
		rep.Inconclusive("black-box graph did not behave as a harness expects: " + r.class + ": " + r.why)
	case bbDifferent:
		// which feature of the written value is responsible? ask the serializer alone
		res := roundtrip(r.want, r.want)
		if res.violation() {
			cl := classify(r.want, res)
			w := mkWitness("checkpoint (black box, "+r.slot+")", r.want, res, &cl)
			rep.Violation(cl.signature, "after interrupt+resume through a byte-only store "+r.why+"\n  "+desc, w)
			rep.Count("violation_class/bb:"+cl.signature, 1)
			return
		}
		slot := "state"
		if r.slot == "pending-input" {
			slot = "pending-input"
		}
		rep.Violation("C12/blackbox/different/"+slot, "after interrupt+resume through a byte-only store "+r.why+" although the serializer alone round-trips the value\n  "+desc,
			map[string]any{"slot": r.slot, "written": clip(renderAny(r.want), 1500)})
	case bbNotRestored:
		rep.Violation("C12/blackbox/not-restored", r.why+"\n  "+desc, map[string]any{"values": desc})
	case bbResumePanic, bbFirstPanic:
		for _, x := range values {
			wrapped := &bbState{V: x.v}
			ws, _ := mkSub(reflect.ValueOf(wrapped), "top", "$")
			res := ws.test()
			if res.violation() {
				cl := classify(wrapped, res)
				w := mkWitness("checkpoint (black box, "+x.name+")", x.v, res, &cl)
				rep.Violation("C12/"+res.group()+"/"+cl.class, r.class+": "+r.why+"\n  "+desc, w)
				return
			}
		}
		rep.Violation("C12/blackbox/"+r.class, r.why+" although the serializer alone handles all three values\n  "+desc, map[string]any{"values": desc})
	}
}
