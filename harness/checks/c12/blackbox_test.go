package c12

import (
	"context"
	"fmt"
	"sync"

	"github.com/cloudwego/eino/compose"

	"verifharness/internal/mon"
)

// byteStore keeps only bytes and copies them on Set and on Get, like a real
// external store: nothing of the live object graph can survive through it.
type byteStore struct {
	mu         sync.Mutex
	m          map[string][]byte
	sets, gets int
	bytes      int
}

func newByteStore() *byteStore { return &byteStore{m: map[string][]byte{}} }

func (s *byteStore) Get(_ context.Context, id string) ([]byte, bool, error) {
	s.mu.Lock()
	defer s.mu.Unlock()
	s.gets++
	b, ok := s.m[id]
	if !ok {
		return nil, false, nil
	}
	return append([]byte(nil), b...), true, nil
}

func (s *byteStore) Set(_ context.Context, id string, b []byte) error {
	s.mu.Lock()
	defer s.mu.Unlock()
	s.sets++
	s.bytes += len(b)
	s.m[id] = append([]byte(nil), b...)
	return nil
}

// bbCase: the three values that travel through the checkpoint.
//
//	state.V  set by the state generator at the start of the run
//	state.W  written by node a through ProcessState during the run
//	in(b)    output of node a = pending input of node b at the interrupt
type bbCase struct {
	dag                    bool
	stateV, stateW, pendIn any // handed to eino
	tV, tW, tIn            any // ground truth (independent identical copies)
}

type bbResult struct {
	class string // see the bb* constants
	why   string
	// which of the three values came back different ("" if none)
	slot     string
	want     any
	sets     int
	gets     int
	cpBytes  int
	observed bool // state modifier saw the restored state
}

const (
	bbOK            = "bb-resumed-ok"
	bbFirstErr      = "bb-error-at-interrupt" // checkpoint could not be written: loud
	bbNoInterrupt   = "bb-no-interrupt"       // harness problem
	bbResumeErr     = "bb-error-at-resume"    // loud
	bbResumePanic   = "bb-panic-at-resume"
	bbFirstPanic    = "bb-panic-at-interrupt"
	bbDifferent     = "bb-different"
	bbNotRestored   = "bb-not-restored" // resumed run did not observe state / input at all
	bbBuildErr      = "bb-build-error"
	bbStateModifier = "state-modifier"
)

func runBlackBox(c bbCase) bbResult {
	ctx := context.Background()
	store := newByteStore()

	var (
		obsModState *bbState // state seen by the StateModifier at resume
		obsNodeV    any      // state.V, state.W seen by node b after resume
		obsNodeW    any
		obsIn       any
		bRan        bool
		aRuns       int
	)

	g := compose.NewGraph[any, any](compose.WithGenLocalState(func(ctx context.Context) *bbState {
		return &bbState{V: c.stateV, N: 1}
	}))
	err := g.AddLambdaNode("a", compose.InvokableLambda(func(ctx context.Context, in any) (any, error) {
		aRuns++
		if e := compose.ProcessState[*bbState](ctx, func(_ context.Context, s *bbState) error {
			s.W = c.stateW
			s.N = 2
			return nil
		}); e != nil {
			return nil, e
		}
		return c.pendIn, nil
	}))
	if err == nil {
		err = g.AddLambdaNode("b", compose.InvokableLambda(func(ctx context.Context, in any) (any, error) {
			bRan = true
			obsIn = in
			if e := compose.ProcessState[*bbState](ctx, func(_ context.Context, s *bbState) error {
				obsNodeV, obsNodeW = s.V, s.W
				return nil
			}); e != nil {
				return nil, e
			}
			return "done", nil
		}))
	}
	if err == nil {
		err = g.AddEdge(compose.START, "a")
	}
	if err == nil {
		err = g.AddEdge("a", "b")
	}
	if err == nil {
		err = g.AddEdge("b", compose.END)
	}
	if err != nil {
		return bbResult{class: bbBuildErr, why: err.Error()}
	}
	opts := []compose.GraphCompileOption{compose.WithCheckPointStore(store), compose.WithInterruptAfterNodes([]string{"a"})}
	if c.dag {
		opts = append(opts, compose.WithNodeTriggerMode(compose.AllPredecessor))
	}
	r, err := g.Compile(ctx, opts...)
	if err != nil {
		return bbResult{class: bbBuildErr, why: err.Error()}
	}

	res := bbResult{}
	fill := func() bbResult {
		res.sets, res.gets, res.cpBytes = store.sets, store.gets, store.bytes
		return res
	}

	// run 1: must stop after a and write the checkpoint
	var err1 error
	if p := mon.Safe(func() { _, err1 = r.Invoke(ctx, "go", compose.WithCheckPointID("cp")) }); p != nil {
		res.class, res.why = bbFirstPanic, p.Value+" @ "+p.FirstFrame("github.com/cloudwego/eino/")
		return fill()
	}
	if err1 == nil {
		res.class, res.why = bbNoInterrupt, "first run finished without interrupt"
		return fill()
	}
	if _, ok := compose.ExtractInterruptInfo(err1); !ok {
		res.class, res.why = bbFirstErr, err1.Error()
		return fill()
	}
	if store.sets == 0 {
		res.class, res.why = bbNoInterrupt, "interrupt reported but nothing was written to the store"
		return fill()
	}

	// run 2: resume from the bytes in the store
	var err2 error
	var out any
	p := mon.Safe(func() {
		out, err2 = r.Invoke(ctx, "go", compose.WithCheckPointID("cp"),
			compose.WithStateModifier(func(ctx context.Context, path compose.NodePath, state any) error {
				if s, ok := state.(*bbState); ok {
					cp := *s
					obsModState = &cp
				}
				res.observed = true
				return nil
			}))
	})
	if p != nil {
		res.class, res.why = bbResumePanic, p.Value+" @ "+p.FirstFrame("github.com/cloudwego/eino/")
		return fill()
	}
	if err2 != nil {
		res.class, res.why = bbResumeErr, err2.Error()
		return fill()
	}
	outStr, _ := out.(string)
	if !bRan || !res.observed || obsModState == nil || aRuns != 1 || outStr != "done" {
		res.class = bbNotRestored
		res.why = fmt.Sprintf("resume finished but bRan=%v stateModifierCalled=%v stateIsBBState=%v aRuns=%d out=%v", bRan, res.observed, obsModState != nil, aRuns, out)
		return fill()
	}
	type chk struct {
		slot      string
		want, got any
	}
	for _, k := range []chk{
		{"state.V@" + bbStateModifier, c.tV, obsModState.V},
		{"state.W@" + bbStateModifier, c.tW, obsModState.W},
		{"state.V@node", c.tV, obsNodeV},
		{"state.W@node", c.tW, obsNodeW},
		{"pending-input", c.tIn, obsIn},
	} {
		if eq, _, why := cmpAny(k.want, k.got); !eq {
			res.class, res.slot, res.want = bbDifferent, k.slot, k.want
			res.why = k.slot + ": " + why
			return fill()
		}
	}
	if obsModState.N != 2 {
		res.class, res.slot = bbDifferent, "state.N"
		res.why = fmt.Sprintf("state.N: 2 vs %d", obsModState.N)
		return fill()
	}
	res.class = bbOK
	return fill()
}
