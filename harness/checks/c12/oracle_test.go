package c12

import (
	"fmt"
	"math"
	"reflect"
	"sort"
	"strconv"
	"strings"

	"github.com/cloudwego/eino/compose"

	"verifharness/internal/mon"
)

// ---------------------------------------------------------------------------
// normalising deep compare: nil == empty container, floats with ==, identical
// dynamic types at the top and in every interface position.
// ---------------------------------------------------------------------------

// cmpAny compares the generator's ground truth with what came back.
func cmpAny(want, got any) (equal, typeChanged bool, why string) {
	if want == nil || got == nil {
		if want == nil && got == nil {
			return true, false, ""
		}
		return false, true, fmt.Sprintf("$: want %s, got %s", typeStr(want), typeStr(got))
	}
	tw, tg := reflect.TypeOf(want), reflect.TypeOf(got)
	if tw != tg {
		return false, true, fmt.Sprintf("$: dynamic type changed: want %v, got %v", tw, tg)
	}
	ok, why := deepEq(reflect.ValueOf(want), reflect.ValueOf(got), "$")
	return ok, false, why
}

// twinMode is set only while the two generator twins are compared with each
// other (NaN, generated as an outside-universe value, equals NaN there). The
// comparison of a decoded value with the ground truth is always strict.
var twinMode bool

func twinsEqual(a, b any) (bool, string) {
	twinMode = true
	defer func() { twinMode = false }()
	eq, _, why := cmpAny(a, b)
	return eq, why
}

func typeStr(v any) string {
	if v == nil {
		return "<nil interface>"
	}
	return reflect.TypeOf(v).String()
}

func deepEq(w, g reflect.Value, path string) (bool, string) {
	if w.Type() != g.Type() {
		return false, fmt.Sprintf("%s: type %v vs %v", path, w.Type(), g.Type())
	}
	switch w.Kind() {
	case reflect.Bool:
		if w.Bool() != g.Bool() {
			return false, fmt.Sprintf("%s: %v vs %v", path, w.Bool(), g.Bool())
		}
	case reflect.Int, reflect.Int8, reflect.Int16, reflect.Int32, reflect.Int64:
		if w.Int() != g.Int() {
			return false, fmt.Sprintf("%s: %d vs %d", path, w.Int(), g.Int())
		}
	case reflect.Uint, reflect.Uint8, reflect.Uint16, reflect.Uint32, reflect.Uint64, reflect.Uintptr:
		if w.Uint() != g.Uint() {
			return false, fmt.Sprintf("%s: %d vs %d", path, w.Uint(), g.Uint())
		}
	case reflect.Float32, reflect.Float64:
		if math.IsNaN(w.Float()) && math.IsNaN(g.Float()) {
			// NaN for NaN is the round trip (== cannot say so). NaN is outside the stated universe, so an
			// error would be fine as well; where the encoder accepts it (the checkpoint of a component's
			// I/O value did, once in 27 M thorough evaluations) the decoded NaN is not "a different value".
			break
		}
		if w.Float() != g.Float() { // == : -0 equals +0
			return false, fmt.Sprintf("%s: %s vs %s", path, fl(w.Float()), fl(g.Float()))
		}
	case reflect.Complex64, reflect.Complex128:
		if w.Complex() != g.Complex() {
			return false, fmt.Sprintf("%s: complex differs", path)
		}
	case reflect.String:
		if w.String() != g.String() {
			return false, fmt.Sprintf("%s: %q vs %q", path, clip(w.String(), 80), clip(g.String(), 80))
		}
	case reflect.Ptr:
		if w.IsNil() != g.IsNil() {
			return false, fmt.Sprintf("%s: pointer nil=%v vs nil=%v (%v)", path, w.IsNil(), g.IsNil(), w.Type())
		}
		if !w.IsNil() {
			if cycleSeen != nil && seenPair(w, g) {
				return true, ""
			}
			return deepEq(w.Elem(), g.Elem(), path+".*")
		}
	case reflect.Interface:
		if w.IsNil() != g.IsNil() {
			return false, fmt.Sprintf("%s: interface nil=%v vs nil=%v", path, w.IsNil(), g.IsNil())
		}
		if !w.IsNil() {
			if w.Elem().Type() != g.Elem().Type() {
				return false, fmt.Sprintf("%s: dynamic type changed: want %v, got %v", path, w.Elem().Type(), g.Elem().Type())
			}
			return deepEq(w.Elem(), g.Elem(), path)
		}
	case reflect.Slice, reflect.Array:
		if w.Len() != g.Len() { // nil == empty
			return false, fmt.Sprintf("%s: len %d vs %d", path, w.Len(), g.Len())
		}
		if cycleSeen != nil && w.Kind() == reflect.Slice && w.Len() > 0 && seenPair(w, g) {
			return true, ""
		}
		for i := 0; i < w.Len(); i++ {
			if ok, why := deepEq(w.Index(i), g.Index(i), path+"["+strconv.Itoa(i)+"]"); !ok {
				return false, why
			}
		}
	case reflect.Map:
		if w.Len() != g.Len() { // nil == empty
			return false, fmt.Sprintf("%s: map len %d vs %d", path, w.Len(), g.Len())
		}
		if cycleSeen != nil && w.Len() > 0 && seenPair(w, g) {
			return true, ""
		}
		if keysHavePointers(w) || keysHavePointers(g) {
			// pointer identity cannot survive: keys are matched by what they point to
			wk, gk := sortedKeys(w), sortedKeys(g)
			for i := range wk {
				if ok, why := deepEq(wk[i], gk[i], path+"[key "+clip(render(wk[i], false), 40)+"]"); !ok {
					return false, why
				}
				if ok, why := deepEq(w.MapIndex(wk[i]), g.MapIndex(gk[i]), path+"["+clip(render(wk[i], false), 40)+"]"); !ok {
					return false, why
				}
			}
			break
		}
		for _, k := range sortedKeys(w) {
			gv := g.MapIndex(k)
			if !gv.IsValid() {
				return false, fmt.Sprintf("%s: key %s missing", path, render(k, false))
			}
			if ok, why := deepEq(w.MapIndex(k), gv, path+"["+clip(render(k, false), 40)+"]"); !ok {
				return false, why
			}
		}
	case reflect.Struct:
		for i := 0; i < w.NumField(); i++ {
			// unexported fields are not part of the value as far as the serializer is
			// concerned (eino's own checkpoint types rely on them being skipped)
			if f := w.Type().Field(i); f.PkgPath != "" && !twinMode {
				// ... but the exported fields that an embedded field of an unexported type
				// promotes are exported fields of this struct
				if f.Anonymous {
					if ok, why := promotedEq(w.Type(), w.Field(i), g.Field(i), []int{i}, path+"."+f.Name); !ok {
						return false, why
					}
				}
				continue
			}
			if ok, why := deepEq(w.Field(i), g.Field(i), path+"."+w.Type().Field(i).Name); !ok {
				return false, why
			}
		}
	case reflect.Chan, reflect.Func, reflect.UnsafePointer:
		if w.IsNil() != g.IsNil() || (!w.IsNil() && w.Pointer() != g.Pointer()) {
			return false, fmt.Sprintf("%s: %v not preserved", path, w.Kind())
		}
	default:
		return false, fmt.Sprintf("%s: kind %v not comparable", path, w.Kind())
	}
	return true, ""
}

// cycleSeen is non-nil only while values that may refer to themselves are compared
// (cyclic workload): a pair of references that is already being compared is equal
// as far as this path is concerned (isomorphism of the two graphs).
var cycleSeen map[[2]uintptr]bool

func seenPair(w, g reflect.Value) bool {
	k := [2]uintptr{w.Pointer(), g.Pointer()}
	if w.Kind() == reflect.Slice {
		k[0] ^= uintptr(w.Len()) << 48
	}
	if cycleSeen[k] {
		return true
	}
	cycleSeen[k] = true
	return false
}

func fl(f float64) string { return strconv.FormatFloat(f, 'g', -1, 64) }

func clip(s string, n int) string {
	if len(s) <= n {
		return s
	}
	return s[:n] + "…"
}

func sortedKeys(m reflect.Value) []reflect.Value {
	ks := m.MapKeys()
	rs := make([]string, len(ks))
	idx := make([]int, len(ks))
	for i, k := range ks {
		rs[i] = render(k, false)
		idx[i] = i
	}
	// ties (pointer keys whose pointees are equal) are broken by the value
	dup := map[string]bool{}
	tie := false
	for _, r := range rs {
		if dup[r] {
			tie = true
		}
		dup[r] = true
	}
	if tie {
		for i, k := range ks {
			rs[i] += "\x00" + render(m.MapIndex(k), true)
		}
	}
	sort.Slice(idx, func(a, b int) bool { return rs[idx[a]] < rs[idx[b]] })
	out := make([]reflect.Value, len(ks))
	for i, j := range idx {
		out[i] = ks[j]
	}
	return out
}

// keysHavePointers: the map has a pointer key type, or an interface key type
// and a key that holds a pointer.
func keysHavePointers(m reflect.Value) bool {
	switch m.Type().Key().Kind() {
	case reflect.Ptr:
		return true
	case reflect.Interface:
		for _, k := range m.MapKeys() {
			if !k.IsNil() && k.Elem().Kind() == reflect.Ptr {
				return true
			}
		}
	}
	return false
}

// ---------------------------------------------------------------------------
// canonical rendering (witnesses, digests) and shape digests
// ---------------------------------------------------------------------------

func tname(t reflect.Type) string { return strings.ReplaceAll(t.String(), "c12.", "") }

func renderAny(v any) string {
	if v == nil {
		return "nil"
	}
	return render(reflect.ValueOf(v), true)
}

// render prints v as a Go-like literal; withType forces the type to be spelled
// (top level and interface slots). Zero-valued struct fields are omitted.
func render(v reflect.Value, withType bool) string {
	var b strings.Builder
	renderTo(&b, v, withType)
	return b.String()
}

func renderTo(b *strings.Builder, v reflect.Value, withType bool) {
	t := v.Type()
	named := t.PkgPath() != ""
	scalar := func(s string) {
		if withType || named {
			b.WriteString(tname(t) + "(" + s + ")")
		} else {
			b.WriteString(s)
		}
	}
	switch v.Kind() {
	case reflect.Bool:
		scalar(strconv.FormatBool(v.Bool()))
	case reflect.Int, reflect.Int8, reflect.Int16, reflect.Int32, reflect.Int64:
		scalar(strconv.FormatInt(v.Int(), 10))
	case reflect.Uint, reflect.Uint8, reflect.Uint16, reflect.Uint32, reflect.Uint64, reflect.Uintptr:
		scalar(strconv.FormatUint(v.Uint(), 10))
	case reflect.Float32:
		f := v.Float()
		s := strconv.FormatFloat(f, 'g', -1, 32)
		if f == 0 && 1/f < 0 {
			s = "-0"
		}
		scalar(s)
	case reflect.Float64:
		f := v.Float()
		s := strconv.FormatFloat(f, 'g', -1, 64)
		if f == 0 && 1/f < 0 {
			s = "-0"
		}
		scalar(s)
	case reflect.Complex64, reflect.Complex128:
		scalar(fmt.Sprint(v.Complex()))
	case reflect.String:
		scalar(strconv.Quote(v.String()))
	case reflect.Ptr:
		if v.IsNil() {
			b.WriteString("(" + tname(t) + ")(nil)")
			return
		}
		b.WriteString("&")
		renderTo(b, v.Elem(), true)
	case reflect.Interface:
		if v.IsNil() {
			b.WriteString("nil")
			return
		}
		renderTo(b, v.Elem(), true)
	case reflect.Slice, reflect.Array:
		if v.Kind() == reflect.Slice && v.IsNil() {
			b.WriteString(tname(t) + "(nil)")
			return
		}
		b.WriteString(tname(t) + "{")
		for i := 0; i < v.Len(); i++ {
			if i > 0 {
				b.WriteString(", ")
			}
			renderTo(b, v.Index(i), false)
		}
		b.WriteString("}")
	case reflect.Map:
		if v.IsNil() {
			b.WriteString(tname(t) + "(nil)")
			return
		}
		b.WriteString(tname(t) + "{")
		for i, k := range sortedKeys(v) {
			if i > 0 {
				b.WriteString(", ")
			}
			renderTo(b, k, false)
			b.WriteString(": ")
			renderTo(b, v.MapIndex(k), false)
		}
		b.WriteString("}")
	case reflect.Struct:
		b.WriteString(tname(t) + "{")
		first := true
		for i := 0; i < v.NumField(); i++ {
			f := t.Field(i)
			if v.Field(i).IsZero() {
				continue
			}
			if !first {
				b.WriteString(", ")
			}
			first = false
			b.WriteString(f.Name + ": ")
			renderTo(b, v.Field(i), false)
		}
		b.WriteString("}")
	case reflect.Chan, reflect.Func:
		if v.IsNil() {
			b.WriteString("(" + tname(t) + ")(nil)")
		} else {
			b.WriteString("(" + tname(t) + ")(non-nil)")
		}
	default:
		b.WriteString("?" + v.Kind().String())
	}
}

// shape: the type structure with nil-ness and lengths, without scalar values.
func shape(v reflect.Value, b *strings.Builder, statics bool) {
	t := v.Type()
	switch v.Kind() {
	case reflect.Ptr:
		if v.IsNil() {
			b.WriteString("nil:" + tname(t))
			return
		}
		b.WriteString("&")
		shape(v.Elem(), b, true)
	case reflect.Interface:
		if v.IsNil() {
			b.WriteString("_")
			return
		}
		b.WriteString("i(")
		shape(v.Elem(), b, true)
		b.WriteString(")")
	case reflect.Slice, reflect.Array:
		if statics {
			b.WriteString(tname(t))
		}
		if v.Kind() == reflect.Slice && v.IsNil() {
			b.WriteString("~")
			return
		}
		b.WriteString("[")
		for i := 0; i < v.Len(); i++ {
			shape(v.Index(i), b, false)
			b.WriteString(",")
		}
		b.WriteString("]")
	case reflect.Map:
		if statics {
			b.WriteString(tname(t))
		}
		if v.IsNil() {
			b.WriteString("~")
			return
		}
		b.WriteString("{")
		for _, k := range sortedKeys(v) {
			shape(v.MapIndex(k), b, false)
			b.WriteString(",")
		}
		b.WriteString("}")
	case reflect.Struct:
		b.WriteString(tname(t) + "<")
		for i := 0; i < v.NumField(); i++ {
			if t.Field(i).PkgPath != "" {
				continue
			}
			k := t.Field(i).Type.Kind()
			if k == reflect.Ptr || k == reflect.Interface || k == reflect.Slice || k == reflect.Map || k == reflect.Struct {
				shape(v.Field(i), b, false)
				b.WriteString(";")
			}
		}
		b.WriteString(">")
	default:
		if statics {
			b.WriteString(tname(t))
		} else {
			b.WriteString(".")
		}
	}
}

func shapeOf(v any) string {
	if v == nil {
		return "nil"
	}
	var b strings.Builder
	shape(reflect.ValueOf(v), &b, true)
	return b.String()
}

// stats of a value tree (for the non-triviality rule and the evidence)
type vstats struct {
	nodes, ptrs, nilPtrs, deepPtrs, containers, ifaceSlots, structs, maxDepth int
	nested int            // containers whose element type is a container
	schema map[string]int // eino schema structs seen, by type name
}

func (s *vstats) walk(v reflect.Value, depth int) {
	s.nodes++
	if depth > s.maxDepth {
		s.maxDepth = depth
	}
	switch v.Kind() {
	case reflect.Ptr:
		s.ptrs++
		if d, _ := ptrDepth(v.Type()); d >= 2 {
			s.deepPtrs++
		}
		if v.IsNil() {
			s.nilPtrs++
			return
		}
		s.walk(v.Elem(), depth+1)
	case reflect.Interface:
		s.ifaceSlots++
		if !v.IsNil() {
			s.walk(v.Elem(), depth+1)
		}
	case reflect.Slice, reflect.Array:
		s.containers++
		if v.Type().Elem().Kind() == reflect.Slice || v.Type().Elem().Kind() == reflect.Map {
			s.nested++
		}
		for i := 0; i < v.Len(); i++ {
			s.walk(v.Index(i), depth+1)
		}
	case reflect.Map:
		s.containers++
		if v.Type().Elem().Kind() == reflect.Slice || v.Type().Elem().Kind() == reflect.Map {
			s.nested++
		}
		it := v.MapRange()
		for it.Next() {
			s.walk(it.Value(), depth+1)
		}
	case reflect.Struct:
		s.structs++
		if isSchemaType(v.Type()) {
			if s.schema == nil {
				s.schema = map[string]int{}
			}
			s.schema[v.Type().Name()]++
		}
		for i := 0; i < v.NumField(); i++ {
			if v.Type().Field(i).PkgPath == "" {
				s.walk(v.Field(i), depth+1)
			}
		}
	}
}

// ---------------------------------------------------------------------------
// one round trip through the real serializer
// ---------------------------------------------------------------------------

const (
	clsOK          = "roundtrip-ok"
	clsEncErr      = "encode-error"                 // loud refusal of a value outside the universe: fine
	clsDecErr      = "decode-error-after-encode-ok" // the same, at decode
	clsErrInside   = "error-for-supported-value"    // an error for a value inside the stated universe
	clsDifferent   = "different"
	clsPanicEncode = "panic-encode"
	clsPanicDecode = "panic-decode"
)

type result struct {
	class       string
	why         string
	typeChanged bool
	enc         []byte
	frame       string
	errAt       string // "encode" / "decode" when Marshal / Unmarshal returned an error
	outside     string // why the value is outside the stated universe ("" = inside)
}

func (r result) violation() bool {
	return r.class == clsDifferent || r.class == clsPanicEncode || r.class == clsPanicDecode || r.class == clsErrInside
}

// group: outcome class as it appears in the signature ("" for non-violations).
func (r result) group() string {
	switch r.class {
	case clsDifferent:
		return "different"
	case clsPanicDecode:
		return "panic"
	case clsPanicEncode:
		return "panic-encode"
	case clsErrInside:
		return clsErrInside
	}
	return ""
}

// family: panic | different | error ("" for non-violations)
func (r result) family() string {
	switch r.class {
	case clsDifferent:
		return "different"
	case clsPanicDecode, clsPanicEncode:
		return "panic"
	case clsErrInside:
		return "error"
	}
	return ""
}

// errResult: an error is acceptable only for a value the statement does not
// promise a round trip for.
func errResult(at string, err error, truth any, enc []byte) result {
	r := result{why: at + ": " + err.Error(), errAt: at, enc: enc, outside: valueIn(truth)}
	switch {
	case r.outside == "":
		r.class = clsErrInside
	case at == "encode":
		r.class = clsEncErr
	default:
		r.class = clsDecErr
	}
	return r
}

var roundtrips int64

// roundtrip encodes v with the real serializer, copies the bytes (a store only
// keeps bytes), decodes them and compares with truth (an independently built,
// identical value).
func roundtrip(v, truth any) result {
	roundtrips++
	var (
		b   []byte
		err error
	)
	if p := mon.Safe(func() { b, err = compose.VerifSerialize(v) }); p != nil {
		return result{class: clsPanicEncode, why: "Marshal panicked: " + p.Value, frame: p.FirstFrame("github.com/cloudwego/eino/")}
	}
	if err != nil {
		return errResult("encode", err, truth, nil)
	}
	res := decodeOnce(b, truth)
	// The decoder walks Go maps: when one field makes it return an error and a
	// sibling makes it panic (or come back different), the outcome depends on
	// the iteration order. An error is only accepted as the outcome when it is
	// the outcome of every attempt.
	if res.errAt == "decode" {
		for i := 0; i < decodeRetries; i++ {
			r2 := decodeOnce(b, truth)
			if r2.errAt != "decode" {
				orderDependent++
				r2.why += " (order dependent: other attempts on the same bytes returned the error: " + clip(res.why, 160) + ")"
				return r2
			}
		}
	}
	return res
}

const decodeRetries = 30

var orderDependent int64

func decodeOnce(b []byte, truth any) result {
	cp := append([]byte(nil), b...)
	var (
		got any
		err error
	)
	if p := mon.Safe(func() { got, err = compose.VerifDeserialize(cp) }); p != nil {
		return result{class: clsPanicDecode, why: "Unmarshal panicked: " + p.Value, enc: b, frame: p.FirstFrame("github.com/cloudwego/eino/")}
	}
	if err != nil {
		return errResult("decode", err, truth, b)
	}
	eq, tc, why := cmpAny(truth, got)
	if !eq {
		return result{class: clsDifferent, why: why, typeChanged: tc, enc: b}
	}
	return result{class: clsOK, enc: b}
}

// ---------------------------------------------------------------------------
// shrinking to a minimal failing sub-value and classification by its shape
// ---------------------------------------------------------------------------

type sub struct {
	v     reflect.Value // never of Kind Interface
	slot  string        // top | field | elem | mapvalue | mapkey | ptr
	typed bool          // the slot's static type is not an interface
	path  string
}

func mkSub(v reflect.Value, slot, path string) (sub, bool) {
	typed := true
	if v.Kind() == reflect.Interface {
		if v.IsNil() {
			return sub{}, false
		}
		v = v.Elem()
		typed = false
	}
	return sub{v: v, slot: slot, typed: typed, path: path}, true
}

func kids(s sub) []sub {
	var out []sub
	add := func(v reflect.Value, slot, path string) {
		if c, ok := mkSub(v, slot, path); ok {
			out = append(out, c)
		}
	}
	v := s.v
	switch v.Kind() {
	case reflect.Ptr:
		if !v.IsNil() {
			add(v.Elem(), "ptr", s.path+".*")
		}
	case reflect.Struct:
		for i := 0; i < v.NumField(); i++ {
			if v.Type().Field(i).PkgPath == "" {
				add(v.Field(i), "field", s.path+"."+v.Type().Field(i).Name)
			}
		}
	case reflect.Slice, reflect.Array:
		for i := 0; i < v.Len(); i++ {
			add(v.Index(i), "elem", s.path+"["+strconv.Itoa(i)+"]")
		}
	case reflect.Map:
		for _, k := range sortedKeys(v) {
			ks := clip(render(k, false), 30)
			add(v.MapIndex(k), "mapvalue", s.path+"["+ks+"]")
			add(k, "mapkey", s.path+"[key "+ks+"]")
		}
	}
	return out
}

// test runs the sub-value on its own. When the decoder returns an error the
// outcome may depend on the map iteration order inside the decoder (an
// erroring field next to a panicking one); the children are then tested on
// their own, which separates the two features: the sub-value counts as failing
// if one of its descendants fails on its own.
func (s sub) test() result {
	x := s.v.Interface()
	r := roundtrip(x, x)
	if r.errAt == "decode" {
		var firstDiff *result
		for _, k := range kids(s) {
			rk := k.test()
			if !rk.violation() || rk.class == clsErrInside {
				continue
			}
			if rk.class == clsDifferent && rk.typeChanged && k.typed && k.slot != "ptr" {
				// a value of the wrong type for a typed slot: that is what makes
				// the decoder panic when it reaches this child before the erroring one
				rk.class = clsPanicDecode
			}
			rk.typeChanged = false
			rk.why = "(in " + k.path + ") " + rk.why
			if rk.class != clsDifferent {
				return rk // a panic below wins over a silent difference below
			}
			if firstDiff == nil {
				c := rk
				firstDiff = &c
			}
		}
		if firstDiff != nil {
			return *firstDiff
		}
	}
	return r
}

// kindName: exact kind of a scalar (with a named- prefix for declared types),
// kind of everything else.
func kindName(t reflect.Type) string {
	k := t.Kind().String()
	switch t.Kind() {
	case reflect.Ptr, reflect.Interface, reflect.Struct, reflect.Slice, reflect.Map, reflect.Chan, reflect.Func:
		return k
	}
	if t.PkgPath() != "" {
		return "named-" + k
	}
	return k
}

// category: coarse class of a type (keeps the number of signatures of one
// defect small: basic | named-basic | struct | ptr | interface | slice | map).
func category(t reflect.Type) string {
	switch t.Kind() {
	case reflect.Ptr, reflect.Interface, reflect.Struct, reflect.Slice, reflect.Map, reflect.Chan, reflect.Func:
		return t.Kind().String()
	}
	if t.PkgPath() != "" {
		return "named-basic"
	}
	return "basic"
}

func keyCategory(t reflect.Type) string {
	switch t.Kind() {
	case reflect.String:
		return "string"
	case reflect.Int, reflect.Int8, reflect.Int16, reflect.Int32, reflect.Int64:
		return "int"
	case reflect.Uint, reflect.Uint8, reflect.Uint16, reflect.Uint32, reflect.Uint64, reflect.Uintptr:
		return "uint"
	case reflect.Float32, reflect.Float64:
		return "float"
	}
	return t.Kind().String()
}

// shapeClass names the feature of a minimal failing sub-value.
func shapeClass(v reflect.Value) string {
	t := v.Type()
	if v.Kind() == reflect.String && !validUTF8(v.String()) {
		return "invalid-utf8-string"
	}
	if _, base := ptrDepth(t); isSchemaType(base) {
		return "eino-schema-type"
	} else if isEinoType(base) {
		return "eino-component-type"
	}
	switch v.Kind() {
	case reflect.Ptr:
		d, base := ptrDepth(t)
		if v.IsNil() {
			if d >= 2 {
				return "nil-ptr-depth>=2"
			}
			return "nil-ptr-to-" + category(base)
		}
		e := v.Elem()
		if e.Kind() == reflect.Ptr && e.IsNil() {
			return "ptr-to-nil-ptr"
		}
		if isContainer(e.Type()) {
			if e.Type().Name() != "" {
				return "ptr-to-" + namedClass(e.Type())
			}
			return "ptr-to-container"
		}
		return "ptr-to-" + category(e.Type())
	case reflect.Struct:
		if c := embeddedClass(v); c != "" {
			return c
		}
		if hasUnexported(t) {
			return "struct-with-unexported-field"
		}
		if hasJSONTags(t) {
			return "tagged-struct"
		}
		return "struct"
	case reflect.Array:
		return "array"
	case reflect.Slice:
		if t.Name() != "" {
			return namedClass(t)
		}
		return "slice-of-" + category(t.Elem())
	case reflect.Map:
		if t.Name() != "" {
			return namedClass(t)
		}
		if t.Key().Kind() == reflect.Struct && hasJSONTags(t.Key()) {
			return "map-with-tagged-struct-key"
		}
		return "map-with-" + keyCategory(t.Key()) + "-key"
	}
	return kindName(t)
}

func namedClass(t reflect.Type) string {
	if !registeredSet[t] {
		return "unregistered-named-container"
	}
	return "named-container"
}

func hasUnexported(t reflect.Type) bool {
	for i := 0; i < t.NumField(); i++ {
		if t.Field(i).PkgPath != "" {
			return true
		}
	}
	return false
}

// errShapeClass names the feature of the smallest sub-value (of a value inside
// the universe) that the serializer refuses with an error.
func errShapeClass(v reflect.Value) string {
	t := v.Type()
	_, base := ptrDepth(t)
	if isSchemaType(base) {
		return "eino-schema-type"
	} else if isEinoType(base) {
		return "eino-component-type"
	}
	stripped := func(x reflect.Type) reflect.Type { _, b := ptrDepth(x); return b }
	switch v.Kind() {
	case reflect.Ptr:
		if v.IsNil() && isContainer(base) {
			// refused because of one of eino's own types among the element types
			// (the empty container of that type is refused too)?
			if leaf := leafType(base); isEinoType(leaf) && base.Name() == "" {
				var empty reflect.Value
				if base.Kind() == reflect.Slice {
					empty = reflect.MakeSlice(base, 0, 0)
				} else {
					empty = reflect.MakeMap(base)
				}
				x := empty.Interface()
				if r := roundtrip(x, x); r.class == clsErrInside {
					if isSchemaType(leaf) {
						return "eino-schema-type"
					}
					return "eino-component-type"
				}
			}
			return "nil-ptr-to-container"
		}
	case reflect.Slice, reflect.Map:
		// refused because of its type (an empty value of the type is refused too)?
		var empty reflect.Value
		if v.Kind() == reflect.Slice {
			empty = reflect.MakeSlice(t, 0, 0)
		} else {
			empty = reflect.MakeMap(t)
		}
		x := empty.Interface()
		if r := roundtrip(x, x); r.class == clsErrInside {
			// ... because of one of eino's own types among its element types
			for b := t.Elem(); ; b = b.Elem() {
				if isSchemaType(b) {
					return "eino-schema-type"
				} else if isEinoType(b) {
					return "eino-component-type"
				}
				if k := b.Kind(); k != reflect.Ptr && k != reflect.Slice && k != reflect.Map && k != reflect.Array {
					break
				}
			}
			if isContainer(stripped(t.Elem())) {
				return "container-of-containers"
			}
		}
	}
	return shapeClass(v)
}

// leafType: the type at the end of a chain of pointer / slice / array / map-value types.
func leafType(t reflect.Type) reflect.Type {
	for {
		switch t.Kind() {
		case reflect.Ptr, reflect.Slice, reflect.Array, reflect.Map:
			t = t.Elem()
		default:
			return t
		}
	}
}

type classification struct {
	signature string
	class     string
	minimal   sub    // smallest failing sub-value
	carrier   sub    // smallest sub-value with the same outcome class as the whole value
	minRes    result // outcome of the minimal sub-value on its own
	steps     int
}

// classify shrinks a failing value: first to the smallest sub-value that still
// fails with the same outcome family as the whole (the carrier), then further to
// the smallest sub-value that fails at all on its own. The class is derived from
// the shape of that minimal sub-value; for a panic whose minimal sub-value
// only "changes type" on its own, the slot in the carrier where the value sits
// (field / elem / mapvalue) is appended: that is where the decoder panics.
// An error for a value inside the universe is shrunk to the smallest sub-value
// that is refused on its own (step A only).
func classify(root any, rootRes result) classification {
	grp := rootRes.group()
	fam := rootRes.family()
	isPanic := fam == "panic"
	cur, _ := mkSub(reflect.ValueOf(root), "top", "$")
	steps := 0
	// step A
	for {
		var next *sub
		for _, k := range kids(cur) {
			k := k
			steps++
			r := k.test()
			if r.violation() && r.family() == fam {
				next = &k
				break
			}
		}
		if next == nil {
			break
		}
		cur = *next
	}
	carrier := cur
	minRes := rootRes
	if carrier.path != "$" {
		minRes = carrier.test()
	}
	if fam == "error" {
		cls := errShapeClass(cur.v)
		return classification{signature: "C12/" + grp + "/" + cls, class: cls, minimal: cur, carrier: carrier, minRes: minRes, steps: steps}
	}
	// step B
	firstSlot := ""
	for {
		// a panic is explained by a child in a typed slot that changes its type on
		// its own; inside such a type-changing chain only type-changing children
		// are followed (anything else that fails below is a different defect)
		followTypeChange := isPanic || (minRes.class == clsDifferent && minRes.typeChanged)
		var next *sub
		var nextRes result
		for _, k := range kids(cur) {
			k := k
			steps++
			r := k.test()
			if !r.violation() || r.class == clsErrInside {
				continue
			}
			if followTypeChange && !(r.class == clsDifferent && r.typeChanged && k.typed) {
				continue
			}
			next, nextRes = &k, r
			break
		}
		if next == nil {
			break
		}
		if firstSlot == "" {
			firstSlot = next.slot
		}
		cur, minRes = *next, nextRes
	}
	cls := shapeClass(cur.v)
	if isPanic && firstSlot != "" {
		cls += "-" + firstSlot
	}
	return classification{signature: "C12/" + grp + "/" + cls, class: cls, minimal: cur, carrier: carrier, minRes: minRes, steps: steps}
}

// findInsideViolation: the whole value is outside the universe and was refused
// with an error (fine). The parts of it that are inside the universe must still
// be handled on their own: the first such part that is refused (or panics, or
// comes back different) is returned.
func findInsideViolation(root any) (*sub, result) {
	if root == nil {
		return nil, result{}
	}
	cur, _ := mkSub(reflect.ValueOf(root), "top", "$")
	return insideViolation(cur)
}

func insideViolation(s sub) (*sub, result) {
	for _, k := range kids(s) {
		k := k
		if valueIn(k.v.Interface()) == "" {
			if r := k.test(); r.violation() {
				return &k, r
			}
			continue
		}
		if f, r := insideViolation(k); f != nil {
			return f, r
		}
	}
	return nil, result{}
}
