package c12

import (
	"reflect"
)

// ---------------------------------------------------------------------------
// Third part of the type universe: embedded structs (hunt/serialization-embedded).
//
// A struct that embeds another struct gets that struct's exported fields as
// promoted fields: they are exported fields of the outer struct (s.Steps), written
// by encoding/json like any other field. What the statement asks for, per shape:
//
//   - embedded *exported* registered struct type, by value or by pointer, nested,
//     with shadowed names (Embed, EmbExpV, EmbExpVV, EmbExpP, EmbExpPP, EmbIface):
//     the embedded field is itself an exported field; every field is reachable by
//     exported selectors. Inside the universe: a round trip is due.
//   - embedded struct of an *unexported* type, by value (EmbVal, EmbValH, EmbDeep,
//     EmbMidX, EmbWrap, EmbReg, EmbMix): the embedded field itself is an unexported
//     field, so the struct is not one "with exported fields" only: outside, an error
//     is acceptable. But its promoted exported fields are exported fields of the
//     outer struct: when no error is returned they must come back (a silent
//     difference never is acceptable). The compare therefore includes every field
//     that an exported selector on the outer struct reaches.
//   - embedded *pointer* to an unexported struct type (EmbPtr, EmbPtrNoExp, EmbMix):
//     as above; the decoder cannot allocate such a pointer by reflection, a loud
//     error is the expected outcome for a non-nil one. A non-nil pointer that comes
//     back nil (its promoted fields lost) is a violation.
//   - promoted fields that are hidden by a field of the same name at a smaller
//     depth (EmbShadow) or that are ambiguous (EmbAmb: two embedded structs with the
//     same field at the same depth) cannot be selected through the outer struct and
//     the embedded struct itself cannot be named from outside: like plain unexported
//     fields they are not compared; an error is acceptable.
//   - embedded unexported non-struct type (EmbNonStruct): a plain unexported field.
//   - embedded exported struct type that was never registered (EmbUnregExp):
//     outside (unregistered type), an error is expected.
// ---------------------------------------------------------------------------

// unexported helper types (never registered, apart from trailR)
type trail struct {
	Steps []string
	Owner string
}

type trailH struct {
	Note string
	hid  int
	P    *int
}

type inner struct {
	Deep string
	DI   any
}

type mid struct {
	inner
	M  int
	ML []NInt
}

type shadowT struct {
	Owner string
	Count int
	Only  string
}

type ambA struct {
	X     int
	OnlyA string
}

type ambB struct {
	X     int
	OnlyB string
}

type hiddenInt int

type ptrT struct {
	PV string
	PN *Leaf
}

type noExp struct {
	a int
	b string
}

type wrapL struct {
	*Leaf
	K int
}

type trailR struct {
	Reg string
	RM  map[string]int
}

// backRef: promoted slots that can hold a reference to the outer struct (used by
// the cyclic workload: a cycle that runs through promoted fields)
type backRef struct {
	Back any
	Up   *EmbCyc
}

// registered outer types

// EmbVal is the shape of the finding: struct{ trail; Count int }.
type EmbVal struct {
	trail
	Count int
}

type EmbValH struct {
	trailH
	Z string
}

// EmbDeep: nested two deep, both embedded types unexported.
type EmbDeep struct {
	mid
	Top string
}

// MidX is an exported, registered type that embeds an unexported one.
type MidX struct {
	inner
	MX string
}

type EmbMidX struct {
	MidX
	Q int
}

// EmbShadow: Owner and Count of shadowT are hidden by the outer fields (Count even
// with another type); Only is promoted.
type EmbShadow struct {
	shadowT
	Owner string
	Count NInt
}

// EmbShadow2: the same with the hiding fields declared before the embedded struct.
type EmbShadow2 struct {
	Owner string
	Count NInt
	shadowT
}

// EmbAmb: X is ambiguous (neither is promoted), OnlyA / OnlyB are promoted.
type EmbAmb struct {
	ambA
	ambB
	Y int
}

type EmbPtr struct {
	*ptrT
	N int
}

type EmbPtrNoExp struct {
	*noExp
	N int
}

type EmbNonStruct struct {
	hiddenInt
	V string
}

// EmbWrap: an unexported struct by value that embeds an exported struct by pointer:
// Leaf (depth 1), K (depth 1) and Leaf's fields (depth 2, through the pointer) are promoted.
type EmbWrap struct {
	wrapL
	Z int
}

type EmbReg struct {
	trailR
	C int
}

// exported embedded types, by pointer, nested twice
type EmbExpP struct {
	*Leaf
	T string
}

type EmbExpPP struct {
	*EmbExpP
	T2 string
}

// exported embedded types, by value, nested twice, names shadowed on both levels
type EmbExpV struct {
	Leaf
	S string // shadows Leaf.S
	I int    // shadows Leaf.I
}

type EmbExpVV struct {
	EmbExpV
	S   string // shadows EmbExpV.S and Leaf.S
	F64 NF64   // shadows Leaf.F64 with another type
}

// EmbIface: an embedded (exported, registered) interface type
type EmbIface struct {
	Shape
	N int
}

// EmbMix: everything at once
type EmbMix struct {
	trail
	*ptrT
	Leaf
	*KeyA
	A any
}

// UnregE is exported but never registered.
type UnregE struct{ A int }

type EmbUnregExp struct {
	UnregE
	N int
}

type EmbCyc struct {
	backRef
	N int
}

func gEmbedded(p profile) bool { return p.allowEmbedded }

// recursiveTypes: struct types that (transitively) contain a pointer to themselves;
// the generator ends such chains with nil once the budget is gone.
var recursiveTypes = map[reflect.Type]bool{}

// registerThird is called by registerMore (inside registerAll's sync.Once).
func registerThird() {
	reg[EmbVal]("c12_embval")
	reg[EmbValH]("c12_embvalh")
	reg[EmbDeep]("c12_embdeep")
	reg[MidX]("c12_midx")
	reg[EmbMidX]("c12_embmidx")
	reg[EmbShadow]("c12_embshadow")
	reg[EmbShadow2]("c12_embshadow2")
	reg[EmbAmb]("c12_embamb")
	reg[EmbPtr]("c12_embptr")
	reg[EmbPtrNoExp]("c12_embptrnoexp")
	reg[EmbNonStruct]("c12_embnonstruct")
	reg[EmbWrap]("c12_embwrap")
	reg[trailR]("c12_trailr")
	reg[EmbReg]("c12_embreg")
	reg[EmbExpP]("c12_embexpp")
	reg[EmbExpPP]("c12_embexppp")
	reg[EmbExpV]("c12_embexpv")
	reg[EmbExpVV]("c12_embexpvv")
	reg[EmbIface]("c12_embiface")
	reg[EmbMix]("c12_embmix")
	reg[EmbUnregExp]("c12_embunregexp")
	reg[EmbCyc]("c12_embcyc")
	reg[PNode]("c12_pnode")
	reg[Ring]("c12_ring")

	third := []typeInfo{
		{t: rt[EmbVal](), w: 10, gate: gEmbedded},
		{t: rt[EmbValH](), w: 5, gate: gEmbedded},
		{t: rt[EmbDeep](), w: 8, gate: gEmbedded},
		{t: rt[MidX](), w: 3, gate: gEmbedded},
		{t: rt[EmbMidX](), w: 6, gate: gEmbedded},
		{t: rt[EmbShadow](), w: 4, gate: gEmbedded},
		{t: rt[EmbShadow2](), w: 4, gate: gEmbedded},
		{t: rt[EmbAmb](), w: 4, gate: gEmbedded},
		{t: rt[EmbPtr](), w: 6, gate: gEmbedded},
		{t: rt[EmbPtrNoExp](), w: 3, gate: gEmbedded},
		{t: rt[EmbNonStruct](), w: 3, gate: gEmbedded},
		{t: rt[EmbWrap](), w: 6, gate: gEmbedded},
		{t: rt[EmbReg](), w: 4, gate: gEmbedded},
		{t: rt[EmbMix](), w: 6, gate: gEmbedded},
		{t: rt[EmbCyc](), w: 3, gate: gEmbedded},
		{t: rt[EmbUnregExp](), w: 2, gate: gEmbedded},
		// inside the universe (embedded exported registered types): always on
		{t: rt[EmbExpP](), w: 2},
		{t: rt[EmbExpPP](), w: 2},
		{t: rt[EmbExpV](), w: 2},
		{t: rt[EmbExpVV](), w: 2},
		{t: rt[EmbIface](), w: 2},
		{t: rt[PNode](), w: 2},
		{t: rt[Ring](), w: 2},
	}
	structTypes = append(structTypes, third...)
	for _, ti := range third {
		registeredSet[ti.t] = true
	}
	registeredSet[rt[trailR]()] = true
	for _, t := range []reflect.Type{rt[Nested](), rt[Tree](), rt[PNode](), rt[Ring](), rt[EmbCyc]()} {
		recursiveTypes[t] = true
	}
	registerComponents()
}

// ---------------------------------------------------------------------------
// what an exported selector on the outer struct reaches through embedded fields of
// unexported types
// ---------------------------------------------------------------------------

func indexEq(a, b []int) bool {
	if len(a) != len(b) {
		return false
	}
	for i := range a {
		if a[i] != b[i] {
			return false
		}
	}
	return true
}

// hasPromotable: the struct type has an exported field, or promotes one from an
// embedded field of an unexported type.
func hasPromotable(t reflect.Type) bool {
	if t.Kind() == reflect.Ptr {
		t = t.Elem()
	}
	if t.Kind() != reflect.Struct {
		return false
	}
	for i := 0; i < t.NumField(); i++ {
		f := t.Field(i)
		if f.PkgPath == "" {
			return true
		}
		if f.Anonymous && hasPromotable(f.Type) {
			return true
		}
	}
	return false
}

// promotedEq compares what outer promotes from the embedded field we / ge (of an
// unexported type, reached through index): the exported fields that the selector
// outer.Name resolves to; embedded fields of unexported types below are followed.
func promotedEq(outer reflect.Type, we, ge reflect.Value, index []int, path string) (bool, string) {
	et := we.Type()
	if et.Kind() == reflect.Ptr {
		if et.Elem().Kind() != reflect.Struct || !hasPromotable(et.Elem()) {
			return true, "" // nothing of it is visible from outside
		}
		if we.IsNil() != ge.IsNil() {
			return false, path + ": embedded pointer (" + et.String() + ") nil=" + boolStr(we.IsNil()) + " vs nil=" + boolStr(ge.IsNil()) + ": its promoted fields are lost"
		}
		if we.IsNil() {
			return true, ""
		}
		we, ge, et = we.Elem(), ge.Elem(), et.Elem()
	}
	if et.Kind() != reflect.Struct {
		return true, ""
	}
	for j := 0; j < et.NumField(); j++ {
		f := et.Field(j)
		idx := append(append([]int(nil), index...), j)
		if f.PkgPath != "" {
			if f.Anonymous {
				if ok, why := promotedEq(outer, we.Field(j), ge.Field(j), idx, path+"."+f.Name); !ok {
					return false, why
				}
			}
			continue
		}
		sf, ok := outer.FieldByName(f.Name)
		if !ok || !indexEq(sf.Index, idx) {
			continue // hidden or ambiguous: not reachable through the outer struct
		}
		if ok, why := deepEq(we.Field(j), ge.Field(j), path+"."+f.Name+"(promoted)"); !ok {
			return false, why
		}
	}
	return true, ""
}

func boolStr(b bool) string {
	if b {
		return "true"
	}
	return "false"
}

// embeddedClass names the embedded-field feature of a struct value: "" if it has no
// embedded field of an unexported type that carries data an exported selector reaches.
func embeddedClass(v reflect.Value) string {
	t := v.Type()
	cls := ""
	for i := 0; i < t.NumField(); i++ {
		f := t.Field(i)
		if f.PkgPath == "" || !f.Anonymous {
			continue
		}
		switch {
		case f.Type.Kind() == reflect.Struct && hasPromotable(f.Type) && !v.Field(i).IsZero():
			return "embedded-unexported-struct"
		case f.Type.Kind() == reflect.Ptr && hasPromotable(f.Type) && !v.Field(i).IsNil():
			cls = "embedded-unexported-ptr"
		}
	}
	return cls
}

// hasEmbeddedUnexported: the struct type embeds a field of an unexported type.
func hasEmbeddedUnexported(t reflect.Type) bool {
	for i := 0; i < t.NumField(); i++ {
		if f := t.Field(i); f.PkgPath != "" && f.Anonymous {
			return true
		}
	}
	return false
}
