package c12

import (
	"fmt"
	"reflect"
	"sync"

	"github.com/cloudwego/eino/compose"
)

// ---------------------------------------------------------------------------
// The statically declared, registered type universe of the check.
// Every struct has exported fields only (unexported fields are outside the
// stated universe). Types that can only be filled with a value of a known
// defect class (D-C12) are marked in typeInfo so that the generator can keep
// them out of the "clean" cases.
// ---------------------------------------------------------------------------

// named basic types
type (
	NInt  int
	NStr  string
	NBool bool
	NF64  float64
	NF32  float32
	NU8   uint8
	NI64  int64
	NU64  uint64
)

// UnitSq is a named basic type with a method (implements Shape).
type UnitSq float64

func (u UnitSq) Area() float64 { return float64(u) * float64(u) }

// Shape is a registered custom interface.
type Shape interface{ Area() float64 }

type Circle struct{ R float64 }

func (c Circle) Area() float64 { return 3 * c.R * c.R }

type Rect struct {
	W, H float64
	Tag  *string
}

func (r *Rect) Area() float64 { return r.W * r.H }

// struct types usable as map keys (comparable, basic leaves only)
type KeyA struct {
	A int
	B string
}

type KeyB struct {
	X  NStr
	Y  bool
	Z  uint16
	In KeyA
	F  float64
}

type Empty struct{}

type Leaf struct {
	B   bool
	I   int
	I8  int8
	I16 int16
	I32 int32
	I64 int64
	U   uint
	U8  uint8
	U16 uint16
	U32 uint32
	U64 uint64
	F32 float32
	F64 float64
	S   string
	Up  uintptr
}

type Named struct {
	A  NInt
	B  NStr
	C  NBool
	D  NF64
	E  NF32
	F  NU8
	G  NI64
	H  NU64
	PA *NInt
	PB *NStr
	SA []NStr
	SD []NF64
	MA map[NStr]NInt
	MB map[NU8]NBool
	Q  UnitSq
}

// Ptr1: only pointers of depth 1.
type Ptr1 struct {
	P  *int
	Q  *string
	R  *Leaf
	S  *bool
	T  *float64
	U  *uint64
	N  *NStr
	E  *Empty
	K  *KeyA
	I8 *int8
}

// PtrDeep: pointers of depth 2 and 3 (nil at any level is a D-C12 shape).
type PtrDeep struct {
	P2  **int
	P3  ***string
	PS2 **Leaf
	PN2 **NF64
	PB2 **bool
	PK3 ***KeyA
}

// PtrCont: pointers to containers (non-nil: D-C12 shape; nil: loud error).
type PtrCont struct {
	X  int
	PS *[]int
	PM *map[string]int
}

type PtrCont2 struct {
	S   string
	PA  *[]any
	PPS **[]string
	PMK *map[KeyA]*Leaf
}

// PtrIface: pointers to interface-typed variables.
type PtrIface struct {
	N int
	P *any
	Q *Shape
	R **any
}

type Slices struct {
	I   []int
	S   []string
	By  []byte
	F   []float64
	F3  []float32
	Bo  []bool
	L   []Leaf
	PL  []*Leaf
	A   []any
	PI  []*int
	PS  []*string
	N   []NInt
	U64 []uint64
	I64 []int64
	Sh  []Shape
	E   []Empty
}

// SlicesDeep: slices whose elements are pointers of depth >= 2.
type SlicesDeep struct {
	PPI []**int
	PPL []**Leaf
	P3S []***string
}

// Maps: key types a JSON decoder accepts as object keys (strings, integers).
type Maps struct {
	SI  map[string]int
	IS  map[int]string
	NL  map[NStr]Leaf
	SA  map[string]any
	U8N map[uint8]NInt
	I6  map[int64]*string
	U6  map[uint64]bool
	I8  map[int8]int16
	NIS map[NInt]Shape
	SS  map[string]string
	SP  map[string]*Leaf
	U3  map[uint32]NStr
}

// MapsX: bool, float and struct keys. (A nil pointer to a struct that contains
// such a map is refused by the decoder: loud.)
type MapsX struct {
	BF  map[bool]float64
	KP  map[KeyA]*Leaf
	FS  map[float64]string
	KBA map[KeyB]any
	F3  map[float32]uint32
	NB  map[NBool]NU64
	EK  map[Empty]int
	NF  map[NF64]NStr
}

// MapsDeep: map values that are pointers of depth >= 2.
type MapsDeep struct {
	SPP map[string]**int
	IPL map[int]**Leaf
}

type Ifaces struct {
	A  any
	B  any
	S  []any
	M  map[string]any
	MI map[int]any
	Sh Shape
	C  any
}

type Tree struct {
	V    any
	L, R *Tree
}

type Embed struct {
	Leaf
	S string // shadows Leaf.S
	*Ptr1
	Empty
	X NInt
}

type Nested struct {
	L      Leaf
	N      Named
	P      Ptr1
	Sl     Slices
	M      Maps
	I      Ifaces
	Self   *Nested
	Kids   []*Nested
	ByName map[string]*Nested
	E      Embed
	T      *Tree
}

// bbState is the graph state of the black-box sub-workload.
type bbState struct {
	V any
	W any
	N int
}

// ---- types outside the stated universe (must give an error or an exact round trip)

type Unreg struct{ A int } // never registered

type ChanHolder struct {
	A int
	C chan int
}

type FuncHolder struct {
	F func()
	S string
}

type CplxHolder struct {
	C  complex128
	C6 complex64
}

type UnregInside struct {
	A int
	U Unreg
}

// ---------------------------------------------------------------------------

type typeInfo struct {
	t reflect.Type
	// gate: the type is only chosen when the profile allows it (nil: always)
	gate func(profile) bool
	// deep: has pointer fields/elements of depth >= 2 (nil there is a D-C12 shape;
	// the clean cases fill them with non-nil chains).
	deep bool
	// weight in the type choice (big types are chosen less often)
	w int
}

var (
	regOnce sync.Once
	regErr  error

	basicTypes   []reflect.Type // builtin basic kinds
	namedTypes   []reflect.Type // registered named basic types
	structTypes  []typeInfo     // registered structs
	keyTypes     []reflect.Type // types usable as map keys
	outsideTypes []reflect.Type // outside the universe
	shapeImpls   []reflect.Type // dynamic types that implement Shape

	anyType   = reflect.TypeOf((*any)(nil)).Elem()
	shapeType = reflect.TypeOf((*Shape)(nil)).Elem()
)

func rt[T any]() reflect.Type { return reflect.TypeOf((*T)(nil)).Elem() }

func reg[T any](name string) {
	if regErr != nil {
		return
	}
	if err := compose.RegisterSerializableType[T](name); err != nil {
		regErr = fmt.Errorf("register %s: %w", name, err)
	}
}

// registerAll registers the static universe exactly once per process.
func registerAll() error {
	regOnce.Do(func() {
		reg[NInt]("c12_nint")
		reg[NStr]("c12_nstr")
		reg[NBool]("c12_nbool")
		reg[NF64]("c12_nf64")
		reg[NF32]("c12_nf32")
		reg[NU8]("c12_nu8")
		reg[NI64]("c12_ni64")
		reg[NU64]("c12_nu64")
		reg[UnitSq]("c12_unitsq")
		reg[Shape]("c12_shape")
		reg[Circle]("c12_circle")
		reg[Rect]("c12_rect")
		reg[KeyA]("c12_keya")
		reg[KeyB]("c12_keyb")
		reg[Empty]("c12_empty")
		reg[Leaf]("c12_leaf")
		reg[Named]("c12_named")
		reg[Ptr1]("c12_ptr1")
		reg[PtrDeep]("c12_ptrdeep")
		reg[PtrCont]("c12_ptrcont")
		reg[PtrCont2]("c12_ptrcont2")
		reg[PtrIface]("c12_ptriface")
		reg[Slices]("c12_slices")
		reg[SlicesDeep]("c12_slicesdeep")
		reg[Maps]("c12_maps")
		reg[MapsX]("c12_mapsx")
		reg[MapsDeep]("c12_mapsdeep")
		reg[Ifaces]("c12_ifaces")
		reg[Tree]("c12_tree")
		reg[Embed]("c12_embed")
		reg[Nested]("c12_nested")
		reg[bbState]("c12_bbstate")
		// registered, but with a field the serializer cannot represent
		reg[ChanHolder]("c12_chanholder")
		reg[FuncHolder]("c12_funcholder")
		reg[CplxHolder]("c12_cplxholder")
		reg[UnregInside]("c12_unreginside")

		basicTypes = []reflect.Type{
			rt[bool](), rt[int](), rt[int8](), rt[int16](), rt[int32](), rt[int64](),
			rt[uint](), rt[uint8](), rt[uint16](), rt[uint32](), rt[uint64](), rt[uintptr](),
			rt[float32](), rt[float64](), rt[string](),
		}
		namedTypes = []reflect.Type{
			rt[NInt](), rt[NStr](), rt[NBool](), rt[NF64](), rt[NF32](), rt[NU8](), rt[NI64](), rt[NU64](), rt[UnitSq](),
		}
		structTypes = []typeInfo{
			{t: rt[Leaf](), w: 6},
			{t: rt[Named](), w: 5},
			{t: rt[Ptr1](), w: 6},
			{t: rt[PtrDeep](), deep: true, w: 4},
			{t: rt[PtrCont](), w: 3},
			{t: rt[PtrCont2](), w: 3},
			{t: rt[PtrIface](), gate: gPtrIfc, w: 6},
			{t: rt[Slices](), w: 5},
			{t: rt[SlicesDeep](), deep: true, w: 2},
			{t: rt[Maps](), w: 5},
			{t: rt[MapsX](), w: 5},
			{t: rt[MapsDeep](), deep: true, w: 2},
			{t: rt[Ifaces](), w: 8},
			{t: rt[Tree](), w: 5},
			{t: rt[Embed](), w: 3},
			{t: rt[Nested](), w: 2},
			{t: rt[Circle](), w: 2},
			{t: rt[Rect](), w: 3},
			{t: rt[KeyA](), w: 3},
			{t: rt[KeyB](), w: 2},
			{t: rt[Empty](), w: 1},
			{t: rt[bbState](), w: 1},
		}
		keyTypes = []reflect.Type{
			rt[string](), rt[string](), rt[int](), rt[int8](), rt[int16](), rt[int32](), rt[int64](),
			rt[uint](), rt[uint8](), rt[uint16](), rt[uint32](), rt[uint64](), rt[bool](),
			rt[float64](), rt[float32](), rt[NStr](), rt[NInt](), rt[NBool](), rt[NU8](), rt[NI64](), rt[NU64](), rt[NF64](),
			rt[KeyA](), rt[KeyB](), rt[Empty](),
		}
		outsideTypes = []reflect.Type{
			rt[Unreg](), rt[ChanHolder](), rt[FuncHolder](), rt[CplxHolder](), rt[UnregInside](),
			rt[complex128](), rt[complex64](), rt[chan int](), rt[func()](),
			reflect.StructOf([]reflect.StructField{{Name: "A", Type: rt[int]()}, {Name: "B", Type: rt[string]()}}),
		}
		shapeImpls = []reflect.Type{rt[Circle](), reflect.PointerTo(rt[Rect]()), rt[UnitSq]()}
		registerMore()
	})
	return regErr
}
