package c12

import (
	"context"
	"fmt"
	"io"
	"reflect"
	"strings"
	"sync"
	"unsafe"

	"github.com/cloudwego/eino/compose"

	"verifharness/internal/mon"
)

// ---------------------------------------------------------------------------
// Unregistered named pointer types BELOW containers and nil pointers.
//
// A named pointer type (type UHandle *Leaf) cannot be registered. named_ptr_test.go covers VALUES of such
// a type; here the type is the element, key, value or pointee type of an unnamed container or pointer:
// []UHandle, [N]UHandle, map[K]UHandle, map[UHandle]V, *UHandle, with further unnamed levels around them,
// nil / empty / filled, as fields of registered structs (exported, promoted from an embedded struct of an
// unexported type), in interface slots at several positions, at the top level, and as graph state or
// pending input of a real checkpoint. Oracle: Marshal refuses the value (loud), or the decoder refuses
// the bytes (loud), or the value comes back deeply equal with identical types everywhere; a panic or a
// value of another type is a violation.
// ---------------------------------------------------------------------------

type (
	UHandle2 **Leaf
	UHandleN *NStr
	UHandleK *KeyA
	UHandleI *int
)

// holders: registered structs, each centred on one class of position
type UHSlice struct {
	A  string
	Hs []UHandle
	N  int
	Is []UHandleI
}

type UHMap struct {
	M  map[string]UHandle
	A  string
	MN map[NStr]UHandleN
}

type UHKey struct {
	K  map[UHandle]int
	B  bool
	KK map[UHandleK]string
}

type UHArr0 struct {
	Z [0]UHandle
	A string
}

type UHArr2 struct {
	Ar [2]UHandleN
	I  int
}

type UHPtr struct {
	PH  *UHandle
	S   string
	PPK **UHandleK
}

// UHNestP: unnamed pointer levels between the container and the named pointer type
type UHNestP struct {
	SP []*UHandle
	MP map[string]*UHandleI
	A  string
	KP map[*UHandleK]bool
}

// UHNestC: containers of containers
type UHNestC struct {
	SS [][]UHandle
	PS *[]UHandle
	MS map[int][]UHandleN
	A  string
}

// UHMixed: a field of exactly the named pointer type (representable: the decoder assigns to the field),
// a container below it and an interface slot
type UHMixed struct {
	H  UHandle
	X  any
	Hs []UHandle2
}

// UHDirect: only fields of exactly a named pointer type: inside what the serialiser represents
type UHDirect struct {
	H  UHandle
	H2 UHandle2
	HN UHandleN
	A  string
	HK UHandleK
}

// UHAnyD: an interface slot next to a field of exactly a named pointer type (position "any-field-of-holder")
type UHAnyD struct {
	H UHandle
	X any
}

type uhInner struct {
	Hs []UHandle
	M  map[string]UHandleI
	Q  int
}

type uhInnerD struct {
	H UHandle
	Q int
}

// UHEmb / UHEmbD: the fields are promoted from an embedded struct of an unexported type
type UHEmb struct {
	uhInner
	X int
}

type UHEmbD struct {
	uhInnerD
	X string
}

type belowHolder struct {
	t     reflect.Type
	class string
	// exact: holds named pointer types only in fields of exactly that type
	exact bool
	state func(c stCase) bbResult
}

var (
	belowOnce    sync.Once
	belowHolders []belowHolder
	handleTypes  []reflect.Type
)

func mkHolder[S any](class string, exact bool) belowHolder {
	return belowHolder{t: rt[S](), class: class, exact: exact, state: func(c stCase) bbResult { return runStateBB[S](c) }}
}

// registerBelow is called by TestCheck after registerAll.
func registerBelow() error {
	belowOnce.Do(func() {
		reg[UHSlice]("c12_uhslice")
		reg[UHMap]("c12_uhmap")
		reg[UHKey]("c12_uhkey")
		reg[UHArr0]("c12_uharr0")
		reg[UHArr2]("c12_uharr2")
		reg[UHPtr]("c12_uhptr")
		reg[UHNestP]("c12_uhnestp")
		reg[UHNestC]("c12_uhnestc")
		reg[UHMixed]("c12_uhmixed")
		reg[UHDirect]("c12_uhdirect")
		reg[UHEmb]("c12_uhemb")
		reg[UHEmbD]("c12_uhembd")
		reg[UHAnyD]("c12_uhanyd")
		belowHolders = []belowHolder{
			mkHolder[UHSlice]("slice-elem", false),
			mkHolder[UHMap]("map-value", false),
			mkHolder[UHKey]("map-key", false),
			mkHolder[UHArr0]("array-elem", false),
			mkHolder[UHArr2]("array-elem", false),
			mkHolder[UHPtr]("pointee", false),
			mkHolder[UHNestP]("nested-pointer", false),
			mkHolder[UHNestC]("nested-container", false),
			mkHolder[UHMixed]("mixed", false),
			mkHolder[UHDirect]("exact-field", true),
			mkHolder[UHEmb]("promoted-field", false),
			mkHolder[UHEmbD]("exact-field", true),
		}
		handleTypes = []reflect.Type{rt[UHandle](), rt[UHandle](), rt[UHandle2](), rt[UHandleN](), rt[UHandleK](), rt[UHandleI]()}
	})
	return regErr
}

// ---- values ---------------------------------------------------------------

// bfill builds a value of a given type as a pure function of its rng.
type bfill struct {
	rng *mon.Rand
	// emptyBias: out of 10, how often a container / pointer is nil or empty
	emptyBias int
}

func (f *bfill) val(t reflect.Type, depth int) reflect.Value {
	v := reflect.New(t).Elem()
	f.fill(v, depth)
	return v
}

func (f *bfill) fill(v reflect.Value, depth int) {
	r := f.rng
	t := v.Type()
	switch t.Kind() {
	case reflect.Bool:
		v.SetBool(r.Bool())
	case reflect.Int, reflect.Int8, reflect.Int16, reflect.Int32, reflect.Int64:
		v.SetInt(int64(r.Intn(200) - 100))
	case reflect.Uint, reflect.Uint8, reflect.Uint16, reflect.Uint32, reflect.Uint64, reflect.Uintptr:
		v.SetUint(uint64(r.Intn(200)))
	case reflect.Float32, reflect.Float64:
		v.SetFloat(float64(r.Intn(64)-16) / 4)
	case reflect.String:
		v.SetString(r.Str(0, 4))
	case reflect.Ptr:
		if depth > 5 || r.Intn(10) < f.emptyBias {
			return // nil
		}
		p := reflect.New(t.Elem())
		f.fill(p.Elem(), depth+1)
		v.Set(p.Convert(t))
	case reflect.Slice:
		k := r.Intn(10)
		switch {
		case depth > 5 || k < f.emptyBias/2:
			// nil
		case k < f.emptyBias:
			v.Set(reflect.MakeSlice(t, 0, 0))
		default:
			n := 1 + r.Intn(2)
			s := reflect.MakeSlice(t, n, n)
			for i := 0; i < n; i++ {
				f.fill(s.Index(i), depth+1)
			}
			v.Set(s)
		}
	case reflect.Array:
		for i := 0; i < t.Len(); i++ {
			f.fill(v.Index(i), depth+1)
		}
	case reflect.Map:
		k := r.Intn(10)
		switch {
		case depth > 5 || k < f.emptyBias/2:
			// nil
		case k < f.emptyBias:
			v.Set(reflect.MakeMap(t))
		default:
			n := 1 + r.Intn(2)
			m := reflect.MakeMap(t)
			for i := 0; i < n; i++ {
				kv := f.val(t.Key(), depth+1)
				if kv.Kind() == reflect.Ptr && kv.IsNil() && r.Intn(3) > 0 {
					// mostly real keys
					p := reflect.New(t.Key().Elem())
					f.fill(p.Elem(), depth+1)
					kv.Set(p.Convert(t.Key()))
				}
				m.SetMapIndex(kv, f.val(t.Elem(), depth+1))
			}
			v.Set(m)
		}
	case reflect.Struct:
		for i := 0; i < t.NumField(); i++ {
			sf := t.Field(i)
			fv := v.Field(i)
			if sf.PkgPath != "" {
				if !sf.Anonymous {
					continue
				}
				// an embedded struct of an unexported type: fill it in place
				fv = reflect.NewAt(sf.Type, unsafe.Pointer(fv.UnsafeAddr())).Elem()
			}
			f.fill(fv, depth+1)
		}
	case reflect.Interface:
		if t != anyType {
			return
		}
		switch k := r.Intn(8); {
		case k == 0 || depth > 4:
			// nil interface
		case k == 1:
			v.Set(reflect.ValueOf(r.Intn(100)))
		case k == 2:
			v.Set(reflect.ValueOf(r.Str(0, 3)))
		case k == 3:
			v.Set(reflect.ValueOf(&Leaf{I: r.Intn(9)}))
		case k == 4:
			h := belowHolders[r.Intn(len(belowHolders))]
			x := f.val(h.t, depth+1)
			if r.Bool() {
				x = x.Addr()
			}
			v.Set(x)
		default:
			bt, _ := belowType(r)
			v.Set(f.val(bt, depth+1))
		}
	}
}

// belowType: an unnamed container or pointer type with a named pointer type directly below it, inside
// zero to two further unnamed levels. class names the innermost position of the named pointer type.
func belowType(r *mon.Rand) (reflect.Type, string) {
	h := handleTypes[r.Intn(len(handleTypes))]
	var t reflect.Type
	class := ""
	switch r.Intn(5) {
	case 0:
		t, class = reflect.SliceOf(h), "slice-elem"
	case 1:
		t, class = reflect.ArrayOf(r.Intn(3), h), "array-elem"
	case 2:
		ks := []reflect.Type{rt[string](), rt[int](), rt[NStr](), rt[KeyA](), rt[uint8]()}
		t, class = reflect.MapOf(ks[r.Intn(len(ks))], h), "map-value"
	case 3:
		vs := []reflect.Type{rt[int](), rt[string](), rt[*Leaf](), rt[any](), h}
		t, class = reflect.MapOf(h, vs[r.Intn(len(vs))]), "map-key"
	default:
		t, class = reflect.PointerTo(h), "pointee"
	}
	for n := []int{0, 0, 0, 1, 1, 2}[r.Intn(6)]; n > 0; n-- {
		switch r.Intn(6) {
		case 0, 1:
			t = reflect.PointerTo(t)
		case 2:
			t = reflect.SliceOf(t)
		case 3:
			t = reflect.MapOf(rt[string](), t)
		case 4:
			t = reflect.ArrayOf(r.Intn(2), t)
		default:
			t = reflect.MapOf(rt[NInt](), t)
		}
	}
	return t, class
}

const belowPositions = 10

// place puts x at one of the positions a checkpoint value can have. Positions >= 1 are non-nil wrappers.
func place(pos int, x reflect.Value, r *mon.Rand) any {
	xi := x.Interface()
	switch pos {
	case 0:
		return xi
	case 1:
		return Ifaces{A: xi, B: r.Intn(9)}
	case 2:
		return []any{r.Str(0, 3), xi}
	case 3:
		return map[string]any{"k": xi, "n": 1}
	case 4:
		a := any(xi)
		return &a
	case 5:
		return &bbState{V: xi, N: 3}
	case 6:
		return Tree{V: 1, L: &Tree{V: xi}}
	case 7:
		h := UHAnyD{X: xi}
		if r.Bool() {
			h.H = UHandle(&Leaf{I: r.Intn(50)})
		}
		return h
	case 8:
		return []Ifaces{{}, {S: []any{xi}}}
	default:
		return map[KeyA]any{{A: 1, B: "b"}: xi}
	}
}

var belowPosNames = []string{"top-level", "any-field", "element-of-[]any", "value-of-map[string]any", "behind-*any", "any-field-of-*bbState",
	"any-field-of-nested-*Tree", "any-field-of-holder", "[]any-in-[]struct", "value-of-map[KeyA]any"}

// belowPlan: everything about a case but the scalar content, chosen first; build is a pure function of
// the rng it is given (called twice: the value and its twin).
type belowPlan struct {
	class  string
	exact  bool
	typ    reflect.Type
	holder *belowHolder
	addr   bool
	pos    int
	bias   int
}

func (p belowPlan) build(r *mon.Rand) any {
	f := &bfill{rng: r, emptyBias: p.bias}
	x := f.val(p.typ, 0)
	if p.addr {
		x = x.Addr()
	}
	return place(p.pos, x, r)
}

func (p belowPlan) desc() string {
	s := p.typ.String()
	if p.addr {
		s = "*" + s
	}
	return strings.ReplaceAll(s, "c12.", "") + " @ " + belowPosNames[p.pos]
}

func newBelowPlan(r *mon.Rand) belowPlan {
	p := belowPlan{pos: r.Intn(belowPositions), bias: []int{2, 5, 5, 8, 10}[r.Intn(5)]}
	if r.Intn(5) < 2 {
		h := &belowHolders[r.Intn(len(belowHolders))]
		p.holder, p.typ, p.class, p.exact, p.addr = h, h.t, h.class, h.exact, r.Bool()
		if r.Intn(4) == 0 {
			// containers of the holder
			switch r.Intn(3) {
			case 0:
				p.typ = reflect.SliceOf(h.t)
			case 1:
				p.typ = reflect.MapOf(rt[string](), reflect.PointerTo(h.t))
			default:
				p.typ = reflect.SliceOf(reflect.PointerTo(h.t))
			}
			p.holder = nil
		}
		return p
	}
	p.typ, p.class = belowType(r)
	return p
}

type belowWitness struct {
	Via   string `json:"via"`
	What  string `json:"what"`
	Class string `json:"class"`
	Value string `json:"value"`
	Why   string `json:"why,omitempty"`
}

func belowSig(kind, class string, checkpoint bool) string {
	s := "C12/" + kind + "/named-pointer-below/" + class
	if checkpoint {
		s += "/checkpoint"
	}
	return s
}

// belowCase: one value, through the serialiser alone or through a real checkpoint.
func belowCase(rep *mon.Reporter, rng *mon.Rand) {
	p := newBelowPlan(rng.Sub("plan"))
	seed := rng.Uint64()
	rep.Count("below/cases", 1)
	rep.Count("below/class/"+p.class, 1)
	rep.Count("below/position/"+belowPosNames[p.pos], 1)
	rep.Distinct("below_types", p.desc())

	switch k := rng.Intn(8); {
	case k == 0:
		belowCheckpointAny(rep, rng.Sub("cp"), p, seed)
	case k == 1 && p.holder != nil:
		belowCheckpointState(rep, rng.Sub("st"), p, seed)
	default:
		belowSerializer(rep, p, seed)
	}
}

func belowSerializer(rep *mon.Reporter, p belowPlan, seed uint64) {
	v, truth := p.build(mon.NewRand(seed)), p.build(mon.NewRand(seed))
	if eq, why := twinsEqual(truth, v); !eq {
		rep.Inconclusive("named-pointer-below: generator twins differ (harness bug): " + why)
		return
	}
	w := belowWitness{Via: "serializer", What: p.desc(), Class: p.class, Value: clip(renderAny(truth), 1200)}
	rep.AddEvaluations(1)
	var b []byte
	var err error
	if pn := mon.Safe(func() { b, err = compose.VerifSerialize(v) }); pn != nil {
		w.Why = pn.Value
		rep.Violation(belowSig("panic", p.class, false), fmt.Sprintf("Marshal panicked for %s: %s\n  value: %s", p.desc(), pn.Value, w.Value), w)
		return
	}
	if eq, why := twinsEqual(truth, v); !eq {
		w.Why = why
		rep.Violation("C12/input-mutated/Marshal", "the value handed to Marshal was modified: "+why, w)
	}
	if err != nil {
		rep.Count("below/refused-by-Marshal", 1)
		if p.exact {
			// named pointer types only in struct fields of exactly that type: the serialiser represents these
			// (the decoder assigns to the field), and the holders are registered
			rep.Count("below/exact-field-refused", 1)
		}
		return
	}
	var got any
	var derr error
	if pn := mon.Safe(func() { got, derr = compose.VerifDeserialize(append([]byte(nil), b...)) }); pn != nil {
		w.Why = pn.Value
		rep.Violation(belowSig("panic", p.class, false), fmt.Sprintf("Marshal accepted %s, Unmarshal of its bytes panicked: %s\n  value: %s", p.desc(), pn.Value, w.Value), w)
		return
	}
	if derr != nil {
		rep.Count("below/refused-by-Unmarshal", 1)
		return
	}
	if eq, _, why := cmpAny(truth, got); !eq {
		w.Why = why
		rep.Violation(belowSig("different", p.class, false), fmt.Sprintf("%s was accepted and came back different: %s\n  written:   %s\n  read back: %s", p.desc(), why, w.Value, clip(renderAny(got), 600)), w)
		return
	}
	rep.Count("below/round-tripped", 1)
	rep.Count("below/round-tripped/"+p.class, 1)
	if debug && !p.exact {
		fmt.Printf("DEBUG below round trip %s: %s\n   enc: %s\n", p.desc(), clip(renderAny(truth), 300), clip(string(b), 300))
	}
	rep.NonTrivial("below:" + renderAny(truth))
}

// belowCheckpointAny: the value in one of the three any-typed slots of the black-box graph (state set at
// the start, state written by a node, pending input).
func belowCheckpointAny(rep *mon.Reporter, rng *mon.Rand, p belowPlan, seed uint64) {
	slot := rng.Intn(3)
	if slot == 2 && p.pos == 0 {
		p.pos = 1 + rng.Intn(belowPositions-1) // a node output must not be a nil of some type
	}
	v, truth := p.build(mon.NewRand(seed)), p.build(mon.NewRand(seed))
	c := bbCase{dag: rng.Bool(), stateV: "v", tV: "v", stateW: 7, tW: 7, pendIn: "in", tIn: "in"}
	switch slot {
	case 0:
		c.stateV, c.tV = v, truth
	case 1:
		c.stateW, c.tW = v, truth
	default:
		c.pendIn, c.tIn = v, truth
	}
	slotName := []string{"state.V", "state.W", "pending-input"}[slot]
	r := runBlackBox(c)
	belowJudge(rep, p, r, "checkpoint of the black-box graph, "+slotName, truth)
}

func belowJudge(rep *mon.Reporter, p belowPlan, r bbResult, via string, truth any) {
	rep.AddEvaluations(1)
	rep.Count("below/checkpoint/"+r.class, 1)
	rep.Count("below/checkpoint-cases", 1)
	w := belowWitness{Via: via, What: p.desc(), Class: p.class, Value: clip(renderAny(truth), 1200), Why: clip(r.why, 400)}
	switch r.class {
	case bbOK:
		rep.Count("below/round-tripped", 1)
		rep.Count("below/round-tripped-through-checkpoint", 1)
		rep.NonTrivial("below-cp:" + via + renderAny(truth))
	case bbFirstErr, bbResumeErr:
		// loud
	case bbBuildErr, bbNoInterrupt:
		rep.Inconclusive("named-pointer-below: graph did not behave as the harness expects: " + r.class + ": " + r.why)
	case bbFirstPanic, bbResumePanic:
		rep.Violation(belowSig("panic", p.class, true), fmt.Sprintf("%s (%s): %s: %s\n  value: %s", via, p.desc(), r.class, r.why, w.Value), w)
	default: // bbDifferent, bbNotRestored
		rep.Violation(belowSig("different", p.class, true), fmt.Sprintf("%s (%s): the checkpoint was written and read without an error, the resumed run saw something else: %s: %s\n  written: %s", via, p.desc(), r.class, r.why, w.Value), w)
	}
}

// ---- graph state of a holder type -------------------------------------------

type stCase struct {
	t            reflect.Type
	bias         int
	seedInit     uint64
	seedWrite    uint64
	write        bool // node a replaces the state
	dag          bool
	before       bool // interrupt before b instead of after a
	streamResume bool
}

func (c stCase) mk(seed uint64) any {
	f := &bfill{rng: mon.NewRand(seed), emptyBias: c.bias}
	return f.val(c.t, 0).Addr().Interface()
}

func belowCheckpointState(rep *mon.Reporter, rng *mon.Rand, p belowPlan, seed uint64) {
	c := stCase{t: p.holder.t, bias: p.bias, seedInit: seed, seedWrite: rng.Uint64(), write: rng.Bool(), dag: rng.Bool(), before: rng.Bool(), streamResume: rng.Bool()}
	r := p.holder.state(c)
	want := c.mk(c.seedInit)
	if c.write {
		want = c.mk(c.seedWrite)
	}
	p.addr, p.pos = true, 0
	mode := "Invoke"
	if c.streamResume {
		mode = "Stream"
	}
	rep.Count("below/state-cases/"+p.holder.t.Name(), 1)
	belowJudge(rep, p, r, fmt.Sprintf("graph state of type *%s through a checkpoint (written by a node: %v, resumed with %s)", p.holder.t.Name(), c.write, mode), want)
}

// runStateBB: START -> a -> b -> END with a local state of type *S; interrupted between a and b, resumed
// from the bytes in the store; what b and the state modifier see must be what was there at the interrupt.
func runStateBB[S any](c stCase) bbResult {
	ctx := context.Background()
	store := newByteStore()
	var (
		seenNode, seenMod *S
		bRan              bool
		aRuns             int
	)
	g := compose.NewGraph[string, string](compose.WithGenLocalState(func(ctx context.Context) *S {
		return c.mk(c.seedInit).(*S)
	}))
	err := g.AddLambdaNode("a", compose.InvokableLambda(func(ctx context.Context, in string) (string, error) {
		aRuns++
		if c.write {
			if e := compose.ProcessState[*S](ctx, func(_ context.Context, s *S) error {
				*s = *(c.mk(c.seedWrite).(*S))
				return nil
			}); e != nil {
				return "", e
			}
		}
		return in + "a", nil
	}))
	if err == nil {
		err = g.AddLambdaNode("b", compose.InvokableLambda(func(ctx context.Context, in string) (string, error) {
			bRan = true
			if e := compose.ProcessState[*S](ctx, func(_ context.Context, s *S) error {
				cp := *s
				seenNode = &cp
				return nil
			}); e != nil {
				return "", e
			}
			return in + "b", nil
		}))
	}
	if err == nil {
		err = g.AddEdge(compose.START, "a")
	}
	if err == nil {
		err = g.AddEdge("a", "b")
	}
	if err == nil {
		err = g.AddEdge("b", compose.END)
	}
	if err != nil {
		return bbResult{class: bbBuildErr, why: err.Error()}
	}
	opts := []compose.GraphCompileOption{compose.WithCheckPointStore(store)}
	if c.before {
		opts = append(opts, compose.WithInterruptBeforeNodes([]string{"b"}))
	} else {
		opts = append(opts, compose.WithInterruptAfterNodes([]string{"a"}))
	}
	if c.dag {
		opts = append(opts, compose.WithNodeTriggerMode(compose.AllPredecessor))
	}
	r, err := g.Compile(ctx, opts...)
	if err != nil {
		return bbResult{class: bbBuildErr, why: err.Error()}
	}
	res := bbResult{}
	fill := func() bbResult {
		res.sets, res.gets, res.cpBytes = store.sets, store.gets, store.bytes
		return res
	}
	var err1 error
	if p := mon.Safe(func() { _, err1 = r.Invoke(ctx, "go", compose.WithCheckPointID("cp")) }); p != nil {
		res.class, res.why = bbFirstPanic, p.Value+" @ "+p.FirstFrame("github.com/cloudwego/eino/")
		return fill()
	}
	if err1 == nil {
		res.class, res.why = bbNoInterrupt, "first run finished without interrupt"
		return fill()
	}
	if _, ok := compose.ExtractInterruptInfo(err1); !ok {
		res.class, res.why = bbFirstErr, err1.Error()
		return fill()
	}
	if store.sets == 0 {
		res.class, res.why = bbNoInterrupt, "interrupt reported but nothing was written to the store"
		return fill()
	}
	var err2 error
	var out string
	ropts := []compose.Option{compose.WithCheckPointID("cp"),
		compose.WithStateModifier(func(ctx context.Context, path compose.NodePath, state any) error {
			if s, ok := state.(*S); ok && s != nil {
				cp := *s
				seenMod = &cp
			}
			res.observed = true
			return nil
		})}
	p := mon.Safe(func() {
		if !c.streamResume {
			out, err2 = r.Invoke(ctx, "go", ropts...)
			return
		}
		sr, e := r.Stream(ctx, "go", ropts...)
		if e != nil {
			err2 = e
			return
		}
		defer sr.Close()
		for {
			ch, e := sr.Recv()
			if e == io.EOF {
				return
			}
			if e != nil {
				err2 = e
				return
			}
			out += ch
		}
	})
	if p != nil {
		res.class, res.why = bbResumePanic, p.Value+" @ "+p.FirstFrame("github.com/cloudwego/eino/")
		return fill()
	}
	if err2 != nil {
		res.class, res.why = bbResumeErr, err2.Error()
		return fill()
	}
	if !bRan || !res.observed || seenMod == nil || seenNode == nil || aRuns != 1 || out != "goab" {
		res.class = bbNotRestored
		res.why = fmt.Sprintf("resume finished but bRan=%v stateModifierCalled=%v stateSeen=%v aRuns=%d out=%q", bRan, res.observed, seenMod != nil && seenNode != nil, aRuns, out)
		return fill()
	}
	want := c.mk(c.seedInit)
	if c.write {
		want = c.mk(c.seedWrite)
	}
	for _, k := range []struct {
		where string
		got   *S
	}{{"state@" + bbStateModifier, seenMod}, {"state@node", seenNode}} {
		if eq, _, why := cmpAny(want, any(k.got)); !eq {
			res.class, res.slot, res.want = bbDifferent, k.where, want
			res.why = k.where + ": " + why
			return fill()
		}
	}
	res.class = bbOK
	return fill()
}
