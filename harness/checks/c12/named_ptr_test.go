package c12

import (
	"fmt"
	"reflect"

	"github.com/cloudwego/eino/compose"

	"verifharness/internal/mon"
)

// UHandle is a named pointer type. It cannot be registered under a name of its own (the registry keys
// struct and basic types), so a value of this type in an interface slot is outside the universe: the
// serialiser may refuse it, but it must not hand back a value of another dynamic type (*Leaf).
type UHandle *Leaf

type UHandles []UHandle

// namedPointerCase: values of an unregistered named pointer type at top level and in interface slots.
func namedPointerCase(rep *mon.Reporter, rng *mon.Rand) {
	mk := func() UHandle {
		if rng.Intn(5) == 0 {
			return UHandle(nil)
		}
		return UHandle(&Leaf{I: rng.Intn(100), S: rng.Str(0, 4)})
	}
	h := mk()
	var v any
	shape := ""
	switch rng.Intn(5) {
	case 0:
		v, shape = h, "top-level"
	case 1:
		v, shape = []any{1, h}, "element-of-[]any"
	case 2:
		v, shape = map[string]any{"h": h}, "value-of-map[string]any"
	case 3:
		x := any(h)
		v, shape = &x, "behind-*any"
	default:
		v, shape = []UHandle{h, mk()}, "element-of-[]UHandle"
	}
	var b []byte
	var err error
	if p := mon.Safe(func() { b, err = compose.VerifSerialize(v) }); p != nil {
		rep.Violation("C12/panic/unregistered-named-pointer", fmt.Sprintf("Marshal panicked for a %s value: %s", shape, p.Value), map[string]any{"shape": shape})
		return
	}
	rep.AddEvaluations(1)
	rep.Count("named_pointer_values", 1)
	if err != nil {
		rep.Count("named_pointer_values_refused", 1)
		return
	}
	var got any
	var derr error
	if p := mon.Safe(func() { got, derr = compose.VerifDeserialize(append([]byte(nil), b...)) }); p != nil {
		rep.Violation("C12/panic/unregistered-named-pointer", fmt.Sprintf("Unmarshal panicked for a %s value: %s", shape, p.Value), map[string]any{"shape": shape})
		return
	}
	if derr != nil {
		return // loud
	}
	// every UHandle in v must come back as a UHandle
	var dyn func(x any) []string
	dyn = func(x any) []string {
		var out []string
		switch t := x.(type) {
		case []any:
			for _, e := range t {
				out = append(out, dyn(e)...)
			}
		case map[string]any:
			for _, e := range t {
				out = append(out, dyn(e)...)
			}
		case *any:
			if t != nil {
				out = append(out, dyn(*t)...)
			}
		case []UHandle:
			for range t {
				out = append(out, "c12.UHandle")
			}
		default:
			if x != nil && reflect.TypeOf(x).Kind() == reflect.Ptr {
				out = append(out, reflect.TypeOf(x).String())
			}
		}
		return out
	}
	want, have := fmt.Sprint(dyn(v)), fmt.Sprint(dyn(got))
	if want != have || reflect.TypeOf(v) != reflect.TypeOf(got) {
		rep.Violation("C12/different/unregistered-named-pointer", fmt.Sprintf("a value of the unregistered named pointer type UHandle (%s) was accepted and came back with another dynamic type: pointer types written %s, read back %s (top-level %T -> %T)", shape, want, have, v, got), map[string]any{"shape": shape})
		return
	}
	rep.Count("named_pointer_values_round_tripped", 1)
}
