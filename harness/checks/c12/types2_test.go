package c12

import (
	"reflect"
	"strings"
	"unicode/utf8"

	"github.com/cloudwego/eino/schema"
)

// ---------------------------------------------------------------------------
// Second part of the type universe (see NOTES.md, "Universe"):
//
//   * containers of containers and pointers to containers (inside the universe),
//   * structs whose exported fields carry json struct tags (inside the universe:
//     the serializer works by Go field name, tags must not matter),
//   * eino's own message types (documented as registered by eino itself),
//   * registered named slice / map types, arrays, maps with an interface or a
//     pointer key type, unregistered named containers, structs with unexported
//     fields: outside the stated universe ("soft": an error is fine, a different
//     value or a panic is not).
// ---------------------------------------------------------------------------

// ---- containers of containers (every type below is built from registered types only)

type NestedCont struct {
	Mx  [][]float64
	H   map[string][]string
	SM  []map[string]int
	MM  map[string]map[string]bool
	D3  [][][]NInt
	MK  map[NStr][]*Leaf
	SA  [][]any
	MSA map[int][]map[string]any
	SPS []*[]int
	MPM map[string]*map[string]int
	PSS *[][]string
	PPM **map[KeyA][]NStr
	SPL [][]*Leaf
	MKS map[KeyA]map[NInt][]Shape
	BB  [][]byte
}

// ---- json struct tags (seeded change C12-C: a struct stored as one JSON object)

// TagFlat: every field is of a basic kind ("flat").
type TagFlat struct {
	User  string  `json:"user"`
	Token string  `json:"-"`
	Turn  int     `json:"turn,omitempty"`
	Old   string  `json:"value"`
	New   string  `json:"value"`
	Dash  int     `json:"-,"`
	Str   int64   `json:",string"`
	F     float64 `json:"f,omitempty"`
	B     bool    `json:"b,omitempty"`
	N     NInt    `json:"user2"`
	U     uint8   `json:"Token"`
}

// TagMixed: the same tag kinds on fields of every category.
type TagMixed struct {
	ID    string            `json:"id"`
	Skip  any               `json:"-"`
	P     *string           `json:"p,omitempty"`
	HidS  []int             `json:"-"`
	M     map[string]int    `json:"m,omitempty"`
	L     Leaf              `json:"id"`
	PL    *Leaf             `json:"pl,omitempty"`
	Sh    Shape             `json:"-"`
	A     any               `json:"a,omitempty"`
	Inner TagFlat           `json:"inner,omitempty"`
	PT    *TagFlat          `json:"-"`
	ST    []TagFlat         `json:"st"`
	MT    map[NStr]*TagFlat `json:"st"`
}

// CaseFold: field names that differ only in case (encoding/json matches
// object keys case-insensitively) and a tag that takes another field's name.
type CaseFold struct {
	Name  string
	NAME  string
	NaMe  int
	Other string `json:"Name"`
	Nam   *int   `json:"name"`
}

// CaseFlat: the same, flat.
type CaseFlat struct {
	Name  string
	NAME  string
	NaMe  int
	Other string `json:"Name"`
	Nam   bool   `json:"name"`
}

// TagKey: a comparable struct with tags, used as a map key type.
type TagKey struct {
	User  string `json:"user"`
	Token string `json:"-"`
	N     int    `json:"n,omitempty"`
	Old   uint8  `json:"v"`
	New   uint8  `json:"v"`
}

// TagEmbed: embedded structs with and without tags.
type TagEmbed struct {
	TagFlat `json:"flat"`
	KeyA    `json:"-"`
	X       int `json:"User"`
}

// ---- registered named container types (soft)

type (
	Names    []string
	Dict     map[string]int
	AnyList  []any
	AnyDict  map[string]any
	LeafPtrs []*Leaf
	ByKey    map[KeyA]*Leaf
	Matrix   [][]float64
	NamesSet []Names
	DictOf   map[NStr]Names
	Arr3     [3]int
	ArrS     [2]string
)

type NamedCont struct {
	N   Names
	PN  *Names
	D   Dict
	PD  *Dict
	AL  AnyList
	AD  AnyDict
	LP  LeafPtrs
	BK  ByKey
	Mx  Matrix
	NS  NamesSet
	DO  DictOf
	SN  []Names
	MD  map[string]Dict
	PPN **Names
	SPN []*Names
	MPD map[NInt]*Dict
	A   any
	PAD *AnyDict
}

// NamedSmall: the same without fields that are containers of containers.
type NamedSmall struct {
	N  Names
	PN *Names
	D  Dict
	PD *Dict
	A  any
	AL AnyList
}

// ---- arrays (soft)

type Arrays struct {
	A  [3]int
	PA *[2]string
	N  Arr3
	PN *Arr3
	AA [2]any
	AL [2]Leaf
	AP [2]*int
	AS ArrS
	Z  [0]int
	X  any
}

// ---- unregistered named container types (outside: never registered)

type (
	UNames []string
	UDict  map[string]int
)

type UHold struct {
	X   int
	UN  UNames
	PUN *UNames
	UD  UDict
	PUD *UDict
	A   any
}

// ---- struct with unexported fields (outside)

type Hidden struct {
	A int
	b int
	s string
	D []any
	f float64
}

var schemaPkg = reflect.TypeOf(schema.Message{}).PkgPath()

func isSchemaType(t reflect.Type) bool { return t.PkgPath() == schemaPkg }

// isEinoType: a type declared by eino itself (schema, components/...).
func isEinoType(t reflect.Type) bool {
	return strings.HasPrefix(t.PkgPath(), "github.com/cloudwego/eino/")
}

// registeredSet: the types that are registered with the serializer: eino's
// builtin basic types, the types this check registers, and eino's own schema
// types (compose/checkpoint.go documents "all built-in eino types are already
// registered": everything schema.Message and schema.Document are made of).
var registeredSet = map[reflect.Type]bool{}

func collectSchemaTypes(t reflect.Type, seen map[reflect.Type]bool) {
	if seen[t] {
		return
	}
	seen[t] = true
	if isSchemaType(t) {
		registeredSet[t] = true
	}
	switch t.Kind() {
	case reflect.Ptr, reflect.Slice, reflect.Array:
		collectSchemaTypes(t.Elem(), seen)
	case reflect.Map:
		collectSchemaTypes(t.Key(), seen)
		collectSchemaTypes(t.Elem(), seen)
	case reflect.Struct:
		for i := 0; i < t.NumField(); i++ {
			collectSchemaTypes(t.Field(i).Type, seen)
		}
	}
}

// gates of the type choice (profile switches)
func gNamed(p profile) bool   { return p.allowNamedCont }
func gArrays(p profile) bool  { return p.allowArrays }
func gUnreg(p profile) bool   { return p.allowUnregNamed }
func gHidden(p profile) bool  { return p.allowHidden }
func gPtrIfc(p profile) bool  { return p.allowPtrIface }
func gSchema(p profile) bool  { return p.allowSchema }
func gTagKeys(p profile) bool { return p.allowTagKey }

var (
	namedContTypes []reflect.Type // registered named slices / maps
	arrayNamed     []reflect.Type // registered named arrays
	unregNamed     []reflect.Type
	ifaceKeyDyn    []reflect.Type // dynamic types of keys of a map with an interface key type
	msgTypes       []reflect.Type // message-shaped top level types for the black box
)

// registerMore is called by registerAll (inside its sync.Once).
func registerMore() {
	reg[NestedCont]("c12_nestedcont")
	reg[TagFlat]("c12_tagflat")
	reg[TagMixed]("c12_tagmixed")
	reg[CaseFold]("c12_casefold")
	reg[CaseFlat]("c12_caseflat")
	reg[TagKey]("c12_tagkey")
	reg[TagEmbed]("c12_tagembed")
	reg[Names]("c12_names")
	reg[Dict]("c12_dict")
	reg[AnyList]("c12_anylist")
	reg[AnyDict]("c12_anydict")
	reg[LeafPtrs]("c12_leafptrs")
	reg[ByKey]("c12_bykey")
	reg[Matrix]("c12_matrix")
	reg[NamesSet]("c12_namesset")
	reg[DictOf]("c12_dictof")
	reg[Arr3]("c12_arr3")
	reg[ArrS]("c12_arrs")
	reg[NamedCont]("c12_namedcont")
	reg[NamedSmall]("c12_namedsmall")
	reg[Arrays]("c12_arrays")
	reg[UHold]("c12_uhold")
	reg[Hidden]("c12_hidden")

	structTypes = append(structTypes,
		typeInfo{t: rt[NestedCont](), w: 5},
		typeInfo{t: rt[TagFlat](), w: 5},
		typeInfo{t: rt[TagMixed](), w: 4},
		typeInfo{t: rt[CaseFold](), w: 3},
		typeInfo{t: rt[CaseFlat](), w: 3},
		typeInfo{t: rt[TagKey](), w: 2},
		typeInfo{t: rt[TagEmbed](), w: 2},
		typeInfo{t: rt[NamedCont](), w: 10, gate: gNamed},
		typeInfo{t: rt[NamedSmall](), w: 10, gate: gNamed},
		typeInfo{t: rt[Arrays](), w: 8, gate: gArrays},
		typeInfo{t: rt[UHold](), w: 10, gate: gUnreg},
		typeInfo{t: rt[Hidden](), w: 10, gate: gHidden},
		// eino's own types
		typeInfo{t: rt[schema.Message](), w: 12, gate: gSchema},
		typeInfo{t: rt[schema.Document](), w: 3, gate: gSchema},
		typeInfo{t: rt[schema.ToolCall](), w: 2, gate: gSchema},
		typeInfo{t: rt[schema.ChatMessagePart](), w: 3, gate: gSchema},
		typeInfo{t: rt[schema.ResponseMeta](), w: 3, gate: gSchema},
		typeInfo{t: rt[schema.LogProbs](), w: 1, gate: gSchema},
		typeInfo{t: rt[schema.TokenUsage](), w: 1, gate: gSchema},
		typeInfo{t: rt[schema.FunctionCall](), w: 1, gate: gSchema},
		typeInfo{t: rt[schema.ChatMessageImageURL](), w: 1, gate: gSchema},
	)
	namedContTypes = []reflect.Type{rt[Names](), rt[Dict](), rt[AnyList](), rt[AnyDict](), rt[LeafPtrs](), rt[ByKey](),
		rt[Matrix](), rt[NamesSet](), rt[DictOf]()}
	arrayNamed = []reflect.Type{rt[Arr3](), rt[ArrS]()}
	unregNamed = []reflect.Type{rt[UNames](), rt[UDict]()}
	ifaceKeyDyn = []reflect.Type{rt[int](), rt[int64](), rt[int8](), rt[uint8](), rt[uint64](), rt[float64](), rt[float32](), rt[string](), rt[bool](),
		rt[NInt](), rt[NStr](), rt[NI64](), rt[NF64](), rt[NBool](), rt[KeyA](), rt[Empty](), rt[UnitSq](), rt[Circle]()}
	msgTypes = []reflect.Type{
		rt[*schema.Message](), rt[[]*schema.Message](), rt[schema.Message](), rt[[]schema.Message](),
		rt[map[string][]*schema.Message](), rt[*schema.Document](), rt[[]*schema.Document](),
	}

	// what is registered
	for _, t := range basicTypes {
		registeredSet[t] = true
	}
	for _, t := range namedTypes {
		registeredSet[t] = true
	}
	for _, ti := range structTypes {
		registeredSet[ti.t] = true
	}
	for _, t := range namedContTypes {
		registeredSet[t] = true
	}
	for _, t := range arrayNamed {
		registeredSet[t] = true
	}
	for _, t := range []reflect.Type{anyType, shapeType, rt[ChanHolder](), rt[FuncHolder](), rt[CplxHolder](), rt[UnregInside](),
		rt[complex64](), rt[complex128]()} {
		registeredSet[t] = true
	}
	seen := map[reflect.Type]bool{}
	collectSchemaTypes(rt[schema.Message](), seen)
	collectSchemaTypes(rt[schema.Document](), seen)
	registerThird()
}

// ---------------------------------------------------------------------------
// Universe membership. "" = inside the universe the statement promises a round
// trip for; otherwise the reason why the value (or type) is outside of it.
// ---------------------------------------------------------------------------

var typeInMemo = map[reflect.Type]string{}

func typeIn(t reflect.Type) string {
	if r, ok := typeInMemo[t]; ok {
		return r
	}
	typeInMemo[t] = "" // cut recursion (Tree, Nested)
	r := typeIn1(t)
	typeInMemo[t] = r
	return r
}

func typeIn1(t reflect.Type) string {
	switch t.Kind() {
	case reflect.Bool, reflect.Int, reflect.Int8, reflect.Int16, reflect.Int32, reflect.Int64,
		reflect.Uint, reflect.Uint8, reflect.Uint16, reflect.Uint32, reflect.Uint64, reflect.Uintptr,
		reflect.Float32, reflect.Float64, reflect.String:
		if !registeredSet[t] {
			return "unregistered-type"
		}
		return ""
	case reflect.Complex64, reflect.Complex128:
		return "complex"
	case reflect.Ptr:
		return typeIn(t.Elem())
	case reflect.Array:
		return "array"
	case reflect.Slice:
		if t.Name() != "" {
			if !registeredSet[t] {
				return "unregistered-type"
			}
			return "named-container"
		}
		return typeIn(t.Elem())
	case reflect.Map:
		if t.Name() != "" {
			if !registeredSet[t] {
				return "unregistered-type"
			}
			return "named-container"
		}
		if r := keyTypeIn(t.Key()); r != "" {
			return r
		}
		return typeIn(t.Elem())
	case reflect.Struct:
		if !registeredSet[t] {
			return "unregistered-type"
		}
		for i := 0; i < t.NumField(); i++ {
			if f := t.Field(i); f.PkgPath != "" && f.Anonymous && hasPromotable(f.Type) {
				return "embedded-unexported"
			}
		}
		for i := 0; i < t.NumField(); i++ {
			if t.Field(i).PkgPath != "" {
				return "unexported-field"
			}
		}
		// the reasons of the fields: an unregistered type anywhere wins (the most
		// "outside" reason), any other reason is reported as is
		first := ""
		for i := 0; i < t.NumField(); i++ {
			if r := typeIn(t.Field(i).Type); r != "" {
				if r == "unregistered-type" {
					return r
				}
				if first == "" {
					first = r
				}
			}
		}
		return first
	case reflect.Interface:
		if !registeredSet[t] {
			return "unregistered-type"
		}
		return ""
	}
	return "chan-func"
}

func keyTypeIn(k reflect.Type) string {
	switch k.Kind() {
	case reflect.Interface:
		if !registeredSet[k] {
			return "unregistered-type"
		}
		return "interface-key"
	case reflect.Ptr:
		if r := typeIn(k); r == "unregistered-type" {
			return r
		}
		return "pointer-key"
	case reflect.Array:
		return "array"
	}
	return typeIn(k)
}

// valueIn: universe membership of a concrete value (static types and what the
// interface slots hold, NaN / Inf, invalid UTF-8).
func valueIn(x any) string {
	if x == nil {
		return "top-nil"
	}
	return valIn(reflect.ValueOf(x))
}

func valIn(v reflect.Value) string {
	if r := typeIn(v.Type()); r != "" {
		return r
	}
	return dynIn(v)
}

// dynIn: v's static type is inside; look at the dynamic content.
func dynIn(v reflect.Value) string {
	switch v.Kind() {
	case reflect.Float32, reflect.Float64:
		f := v.Float()
		if f != f || f > 1.7976931348623157e308 || f < -1.7976931348623157e308 {
			return "nan-inf"
		}
	case reflect.String:
		if !validUTF8(v.String()) {
			return "invalid-utf8"
		}
	case reflect.Ptr:
		if !v.IsNil() {
			return dynIn(v.Elem())
		}
	case reflect.Interface:
		if !v.IsNil() {
			return valIn(v.Elem())
		}
	case reflect.Slice, reflect.Array:
		for i := 0; i < v.Len(); i++ {
			if r := dynIn(v.Index(i)); r != "" {
				return r
			}
		}
	case reflect.Map:
		for _, k := range sortedKeys(v) {
			if r := dynIn(k); r != "" {
				return r
			}
			if r := dynIn(v.MapIndex(k)); r != "" {
				return r
			}
		}
	case reflect.Struct:
		for i := 0; i < v.NumField(); i++ {
			if r := dynIn(v.Field(i)); r != "" {
				return r
			}
		}
	}
	return ""
}

func validUTF8(s string) bool { return utf8.ValidString(s) }

func hasJSONTags(t reflect.Type) bool {
	if t.Kind() != reflect.Struct {
		return false
	}
	for i := 0; i < t.NumField(); i++ {
		if _, ok := t.Field(i).Tag.Lookup("json"); ok {
			return true
		}
	}
	return false
}
