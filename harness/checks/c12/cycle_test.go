package c12

import (
	"fmt"
	"reflect"
	rtdebug "runtime/debug"
	"strconv"
	"strings"

	"github.com/cloudwego/eino/compose"

	"verifharness/internal/mon"
)

// ---------------------------------------------------------------------------
// Values that refer to themselves (hunt/serialization-cycle) and values that share a
// reference without containing themselves.
//
// A value that contains itself (a tree whose nodes know their parent, a ring, a slice
// or map that holds itself directly, through a pointer or through an interface slot)
// has no finite encoding: it is outside the universe, a loud error is the one correct
// outcome. Marshal used to recurse until the runtime killed the process (fatal error:
// stack overflow, not recoverable): the driver attributes such a crash to the case
// whose CASE marker was written last (CHECK_AUTHORING.md), the shard's report is lost.
// The cyclic values are therefore generated in a quarter of the shards only
// (cyclicShard) so that a crash cannot hide what the rest of the run observes, and
// the stack limit is lowered while they are encoded (a crash is then a matter of
// milliseconds and megabytes instead of a gigabyte of stack).
//
// A value that merely shares a reference (the same pointer twice in a slice, one map
// in two fields, a slice and its own prefix side by side) is an ordinary value of the
// universe: its round trip is due. It is what a cycle guard that forgets to leave, or
// that keys slices by their address only, would refuse.
// ---------------------------------------------------------------------------

// PNode: a tree whose nodes know their parent (the shape of the finding).
type PNode struct {
	Name   string
	Parent *PNode
	Kids   []*PNode
	Attr   map[string]any
}

// Ring: a singly linked ring.
type Ring struct {
	V       int
	Next    *Ring
	Payload any
}

// cyclicShard: the shards that generate cyclic values.
func cyclicShard(cfg mon.Config) bool {
	if cfg.Shards < 4 {
		return cfg.Shard == cfg.Shards-1
	}
	return cfg.Shard%4 == 3
}

func cycRootTypes() []reflect.Type {
	return []reflect.Type{
		rt[*PNode](), rt[*PNode](), rt[*Ring](), rt[*Ring](), rt[*Tree](), rt[*Ifaces](), rt[*Nested](),
		rt[[]any](), rt[[]any](), rt[map[string]any](), rt[map[string]any](), rt[map[NStr]any](), rt[map[int]any](),
		rt[[]*PNode](), rt[map[string]*PNode](), rt[*EmbCyc](), rt[*[]any](), rt[*map[string]any](), rt[**Ring](),
		rt[*bbState](), rt[[]*Tree](), rt[map[KeyA]*Ring](), rt[[]map[string]any](), rt[*TagMixed](), rt[*NestedCont](),
		rt[[][]any](), rt[PNode](), rt[Ifaces](), rt[EmbCyc](),
	}
}

// cycProfile: small values, every switch off: the base value is inside the universe,
// the only reason to refuse the final value is that it contains itself.
func cycProfile(r *mon.Rand) profile {
	return profile{maxDepth: r.Range(2, 5), budget: r.Range(6, 28), pNilPtr: 0.15, pNilIface: 0.15}
}

type refNode struct {
	v    reflect.Value // non-nil pointer, non-empty slice or map
	path []string
}

type slotRef struct {
	typ  reflect.Type // static type of the slot
	set  func(reflect.Value)
	path []string
	anc  []refNode // the references the slot is reachable from (outermost first)
}

type walker struct {
	slots []slotRef
	refs  []refNode // every reference node, pre-order
}

func ext(path []string, s string) []string {
	return append(append([]string(nil), path...), s)
}

// walk collects the slots that can take a reference (interface-typed and pointer-,
// slice-, map-typed places that can be assigned to) together with the references
// they are reachable from. Deterministic: map keys in sorted order.
func (w *walker) walk(v reflect.Value, anc []refNode, path []string, set func(reflect.Value)) {
	switch v.Kind() {
	case reflect.Interface, reflect.Ptr, reflect.Slice, reflect.Map:
		if set != nil {
			w.slots = append(w.slots, slotRef{typ: v.Type(), set: set, path: path, anc: anc})
		}
	}
	switch v.Kind() {
	case reflect.Interface:
		if !v.IsNil() {
			// what the interface holds is a copy: not assignable, but the references below are shared
			w.walk(v.Elem(), anc, path, nil)
		}
	case reflect.Ptr:
		if v.IsNil() {
			return
		}
		n := refNode{v: v, path: path}
		w.refs = append(w.refs, n)
		anc = append(append([]refNode(nil), anc...), n)
		e := v.Elem()
		var es func(reflect.Value)
		if e.CanSet() {
			es = func(x reflect.Value) { e.Set(x) }
		}
		w.walk(e, anc, ext(path, "*"), es)
	case reflect.Struct:
		for i := 0; i < v.NumField(); i++ {
			f := v.Type().Field(i)
			if f.PkgPath != "" && !(f.Anonymous && f.Type.Kind() == reflect.Struct) {
				continue // unexported; an embedded struct of an unexported type is followed for its promoted fields
			}
			fv := v.Field(i)
			var fs func(reflect.Value)
			if fv.CanSet() {
				fs = func(x reflect.Value) { fv.Set(x) }
			}
			w.walk(fv, anc, ext(path, f.Name), fs)
		}
	case reflect.Slice:
		if v.Len() == 0 {
			return
		}
		n := refNode{v: v, path: path}
		w.refs = append(w.refs, n)
		anc = append(append([]refNode(nil), anc...), n)
		for i := 0; i < v.Len(); i++ {
			e := v.Index(i)
			var es func(reflect.Value)
			if e.CanSet() {
				es = func(x reflect.Value) { e.Set(x) }
			}
			w.walk(e, anc, ext(path, "["+strconv.Itoa(i)+"]"), es)
		}
	case reflect.Map:
		if v.Len() == 0 {
			return
		}
		n := refNode{v: v, path: path}
		w.refs = append(w.refs, n)
		anc = append(append([]refNode(nil), anc...), n)
		m := v
		for _, k := range sortedKeys(v) {
			k := k
			var ms func(reflect.Value)
			if !m.CanInterface() {
				ms = nil
			} else {
				ms = func(x reflect.Value) { m.SetMapIndex(k, x) }
			}
			w.walk(v.MapIndex(k), anc, ext(path, "["+clip(render(k, false), 20)+"]"), ms)
		}
	}
}

func isPrefix(a, b []string) bool {
	if len(a) > len(b) {
		return false
	}
	for i := range a {
		if a[i] != b[i] {
			return false
		}
	}
	return true
}

func pathStr(p []string) string {
	if len(p) == 0 {
		return "$"
	}
	return "$." + strings.Join(p, ".")
}

// cycValue: a value that contains itself (or, aliased: shares a reference).
type cycValue struct {
	v      any
	kind   string // ptr | slice | map: the kind of the reference that closes the cycle / is shared
	how    string // how it was built
	desc   string // rendering of the value before the back edge was set + the edge
	edges  int
	// noCompare: the harness cannot walk the value (a map that is reachable from its own
	// key cannot even be rendered): being accepted without an error is the violation
	noCompare bool
}

// buildCyclic builds a cyclic value as a pure function of seed: a generated acyclic
// value in which one slot (or several) is set to a reference the slot is reachable
// from, or one of a few hand-written templates that the generic way cannot produce.
func buildCyclic(seed uint64) cycValue {
	r := mon.NewRand(seed)
	if r.Prob(0.3) {
		return cycTemplate(r)
	}
	prof := cycProfile(r.Sub("profile"))
	roots := cycRootTypes()
	for attempt := 0; attempt < 6; attempt++ {
		t := roots[r.Intn(len(roots))]
		g := newGen(mon.NewRand(r.Uint64()), prof)
		root := g.value(t, 0)
		var w walker
		w.walk(root, nil, nil, func(x reflect.Value) { root.Set(x) })
		type cand struct {
			s slotRef
			a refNode
		}
		var cs []cand
		for _, s := range w.slots {
			for _, a := range s.anc {
				if a.v.Type().AssignableTo(s.typ) {
					cs = append(cs, cand{s, a})
				}
			}
		}
		if len(cs) == 0 {
			continue
		}
		before := clip(render(root, true), 500)
		c := cs[r.Intn(len(cs))]
		x := c.a.v
		how := "back-edge"
		if x.Kind() == reflect.Slice && x.Len() >= 2 && len(c.s.path) > len(c.a.path) && c.s.path[len(c.a.path)] == "[0]" && r.Prob(0.5) {
			// the slot sits below element 0: the prefix s[:1] contains itself as well
			x = x.Slice(0, 1)
			how = "back-edge-to-prefix"
		}
		c.s.set(x)
		edges := 1
		desc := fmt.Sprintf("%s  with  %s := %s (%s)", before, pathStr(c.s.path), pathStr(c.a.path), c.a.v.Type())
		if r.Prob(0.25) {
			// a second back edge somewhere else (slots collected before the first edge was set: still valid places)
			c2 := cs[r.Intn(len(cs))]
			if !isPrefix(c.s.path, c2.s.path) && !isPrefix(c2.s.path, c.s.path) {
				c2.s.set(c2.a.v)
				edges++
				desc += fmt.Sprintf("  and  %s := %s", pathStr(c2.s.path), pathStr(c2.a.path))
			}
		}
		return cycValue{v: root.Interface(), kind: c.a.v.Kind().String(), how: how, desc: desc, edges: edges}
	}
	return cycTemplate(r)
}

func cycTemplate(r *mon.Rand) cycValue {
	filler := func() any {
		return []any{1, "s", NInt(3), 2.5, true, nil, &Leaf{I: 7}, []string{"a"}}[r.Intn(8)]
	}
	switch r.Intn(8) {
	case 0:
		// a pointer to an interface-typed variable that holds this very pointer
		var x any
		x = &x
		return cycValue{v: x, kind: "ptr", how: "template:ptr-to-interface-holding-itself", desc: "var x any; x = &x", edges: 1}
	case 1:
		// a slice that holds a pointer to the variable it is stored in
		n := r.Range(1, 4)
		ps := new([]any)
		*ps = make([]any, n)
		for i := range *ps {
			(*ps)[i] = filler()
		}
		i := r.Intn(n)
		(*ps)[i] = ps
		var v any = ps
		if r.Bool() {
			v = *ps
		}
		return cycValue{v: v, kind: "ptr", how: "template:slice-holding-pointer-to-itself", desc: fmt.Sprintf("ps := &[]any{...%d}; (*ps)[%d] = ps; top %T", n, i, v), edges: 1}
	case 2:
		// a map that holds a pointer to the variable it is stored in
		pm := new(map[string]any)
		*pm = map[string]any{"a": filler(), "b": filler()}
		(*pm)["self"] = pm
		var v any = pm
		if r.Bool() {
			v = *pm
		}
		return cycValue{v: v, kind: "ptr", how: "template:map-holding-pointer-to-itself", desc: fmt.Sprintf("pm := &map[string]any{...}; (*pm)[\"self\"] = pm; top %T", v), edges: 1}
	case 3:
		// a slice whose first element is its own prefix
		n := r.Range(2, 4)
		s := make([]any, n)
		for i := range s {
			s[i] = filler()
		}
		s[0] = s[:1]
		return cycValue{v: s, kind: "slice", how: "template:slice-holding-its-prefix", desc: fmt.Sprintf("s := make([]any, %d); s[0] = s[:1]", n), edges: 1}
	case 4:
		// a map that is reachable from one of its own keys
		m := map[any]any{"k": filler()}
		m[&m] = 1
		return cycValue{v: m, kind: "map", how: "template:map-reachable-from-its-key", desc: "m := map[any]any{...}; m[&m] = 1", edges: 1, noCompare: true}
	case 5:
		// the finding: a tree in which every node knows its parent
		root := &PNode{Name: "root"}
		nodes := []*PNode{root}
		n := r.Range(1, 5)
		for i := 0; i < n; i++ {
			p := nodes[r.Intn(len(nodes))]
			k := &PNode{Name: "n" + strconv.Itoa(i), Parent: p}
			p.Kids = append(p.Kids, k)
			nodes = append(nodes, k)
		}
		var v any = root
		switch r.Intn(3) {
		case 1:
			v = nodes[len(nodes)-1] // a leaf: the cycle is reached through Parent
		case 2:
			v = map[string]*PNode{"tree": root}
		}
		return cycValue{v: v, kind: "ptr", how: "template:tree-with-parent-pointers", desc: fmt.Sprintf("tree of %d nodes with Parent set everywhere; top %T", len(nodes), v), edges: n}
	case 6:
		// a ring of k elements
		k := r.Range(1, 4)
		first := &Ring{V: 0}
		cur := first
		for i := 1; i < k; i++ {
			cur.Next = &Ring{V: i, Payload: filler()}
			cur = cur.Next
		}
		cur.Next = first
		var v any = first
		if r.Bool() {
			v = []*Ring{first}
		}
		return cycValue{v: v, kind: "ptr", how: "template:ring", desc: fmt.Sprintf("ring of %d; top %T", k, v), edges: 1}
	default:
		// a cycle that runs through the promoted fields of an embedded struct of an unexported type
		e := &EmbCyc{N: 1}
		if r.Bool() {
			e.Back = e
		} else {
			e.Up = &EmbCyc{N: 2}
			e.Up.Up = e
		}
		return cycValue{v: e, kind: "ptr", how: "template:through-promoted-field", desc: "e := &EmbCyc{}; e.Back = e  /  e.Up.Up = e", edges: 1}
	}
}

// buildAliased builds an acyclic value in which one reference occurs twice: a slot is
// set to a reference it is NOT reachable from. base is the same value without it.
func buildAliased(seed uint64) (cv cycValue, base any) {
	r := mon.NewRand(seed)
	if r.Prob(0.06) {
		// a slice that holds a prefix of itself which ends before the holding element: the
		// prefix starts at the same address but does not contain the slice (no cycle)
		n := r.Range(2, 5)
		k := r.Range(1, n-1)
		mk := func() []any {
			s := make([]any, n)
			for i := range s {
				s[i] = []any{i, "e" + strconv.Itoa(i), NInt(i), &Leaf{I: i}}[i%4]
			}
			return s
		}
		s := mk()
		s[n-1] = s[:k]
		b := mk()
		b[n-1] = append([]any(nil), b[:k]...)
		return cycValue{v: s, kind: "slice", how: "template:slice-holding-a-prefix-that-ends-before-it", desc: fmt.Sprintf("s := make([]any, %d); s[%d] = s[:%d]", n, n-1, k)}, b
	}
	prof := cycProfile(r.Sub("profile"))
	roots := cycRootTypes()
	for attempt := 0; attempt < 8; attempt++ {
		t := roots[r.Intn(len(roots))]
		gs := r.Uint64()
		root := newGen(mon.NewRand(gs), prof).value(t, 0)
		var w walker
		w.walk(root, nil, nil, func(x reflect.Value) { root.Set(x) })
		type cand struct {
			s slotRef
			x refNode
		}
		var cs []cand
		for _, s := range w.slots {
			for _, x := range w.refs {
				// x must not contain the slot, and must not be what the slot holds already
				if isPrefix(x.path, s.path) || !x.v.Type().AssignableTo(s.typ) {
					continue
				}
				cs = append(cs, cand{s, x})
			}
		}
		if len(cs) == 0 {
			continue
		}
		c := cs[r.Intn(len(cs))]
		before := clip(render(root, true), 500)
		x := c.x.v
		how := "shared-reference"
		if x.Kind() == reflect.Slice && x.Len() >= 2 && r.Prob(0.4) {
			x = x.Slice(0, r.Range(1, x.Len()-1))
			how = "shared-prefix-of-slice"
		}
		c.s.set(x)
		cv = cycValue{v: root.Interface(), kind: c.x.v.Kind().String(), how: how,
			desc: fmt.Sprintf("%s  with  %s := %s (%s)", before, pathStr(c.s.path), pathStr(c.x.path), c.x.v.Type())}
		base = newGen(mon.NewRand(gs), prof).value(t, 0).Interface()
		return cv, base
	}
	// fallback: the same pointer twice in a slice
	p := &Leaf{I: r.Intn(100), S: "shared"}
	q := &Leaf{I: p.I, S: "shared"}
	return cycValue{v: []*Leaf{p, p}, kind: "ptr", how: "template:same-pointer-twice", desc: "[]*Leaf{p, p}"}, []*Leaf{q, q}
}

// withLowStack runs f with a small stack limit: an unbounded recursion then dies
// after 48 MB instead of 1 GB.
func withLowStack(f func()) {
	old := rtdebug.SetMaxStack(48 << 20)
	defer rtdebug.SetMaxStack(old)
	f()
}

// cmpCyclic: isomorphism of two possibly cyclic values.
func cmpCyclic(want, got any) (bool, string) {
	cycleSeen = map[[2]uintptr]bool{}
	defer func() { cycleSeen = nil }()
	eq, _, why := cmpAny(want, got)
	return eq, why
}

// cyclicCase: one cyclic value through the serializer, every fourth one through a real
// checkpoint as well. The one acceptable outcome is an error.
func cyclicCase(rep *mon.Reporter, rng *mon.Rand) {
	seed := rng.Uint64()
	cv := buildCyclic(seed)
	truth := buildCyclic(seed)
	rep.Count("cyc/values", 1)
	rep.Count("cyc/through-"+cv.kind, 1)
	rep.Count("cyc/how/"+cv.how, 1)
	rep.Count("cyc/back-edges", int64(cv.edges))
	rep.Distinct("cyclic_shapes", cv.how+"|"+typeStr(cv.v)+"|"+cv.desc)
	wit := map[string]any{"type": typeStr(cv.v), "built": cv.how, "value": cv.desc}

	var (
		b   []byte
		err error
		p   *mon.Panic
	)
	roundtrips++
	withLowStack(func() {
		p = mon.Safe(func() { b, err = compose.VerifSerialize(cv.v) })
	})
	switch {
	case p != nil:
		rep.Count("cyc/panic-encode", 1)
		rep.Violation("C12/panic-encode/cyclic-"+cv.kind, "Marshal panicked for a value that contains itself (an error is due): "+p.Value+" @ "+p.FirstFrame("github.com/cloudwego/eino/")+"\n  "+cv.desc, wit)
	case err != nil:
		rep.Count("cyc/loud-error", 1)
		rep.NonTrivial("cyc:" + cv.how + "|" + cv.desc)
	default:
		// accepted: only a value that contains itself in the same way would be equal
		var got any
		var derr error
		if p := mon.Safe(func() { got, derr = compose.VerifDeserialize(append([]byte(nil), b...)) }); p != nil {
			rep.Count("cyc/panic-decode", 1)
			rep.Violation("C12/panic/cyclic-"+cv.kind, "Marshal accepted a value that contains itself and Unmarshal panicked on its bytes: "+p.Value+"\n  "+cv.desc, wit)
		} else if derr != nil {
			rep.Count("cyc/decode-error-after-encode-ok", 1)
		} else if cv.noCompare {
			rep.Count("cyc/different", 1)
			rep.Violation("C12/different/cyclic-"+cv.kind, "a value that contains itself was accepted without an error (decoded as a "+typeStr(got)+")\n  "+cv.desc+"\n  encoded: "+clip(string(b), 300), wit)
		} else if eq, why := cmpCyclic(truth.v, got); !eq {
			rep.Count("cyc/different", 1)
			rep.Violation("C12/different/cyclic-"+cv.kind, "a value that contains itself was accepted and came back as another value: "+why+"\n  "+cv.desc+"\n  encoded: "+clip(string(b), 300), wit)
		} else {
			rep.Count("cyc/roundtrip-ok", 1)
		}
	}

	if rng.Intn(4) != 0 {
		return
	}
	// the same through a real checkpoint: the interrupt must fail loudly
	simple := func() (any, any) {
		s := rng.Uint64()
		pr := cycProfile(mon.NewRand(s))
		a, b, _ := genPair(s, pr)
		if a == nil {
			return "x", "x"
		}
		return a, b
	}
	c := bbCase{dag: rng.Bool()}
	c.stateV, c.tV = simple()
	c.stateW, c.tW = simple()
	c.pendIn, c.tIn = simple()
	slot := []string{"state.V", "state.W", "pending-input"}[rng.Intn(3)]
	switch slot {
	case "state.V":
		c.stateV, c.tV = cv.v, truth.v
	case "state.W":
		c.stateW, c.tW = cv.v, truth.v
	default:
		c.pendIn, c.tIn = cv.v, truth.v
	}
	var r bbResult
	cycleSeen = map[[2]uintptr]bool{}
	withLowStack(func() { r = runBlackBox(c) })
	cycleSeen = nil
	rep.Count("cyc_bb/"+r.class, 1)
	rep.Count("cyc_bb/cases", 1)
	wit["slot"] = slot
	switch r.class {
	case bbFirstErr, bbResumeErr:
		// loud
	case bbOK:
		// restored as a value that contains itself in the same way
	case bbBuildErr, bbNoInterrupt:
		rep.Inconclusive("black-box graph (cyclic value) did not behave as the harness expects: " + r.class + ": " + r.why)
	default:
		rep.Violation("C12/blackbox/"+r.class+"/cyclic-"+cv.kind, "a checkpoint that has to carry a value that contains itself ("+slot+") must fail loudly: "+r.class+": "+r.why+"\n  "+cv.desc, wit)
	}
}

// aliasedCase: a value that shares a reference without containing itself: inside the
// universe, a round trip is due.
func aliasedCase(rep *mon.Reporter, rng *mon.Rand) {
	seed := rng.Uint64()
	cv, base := buildAliased(seed)
	truth, _ := buildAliased(seed)
	rep.Count("aliased/values", 1)
	rep.Count("aliased/how/"+cv.how, 1)
	if eq, why := twinsEqual(truth.v, cv.v); !eq {
		rep.Inconclusive("aliased twins differ (harness bug): " + why)
		return
	}
	res := roundtrip(cv.v, truth.v)
	if eq, why := twinsEqual(truth.v, cv.v); !eq {
		rep.Violation("C12/input-mutated/Marshal", "the value handed to Marshal was modified: "+why, mkWitness("serializer (shared reference)", truth.v, res, nil))
	}
	rep.Count("aliased/"+res.class, 1)
	if res.class == clsOK {
		rep.NonTrivial("aliased:" + cv.desc)
	}
	if res.violation() {
		// is the shared reference the reason? the same value without it
		if bres := roundtrip(base, base); bres.violation() {
			cl := classify(base, bres)
			rep.Violation(cl.signature, fmt.Sprintf("%s of a %s: %s\n  value: %s", bres.class, typeStr(base), bres.why, clip(renderAny(base), 600)), mkWitness("serializer", base, bres, &cl))
			return
		}
		w := mkWitness("serializer (shared reference)", truth.v, res, nil)
		w.Why += " | " + cv.desc
		rep.Violation("C12/"+res.group()+"/shared-"+cv.kind, fmt.Sprintf("%s of a %s in which a %s occurs twice (%s) although the same value without the shared reference round-trips: %s\n  %s",
			res.class, typeStr(truth.v), cv.kind, cv.how, res.why, cv.desc), w)
	}
	if rng.Intn(4) != 0 {
		return
	}
	// one reference in two places of a checkpoint: state and pending input
	rep.Count("aliased_bb/cases", 1)
	s := rng.Uint64()
	pr := cycProfile(mon.NewRand(s))
	types := []reflect.Type{rt[*Leaf](), rt[*Tree](), rt[map[string]any](), rt[[]any](), rt[*PNode](), rt[[]*Leaf](), rt[*Ifaces]()}
	t := types[rng.Intn(len(types))]
	shared, tShared := genPairT(s, pr, t)
	c := bbCase{dag: rng.Bool(), stateV: shared, tV: tShared, stateW: shared, tW: tShared, pendIn: "x", tIn: "x"}
	switch rng.Intn(3) {
	case 0:
		c.pendIn, c.tIn = shared, tShared
	case 1:
		c.stateW, c.tW = []any{shared, shared}, []any{tShared, tShared}
	}
	if v := reflect.ValueOf(shared); (v.Kind() == reflect.Ptr || v.Kind() == reflect.Map || v.Kind() == reflect.Slice) && v.IsNil() {
		c.pendIn, c.tIn = "x", "x" // a nil node output is not routed
	}
	r := runBlackBox(c)
	rep.Count("aliased_bb/"+r.class, 1)
	switch r.class {
	case bbOK:
	case bbBuildErr, bbNoInterrupt:
		rep.Inconclusive("black-box graph (shared reference) did not behave as the harness expects: " + r.class + ": " + r.why)
	default:
		for _, x := range []any{c.tV, c.tW, c.tIn} {
			if x != nil && valueIn(x) != "" {
				return
			}
		}
		rep.Violation("C12/blackbox/"+r.class+"/shared-reference", "state.V, state.W and the pending input of a checkpoint share one reference ("+t.String()+"): "+r.why,
			map[string]any{"shared": clip(renderAny(tShared), 600), "state.W": clip(renderAny(c.tW), 300)})
	}
}
