package c12

import (
	"fmt"
	"reflect"
	"testing"

	"github.com/cloudwego/eino/compose"
	"github.com/cloudwego/eino/schema"
)

type PNames []string
type PDict map[string]int
type PArr [2]int
type PUNames []string // unregistered
type PUnexp struct {
	A int
	b int
}
type PTag struct {
	User  string `json:"user"`
	Token string `json:"-"`
	Old   string `json:"value"`
	New   string `json:"value"`
	Om    int    `json:"om,omitempty"`
}
type PHold struct {
	N   PNames
	PN  *PNames
	D   PDict
	PD  *PDict
	A   [2]int
	PA  PArr
	UN  PUNames
	PUN *PUNames
}

func TestProbe(t *testing.T) {
	_ = registerAll()
	_ = compose.RegisterSerializableType[PNames]("p_names")
	_ = compose.RegisterSerializableType[PDict]("p_dict")
	_ = compose.RegisterSerializableType[PArr]("p_arr")
	_ = compose.RegisterSerializableType[PUnexp]("p_unexp")
	_ = compose.RegisterSerializableType[PTag]("p_tag")
	_ = compose.RegisterSerializableType[PHold]("p_hold")
	one := 1
	var nilSl *[]int
	vals := []any{
		PNames{"a"}, &PNames{"a"}, PDict{"a": 1}, []PNames{{"a"}}, map[string]PDict{"x": {"a": 1}}, []any{PNames{"a"}},
		PHold{N: PNames{"a"}}, PHold{PN: &PNames{"a"}}, PHold{D: PDict{"a": 1}}, PHold{PD: &PDict{"a": 1}}, PHold{A: [2]int{1, 2}}, PHold{PA: PArr{1, 2}},
		PHold{UN: PUNames{"x"}}, PHold{PUN: &PUNames{"x"}},
		[3]int{1, 2, 3}, PArr{1, 2}, &PArr{1, 2}, [2]any{1, "a"}, [][2]int{{1, 2}}, map[[2]int]string{{1, 2}: "a"},
		PUNames{"a"}, []any{PUNames{"a"}}, []PUNames{{"a"}},
		[][]int{{1}, nil}, map[string][]string{"a": {"b"}}, []map[string]int{{"a": 1}}, nilSl, PtrCont{}, []*[]int{nil}, [][]NInt{{1}}, map[NStr][]NInt{"a": {1}},
		[][][]int{{{1}}}, []map[KeyA][]*Leaf{{KeyA{A: 1}: {nil}}}, (**[]int)(nil), []*map[string]int{nil},
		map[any]int{1: 1, int64(1): 2, "1": 3, 1.0: 4, NInt(1): 5}, map[any]any{KeyA{A: 1}: KeyA{A: 2}, uint8(3): nil}, map[Shape]int{Circle{R: 1}: 1, UnitSq(2): 2},
		map[any]int{nil: 1}, map[any]int{&one: 1}, map[*int]int{&one: 1},
		PUnexp{A: 1, b: 2}, PTag{User: "u", Token: "t", Old: "o", New: "n", Om: 0},
		&schema.Message{Role: schema.User, MultiContent: []schema.ChatMessagePart{{Type: schema.ChatMessagePartTypeImageURL, ImageURL: &schema.ChatMessageImageURL{URL: "u", Detail: schema.ImageURLDetailHigh}}}},
		&schema.Message{Role: schema.Assistant, ResponseMeta: &schema.ResponseMeta{LogProbs: &schema.LogProbs{Content: []schema.LogProb{{Token: "a", TopLogProbs: []schema.TopLogProb{{Token: "b"}}}}}}},
		map[string]PNames{"a": nil}, []PDict{nil},
	}
	for _, v := range vals {
		r := roundtrip(v, v)
		fmt.Printf("%-32s %-70s -> %s %s\n", r.class, clip(fmt.Sprintf("%T %+v", v, v), 70), clip(r.why, 160), "")
		_ = reflect.TypeOf(v)
	}
}
