package c12

import (
	"context"
	"fmt"
	"io"
	"reflect"
	"sort"
	"sync"

	"github.com/cloudwego/eino/components/document"
	"github.com/cloudwego/eino/components/embedding"
	"github.com/cloudwego/eino/components/indexer"
	"github.com/cloudwego/eino/components/model"
	"github.com/cloudwego/eino/components/prompt"
	"github.com/cloudwego/eino/components/retriever"
	"github.com/cloudwego/eino/components/tool"
	"github.com/cloudwego/eino/compose"
	"github.com/cloudwego/eino/schema"

	"verifharness/internal/mon"
)

// ---------------------------------------------------------------------------
// The values that travel between eino's built-in components (hunt/loader-source-
// unregistered): compose/checkpoint.go promises "all built-in eino types are already
// registered", so whatever a built-in component kind takes or returns, pending at an
// interrupt, must be written to the checkpoint and restored.
//
//   - componentIO derives the input / output types from the method signatures of the
//     component interfaces by reflection (a stream of T travels as T): every one of
//     them is a type of the registered universe; values of these types go through the
//     serializer like every other generated value (dynType, msgTypes).
//   - componentCase builds a real typed graph START -> [pre] -> K -> [post] -> END in
//     which K is added with the node kind of the component (AddLoaderNode, ...,
//     AddToolsNode) and implemented by a fake that records what it is given; the run
//     is interrupted before or after K (Invoke or Stream, Pregel or all-predecessor)
//     and resumed from a byte-only store. What K (resp. the successor of K) receives
//     after the resume and the final output must equal the generated values.
// ---------------------------------------------------------------------------

type ioType struct {
	component string
	method    string
	dir       string // in | out
	t         reflect.Type
}

var (
	componentIO      []ioType
	componentIOTypes []reflect.Type // distinct
)

var (
	ctxType = reflect.TypeOf((*context.Context)(nil)).Elem()
	errType = reflect.TypeOf((*error)(nil)).Elem()
)

// streamElem: *schema.StreamReader[T] -> T (recognised by its Recv method).
func streamElem(t reflect.Type) reflect.Type {
	if t.Kind() == reflect.Ptr && t.Elem().PkgPath() == schemaPkg {
		if m, ok := t.MethodByName("Recv"); ok && m.Type.NumOut() == 2 {
			return m.Type.Out(0)
		}
	}
	return t
}

// collectIO: parameters and results of every method of a component interface that
// moves data (configuration methods are skipped), without context, options and error.
func collectIO(component string, it reflect.Type, receiver bool) {
	skip := map[string]bool{"Info": true, "BindTools": true, "WithTools": true, "GetType": true, "IsCallbacksEnabled": true}
	for i := 0; i < it.NumMethod(); i++ {
		m := it.Method(i)
		if skip[m.Name] {
			continue
		}
		ft := m.Type
		first := 0
		if receiver {
			first = 1
		}
		nIn := ft.NumIn()
		if ft.IsVariadic() {
			nIn-- // the options
		}
		for j := first; j < nIn; j++ {
			if p := ft.In(j); p != ctxType {
				componentIO = append(componentIO, ioType{component, m.Name, "in", streamElem(p)})
			}
		}
		for j := 0; j < ft.NumOut(); j++ {
			if o := ft.Out(j); o != errType {
				componentIO = append(componentIO, ioType{component, m.Name, "out", streamElem(o)})
			}
		}
	}
}

func registerComponents() {
	collectIO("document.Loader", rt[document.Loader](), false)
	collectIO("document.Transformer", rt[document.Transformer](), false)
	collectIO("embedding.Embedder", rt[embedding.Embedder](), false)
	collectIO("indexer.Indexer", rt[indexer.Indexer](), false)
	collectIO("retriever.Retriever", rt[retriever.Retriever](), false)
	collectIO("model.BaseChatModel", rt[model.BaseChatModel](), false)
	collectIO("prompt.ChatTemplate", rt[prompt.ChatTemplate](), false)
	collectIO("tool.InvokableTool", rt[tool.InvokableTool](), false)
	collectIO("tool.StreamableTool", rt[tool.StreamableTool](), false)
	// the tools node is a concrete type: its node-level input and output
	if m, ok := reflect.TypeOf(&compose.ToolsNode{}).MethodByName("Invoke"); ok {
		ft := m.Type
		componentIO = append(componentIO, ioType{"compose.ToolsNode", "Invoke", "in", ft.In(2)}, ioType{"compose.ToolsNode", "Invoke", "out", ft.Out(0)})
	}
	seen := map[reflect.Type]bool{}
	for _, x := range componentIO {
		if !seen[x.t] {
			seen[x.t] = true
			componentIOTypes = append(componentIOTypes, x.t)
		}
		// the struct types these are made of are "built-in eino types"
		markEinoTypes(x.t, map[reflect.Type]bool{})
	}
	sort.Slice(componentIOTypes, func(i, j int) bool { return componentIOTypes[i].String() < componentIOTypes[j].String() })
	// serializer-only: these types are chosen like the message types
	msgTypes = append(msgTypes, componentIOTypes...)
	structTypes = append(structTypes, typeInfo{t: rt[document.Source](), w: 3, gate: gSchema})
}

// markEinoTypes: every named type declared by eino below t counts as registered
// (documented: "all built-in eino types are already registered").
func markEinoTypes(t reflect.Type, seen map[reflect.Type]bool) {
	if seen[t] {
		return
	}
	seen[t] = true
	if isEinoType(t) && t.Kind() != reflect.Interface {
		registeredSet[t] = true
	}
	switch t.Kind() {
	case reflect.Ptr, reflect.Slice, reflect.Array:
		markEinoTypes(t.Elem(), seen)
	case reflect.Map:
		markEinoTypes(t.Key(), seen)
		markEinoTypes(t.Elem(), seen)
	case reflect.Struct:
		for i := 0; i < t.NumField(); i++ {
			markEinoTypes(t.Field(i).Type, seen)
		}
	}
}

// ---------------------------------------------------------------------------

type compRec struct {
	mu       sync.Mutex
	kGot     []any
	kCalls   int
	preRuns  int
	postGot  []any
	postRuns int
}

func (r *compRec) k(in any) {
	r.mu.Lock()
	r.kGot = append(r.kGot, in)
	r.kCalls++
	r.mu.Unlock()
}

type compRun struct {
	kind                      string
	pre, post, before, dag    bool
	streamFirst, streamResume bool
	in, tIn, in2              any // value of the input type of K: handed to eino / ground truth / third copy (reference run)
	out, tOut                 any // value of the output type of K (returned by the fake); nil for the tools node: taken from an uninterrupted run
	rec                       *compRec
}

func (c *compRun) String() string {
	pos := "after"
	if c.before {
		pos = "before"
	}
	return fmt.Sprintf("%s interrupt-%s pre=%v post=%v dag=%v stream=%v/%v", c.kind, pos, c.pre, c.post, c.dag, c.streamFirst, c.streamResume)
}

// fakeComp implements every component interface: it records its input and returns
// the prepared output.
type fakeComp struct{ c *compRun }

func (f fakeComp) Load(_ context.Context, src document.Source, _ ...document.LoaderOption) ([]*schema.Document, error) {
	f.c.rec.k(src)
	return f.c.out.([]*schema.Document), nil
}

func (f fakeComp) Transform(_ context.Context, src []*schema.Document, _ ...document.TransformerOption) ([]*schema.Document, error) {
	f.c.rec.k(src)
	return f.c.out.([]*schema.Document), nil
}

func (f fakeComp) EmbedStrings(_ context.Context, texts []string, _ ...embedding.Option) ([][]float64, error) {
	f.c.rec.k(texts)
	return f.c.out.([][]float64), nil
}

func (f fakeComp) Store(_ context.Context, docs []*schema.Document, _ ...indexer.Option) ([]string, error) {
	f.c.rec.k(docs)
	return f.c.out.([]string), nil
}

func (f fakeComp) Retrieve(_ context.Context, query string, _ ...retriever.Option) ([]*schema.Document, error) {
	f.c.rec.k(query)
	return f.c.out.([]*schema.Document), nil
}

func (f fakeComp) Generate(_ context.Context, input []*schema.Message, _ ...model.Option) (*schema.Message, error) {
	f.c.rec.k(input)
	return f.c.out.(*schema.Message), nil
}

func (f fakeComp) Stream(_ context.Context, input []*schema.Message, _ ...model.Option) (*schema.StreamReader[*schema.Message], error) {
	f.c.rec.k(input)
	return schema.StreamReaderFromArray([]*schema.Message{f.c.out.(*schema.Message)}), nil
}

func (f fakeComp) Format(_ context.Context, vs map[string]any, _ ...prompt.Option) ([]*schema.Message, error) {
	f.c.rec.k(vs)
	return f.c.out.([]*schema.Message), nil
}

// knownTool: the one tool the tools node knows; every other name goes to the
// UnknownToolsHandler. Both are pure functions of their arguments.
type knownTool struct{}

func (knownTool) Info(context.Context) (*schema.ToolInfo, error) {
	return &schema.ToolInfo{Name: "known", Desc: "echo"}, nil
}

func (knownTool) InvokableRun(_ context.Context, args string, _ ...tool.Option) (string, error) {
	return "known(" + args + ")", nil
}

type compKind struct {
	name    string
	in, out reflect.Type
	run     func(c *compRun) bbResult
}

var compKinds = []compKind{
	{"loader", rt[document.Source](), rt[[]*schema.Document](), func(c *compRun) bbResult {
		return runComp(c, func(g *compose.Graph[document.Source, []*schema.Document], key string) error {
			return g.AddLoaderNode(key, fakeComp{c})
		})
	}},
	{"transformer", rt[[]*schema.Document](), rt[[]*schema.Document](), func(c *compRun) bbResult {
		return runComp(c, func(g *compose.Graph[[]*schema.Document, []*schema.Document], key string) error {
			return g.AddDocumentTransformerNode(key, fakeComp{c})
		})
	}},
	{"embedder", rt[[]string](), rt[[][]float64](), func(c *compRun) bbResult {
		return runComp(c, func(g *compose.Graph[[]string, [][]float64], key string) error {
			return g.AddEmbeddingNode(key, fakeComp{c})
		})
	}},
	{"indexer", rt[[]*schema.Document](), rt[[]string](), func(c *compRun) bbResult {
		return runComp(c, func(g *compose.Graph[[]*schema.Document, []string], key string) error {
			return g.AddIndexerNode(key, fakeComp{c})
		})
	}},
	{"retriever", rt[string](), rt[[]*schema.Document](), func(c *compRun) bbResult {
		return runComp(c, func(g *compose.Graph[string, []*schema.Document], key string) error {
			return g.AddRetrieverNode(key, fakeComp{c})
		})
	}},
	{"chatmodel", rt[[]*schema.Message](), rt[*schema.Message](), func(c *compRun) bbResult {
		return runComp(c, func(g *compose.Graph[[]*schema.Message, *schema.Message], key string) error {
			return g.AddChatModelNode(key, fakeComp{c})
		})
	}},
	{"template", rt[map[string]any](), rt[[]*schema.Message](), func(c *compRun) bbResult {
		return runComp(c, func(g *compose.Graph[map[string]any, []*schema.Message], key string) error {
			return g.AddChatTemplateNode(key, fakeComp{c})
		})
	}},
	{"tools", rt[*schema.Message](), rt[[]*schema.Message](), func(c *compRun) bbResult {
		return runComp(c, func(g *compose.Graph[*schema.Message, []*schema.Message], key string) error {
			tn, err := compose.NewToolNode(context.Background(), &compose.ToolsNodeConfig{
				Tools: []tool.BaseTool{knownTool{}},
				UnknownToolsHandler: func(_ context.Context, name, input string) (string, error) {
					return "unknown:" + name + "(" + input + ")", nil
				},
			})
			if err != nil {
				return err
			}
			// the tools node is eino's own code: what it is given is observed by a state pre-handler
			return g.AddToolsNode(key, tn, compose.WithStatePreHandler(func(_ context.Context, in *schema.Message, _ *bbState) (*schema.Message, error) {
				c.rec.k(in)
				return in, nil
			}))
		})
	}},
}

func buildComp[I, O any](c *compRun, addK func(g *compose.Graph[I, O], key string) error, store *byteStore) (compose.Runnable[I, O], error) {
	rec := c.rec
	var g *compose.Graph[I, O]
	if c.kind == "tools" {
		g = compose.NewGraph[I, O](compose.WithGenLocalState(func(context.Context) *bbState { return &bbState{N: 1} }))
	} else {
		g = compose.NewGraph[I, O]()
	}
	prev := compose.START
	if c.pre {
		if err := g.AddLambdaNode("pre", compose.InvokableLambda(func(_ context.Context, in I) (I, error) {
			rec.mu.Lock()
			rec.preRuns++
			rec.mu.Unlock()
			return in, nil
		})); err != nil {
			return nil, err
		}
		if err := g.AddEdge(prev, "pre"); err != nil {
			return nil, err
		}
		prev = "pre"
	}
	if err := addK(g, "K"); err != nil {
		return nil, err
	}
	if err := g.AddEdge(prev, "K"); err != nil {
		return nil, err
	}
	prev = "K"
	if c.post {
		if err := g.AddLambdaNode("post", compose.InvokableLambda(func(_ context.Context, in O) (O, error) {
			rec.mu.Lock()
			rec.postRuns++
			rec.postGot = append(rec.postGot, in)
			rec.mu.Unlock()
			return in, nil
		})); err != nil {
			return nil, err
		}
		if err := g.AddEdge(prev, "post"); err != nil {
			return nil, err
		}
		prev = "post"
	}
	if err := g.AddEdge(prev, compose.END); err != nil {
		return nil, err
	}
	var opts []compose.GraphCompileOption
	if store != nil {
		opts = append(opts, compose.WithCheckPointStore(store))
		if c.before {
			opts = append(opts, compose.WithInterruptBeforeNodes([]string{"K"}))
		} else {
			opts = append(opts, compose.WithInterruptAfterNodes([]string{"K"}))
		}
	}
	if c.dag {
		opts = append(opts, compose.WithNodeTriggerMode(compose.AllPredecessor))
	}
	return g.Compile(context.Background(), opts...)
}

// callComp runs r in value or in stream form; chunks = number of items of the output stream.
func callComp[I, O any](r compose.Runnable[I, O], stream bool, in I, opts ...compose.Option) (out O, chunks int, err error) {
	ctx := context.Background()
	if !stream {
		out, err = r.Invoke(ctx, in, opts...)
		return out, 1, err
	}
	sr, err := r.Stream(ctx, in, opts...)
	if err != nil {
		return out, 0, err
	}
	defer sr.Close()
	for {
		ch, e := sr.Recv()
		if e == io.EOF {
			return out, chunks, nil
		}
		if e != nil {
			return out, chunks, e
		}
		out = ch
		chunks++
	}
}

func runComp[I, O any](c *compRun, addK func(g *compose.Graph[I, O], key string) error) bbResult {
	res := bbResult{}
	if c.tOut == nil {
		// the output of eino's own node: taken from an uninterrupted run of the same graph
		c.rec = &compRec{}
		r0, err := buildComp(c, addK, nil)
		if err != nil {
			return bbResult{class: bbBuildErr, why: err.Error()}
		}
		var out0 O
		var err0 error
		if p := mon.Safe(func() { out0, _, err0 = callComp(r0, false, c.in2.(I)) }); p != nil || err0 != nil {
			return bbResult{class: bbBuildErr, why: fmt.Sprintf("uninterrupted reference run failed: %v %v", p, err0)}
		}
		c.tOut = out0
	}
	c.rec = &compRec{}
	rec := c.rec
	store := newByteStore()
	r, err := buildComp(c, addK, store)
	if err != nil {
		return bbResult{class: bbBuildErr, why: err.Error()}
	}
	fill := func() bbResult {
		res.sets, res.gets, res.cpBytes = store.sets, store.gets, store.bytes
		return res
	}

	var err1 error
	if p := mon.Safe(func() { _, _, err1 = callComp(r, c.streamFirst, c.in.(I), compose.WithCheckPointID("cp")) }); p != nil {
		res.class, res.why = bbFirstPanic, p.Value+" @ "+p.FirstFrame("github.com/cloudwego/eino/")
		return fill()
	}
	if err1 == nil {
		res.class, res.why = bbNoInterrupt, "first run finished without interrupt"
		return fill()
	}
	if _, ok := compose.ExtractInterruptInfo(err1); !ok {
		res.class, res.why = bbFirstErr, err1.Error()
		return fill()
	}
	if store.sets == 0 {
		res.class, res.why = bbNoInterrupt, "interrupt reported but nothing was written to the store"
		return fill()
	}
	kBefore := rec.kCalls

	var (
		out    O
		chunks int
		err2   error
		zero   I
	)
	if p := mon.Safe(func() { out, chunks, err2 = callComp(r, c.streamResume, zero, compose.WithCheckPointID("cp")) }); p != nil {
		res.class, res.why = bbResumePanic, p.Value+" @ "+p.FirstFrame("github.com/cloudwego/eino/")
		return fill()
	}
	if err2 != nil {
		res.class, res.why = bbResumeErr, err2.Error()
		return fill()
	}
	rec.mu.Lock()
	defer rec.mu.Unlock()
	wantK := 1
	wantKAtResume := 0
	if c.before {
		wantKAtResume = 1
	}
	wantPre, wantPost := 0, 0
	if c.pre {
		wantPre = 1
	}
	if c.post {
		wantPost = 1
	}
	if rec.kCalls != wantK || rec.kCalls-kBefore != wantKAtResume || rec.preRuns != wantPre || rec.postRuns != wantPost || store.gets == 0 {
		res.class = bbNotRestored
		res.why = fmt.Sprintf("resume finished but K ran %d time(s) (%d of them after the resume, expected %d/%d), pre ran %d (expected %d), post ran %d (expected %d), store gets %d",
			rec.kCalls, rec.kCalls-kBefore, wantK, wantKAtResume, rec.preRuns, wantPre, rec.postRuns, wantPost, store.gets)
		return fill()
	}
	type chk struct {
		slot      string
		want, got any
	}
	checks := []chk{{"input of K", c.tIn, rec.kGot[0]}}
	if c.post {
		checks = append(checks, chk{"output of K = input of its successor", c.tOut, rec.postGot[0]})
	}
	if chunks == 1 {
		checks = append(checks, chk{"final output", c.tOut, any(out)})
	} else {
		res.slot = "multi-chunk-output"
	}
	for _, k := range checks {
		if eq, _, why := cmpAny(k.want, k.got); !eq {
			res.class, res.slot, res.want = bbDifferent, k.slot, k.want
			res.why = k.slot + ": " + why
			return fill()
		}
	}
	res.class = bbOK
	return fill()
}

// nonNilTop: a typed graph does not route a nil pointer / the tools node needs a message.
func genTop(seed uint64, p profile, t reflect.Type) any {
	g := newGen(mon.NewRand(seed), p)
	if t.Kind() == reflect.Ptr {
		e := g.value(t.Elem(), 0)
		pv := reflect.New(t.Elem())
		pv.Elem().Set(e)
		return pv.Interface()
	}
	return g.value(t, 0).Interface()
}

// toolsInput makes a generated message acceptable for the tools node: an assistant
// message with at least one tool call; some calls go to the known tool.
func toolsInput(m *schema.Message, seed uint64) {
	r := mon.NewRand(seed)
	m.Role = schema.Assistant
	if len(m.ToolCalls) == 0 {
		m.ToolCalls = []schema.ToolCall{{ID: "call-1", Type: "function", Function: schema.FunctionCall{Name: "t", Arguments: `{"a":1}`}}}
	}
	for i := range m.ToolCalls {
		if r.Prob(0.4) {
			m.ToolCalls[i].Function.Name = "known"
		}
	}
}

// componentCase: one interrupted and resumed run of a graph around a built-in component kind.
func componentCase(rep *mon.Reporter, rng *mon.Rand, prof profile) {
	kind := compKinds[rng.Intn(len(compKinds))]
	if prof.budget > 30 {
		prof.budget = 30
	}
	prof.allowSchema = true
	prof.maxDepth = max(prof.maxDepth, 3)
	prof.budget = max(prof.budget, 12)
	c := &compRun{kind: kind.name, pre: rng.Bool(), post: rng.Bool(), before: rng.Bool(), dag: rng.Bool(), streamFirst: rng.Prob(0.35), streamResume: rng.Prob(0.35)}
	if !c.before {
		c.post = true // an interrupt after the last node of a run is not taken: K needs a successor
	}
	sIn, sOut := rng.Uint64(), rng.Uint64()
	c.in, c.tIn, c.in2 = genTop(sIn, prof, kind.in), genTop(sIn, prof, kind.in), genTop(sIn, prof, kind.in)
	if kind.name == "tools" {
		ts := rng.Uint64()
		for _, x := range []any{c.in, c.tIn, c.in2} {
			toolsInput(x.(*schema.Message), ts)
		}
	} else {
		c.out, c.tOut = genTop(sOut, prof, kind.out), genTop(sOut, prof, kind.out)
	}
	if eq, why := twinsEqual(c.tIn, c.in); !eq {
		rep.Inconclusive("component twins differ (harness bug): " + why)
		return
	}
	r := kind.run(c)
	pos := "after"
	if c.before {
		pos = "before"
	}
	rep.Count("comp_bb/"+r.class, 1)
	rep.Count("comp_bb/cases", 1)
	rep.Count("comp_bb_kind/"+kind.name, 1)
	rep.Count("comp_bb_kind/"+kind.name+"/"+pos+"/"+r.class, 1)
	rep.Count("comp_bb_store_sets", int64(r.sets))
	rep.Count("comp_bb_store_gets", int64(r.gets))
	if c.streamFirst || c.streamResume {
		rep.Count("comp_bb_paradigm/stream", 1)
	} else {
		rep.Count("comp_bb_paradigm/invoke", 1)
	}
	if r.slot == "multi-chunk-output" {
		rep.Count("comp_bb/multi-chunk-output-not-compared", 1)
	}
	desc := fmt.Sprintf("%s | input of K (%v) = %s | output of K (%v) = %s", c, kind.in, clip(renderAny(c.tIn), 300), kind.out, clip(renderAny(c.tOut), 300))
	// the value that was pending at the interrupt
	pending, pname := c.tIn, "input of K"
	if !c.before {
		pending, pname = c.tOut, "output of K"
	}
	switch r.class {
	case bbOK:
		rep.NonTrivial("comp:" + desc)
	case bbBuildErr, bbNoInterrupt:
		rep.Inconclusive("component graph did not behave as the harness expects: " + c.String() + ": " + r.class + ": " + r.why)
	case bbFirstErr, bbResumeErr:
		if pending != nil && valueIn(pending) != "" {
			rep.Count("comp_bb_error_value_outside_universe", 1)
			return
		}
		// is it the serializer? the pending value on its own
		if pending != nil {
			if res := roundtrip(pending, pending); res.violation() {
				cl := classify(pending, res)
				rep.Violation(cl.signature, r.class+" ("+c.String()+"): "+r.why+"\n  "+desc, mkWitness("checkpoint (component graph, "+pname+")", pending, res, &cl))
				rep.Count("violation_class/comp:"+cl.signature, 1)
				return
			}
		}
		at := "at-interrupt"
		if r.class == bbResumeErr {
			at = "at-resume"
		}
		rep.Violation("C12/blackbox/component-io/error-"+at, r.class+" ("+c.String()+"): "+r.why+" although the pending value is inside the universe and the serializer alone handles it\n  "+desc, map[string]any{"case": c.String(), "values": desc})
	case bbDifferent:
		if res := roundtrip(r.want, r.want); res.violation() {
			cl := classify(r.want, res)
			rep.Violation(cl.signature, "after interrupt+resume ("+c.String()+") "+r.why+"\n  "+desc, mkWitness("checkpoint (component graph, "+r.slot+")", r.want, res, &cl))
			return
		}
		rep.Violation("C12/blackbox/component-io/different", "after interrupt+resume ("+c.String()+") "+r.why+" although the serializer alone round-trips the value\n  "+desc,
			map[string]any{"case": c.String(), "slot": r.slot, "written": clip(renderAny(r.want), 1500)})
	case bbNotRestored:
		rep.Violation("C12/blackbox/component-io/not-restored", c.String()+": "+r.why+"\n  "+desc, map[string]any{"case": c.String(), "values": desc})
	case bbFirstPanic, bbResumePanic:
		if pending != nil {
			if res := roundtrip(pending, pending); res.violation() {
				cl := classify(pending, res)
				rep.Violation(cl.signature, r.class+" ("+c.String()+"): "+r.why+"\n  "+desc, mkWitness("checkpoint (component graph, "+pname+")", pending, res, &cl))
				return
			}
		}
		rep.Violation("C12/blackbox/component-io/"+r.class, c.String()+": "+r.why+"\n  "+desc, map[string]any{"case": c.String(), "values": desc})
	}
}
