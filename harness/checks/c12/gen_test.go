package c12

import (
	"math"
	"reflect"
	"unsafe"

	"verifharness/internal/mon"
)

// profile: the knobs of one generated case (drawn from the case PRNG).
type profile struct {
	maxDepth int
	budget   int
	// allowKnown: shapes of the D-C12 classes may be generated (non-nil pointer to a
	// container, nil inside a pointer chain of depth >= 2). In the other cases
	// the generator stays clear of them so that the rest of the encoder is
	// explored without being masked.
	allowKnown bool
	// allowUnsupported: no longer used (containers of containers and nil pointers to
	// containers are inside the universe and always generated); the draw is kept so
	// that the other knobs keep their PRNG positions.
	allowUnsupported bool
	// allowOutside: values outside the stated universe (unregistered struct, chan,
	// func, complex, NaN/Inf).
	allowOutside bool
	// allowPtrIface: pointers to interface-typed variables (*any, *Shape, **any)
	allowPtrIface bool
	// soft classes (outside the stated universe: an error is fine, a different value
	// or a panic is not), see NOTES.md "Universe"
	allowNamedCont  bool // registered named slice / map types
	allowIfaceKey   bool // maps whose key type is an interface (any, Shape)
	allowArrays     bool // arrays, named arrays
	allowUnregNamed bool // named slice / map types that were never registered
	allowPtrKey     bool // maps whose key type is a pointer
	allowHidden     bool // struct with unexported fields
	// inside the universe, switched to keep the other cases small
	allowSchema bool // eino's own message / document types
	allowTagKey bool // map key struct with json tags
	// structs that embed a struct of an unexported type (outside: an error is fine, a
	// silent loss of the promoted fields is not)
	allowEmbedded bool
	pNilPtr     float64
	pNilIface   float64
}

type gen struct {
	r     *mon.Rand
	p     profile
	left  int
	feats map[string]int // features the generator produced deliberately
}

func newProfile(r *mon.Rand) profile {
	p := profile{
		maxDepth:  r.Range(1, 6),
		budget:    r.Range(4, 90),
		pNilPtr:   []float64{0.1, 0.25, 0.5}[r.Intn(3)],
		pNilIface: []float64{0.05, 0.2, 0.4}[r.Intn(3)],
	}
	p.allowKnown = r.Prob(0.22)
	p.allowUnsupported = r.Prob(0.12)
	p.allowOutside = r.Prob(0.08)
	p.allowPtrIface = r.Prob(0.08)
	p.allowNamedCont = r.Prob(0.2)
	p.allowIfaceKey = r.Prob(0.15)
	p.allowArrays = r.Prob(0.08)
	p.allowUnregNamed = r.Prob(0.06)
	p.allowPtrKey = r.Prob(0.06)
	p.allowHidden = r.Prob(0.05)
	p.allowSchema = r.Prob(0.25)
	p.allowTagKey = r.Prob(0.08)
	p.allowEmbedded = r.Prob(0.12)
	return p
}

func newGen(r *mon.Rand, p profile) *gen {
	return &gen{r: r, p: p, left: p.budget, feats: map[string]int{}}
}

func (g *gen) feat(s string) { g.feats[s]++ }

func (g *gen) exhausted(depth int) bool { return depth >= g.p.maxDepth || g.left <= 0 }

// ---------------------------------------------------------------------------
// types
// ---------------------------------------------------------------------------

func (g *gen) pickStruct() reflect.Type {
	skip := func(ti typeInfo) bool {
		return ti.gate != nil && !ti.gate(g.p)
	}
	total := 0
	for _, ti := range structTypes {
		if skip(ti) {
			continue
		}
		total += ti.w
	}
	n := g.r.Intn(total)
	for _, ti := range structTypes {
		if skip(ti) {
			continue
		}
		if n < ti.w {
			return ti.t
		}
		n -= ti.w
	}
	return structTypes[0].t
}

// leafType: a type that is registered by itself (basic, named basic, struct).
func (g *gen) leafType() reflect.Type {
	switch x := g.r.Intn(10); {
	case x < 4:
		return mon.PickOne(g.r, basicTypes)
	case x < 6:
		return mon.PickOne(g.r, namedTypes)
	default:
		return g.pickStruct()
	}
}

// elemType: element type of a generated slice / map value / pointer target.
func (g *gen) elemType(depth int) reflect.Type { return g.elemTypeL(depth, 0) }

func (g *gen) ptrWrap(t reflect.Type, maxD int) reflect.Type {
	d := g.r.Range(1, maxD)
	for i := 0; i < d; i++ {
		t = reflect.PointerTo(t)
	}
	return t
}

// elemTypeL: level = how many containers have been nested directly so far.
func (g *gen) elemTypeL(depth, level int) reflect.Type {
	x := g.r.Intn(100)
	switch {
	case x < 34:
		return g.leafType()
	case x < 52:
		return anyType
	case x < 57:
		return shapeType
	case x < 76:
		t := g.leafType()
		d := 1
		if g.r.Prob(0.3) {
			d = g.r.Range(2, 3)
		}
		for i := 0; i < d; i++ {
			t = reflect.PointerTo(t)
		}
		return t
	case x < 88 && level < 3:
		// container directly inside a container, or a pointer to one
		g.feat("container-in-container")
		c := g.containerType(depth, level+1)
		if g.r.Prob(0.3) {
			g.feat("ptr-to-container-elem")
			c = g.ptrWrap(c, 2)
		}
		return c
	case x < 91 && g.p.allowNamedCont:
		return g.namedContType()
	case x < 93 && g.p.allowArrays:
		return g.arrayType(depth, level)
	case x < 95 && g.p.allowOutside:
		g.feat("outside:type")
		return mon.PickOne(g.r, outsideTypes)
	case x < 96 && g.p.allowUnregNamed:
		return g.unregNamedType()
	case x >= 96 && x < 99 && g.p.allowPtrIface:
		return g.ptrIfaceType()
	default:
		return g.leafType()
	}
}

func (g *gen) containerType(depth, level int) reflect.Type {
	if g.r.Bool() {
		return reflect.SliceOf(g.elemTypeL(depth, level))
	}
	return reflect.MapOf(g.keyType(), g.elemTypeL(depth, level))
}

func (g *gen) namedContType() reflect.Type {
	g.feat("soft:named-container")
	t := mon.PickOne(g.r, namedContTypes)
	if g.r.Prob(0.3) {
		t = g.ptrWrap(t, 2)
	}
	return t
}

func (g *gen) unregNamedType() reflect.Type {
	g.feat("outside:unregistered-named-container")
	t := mon.PickOne(g.r, unregNamed)
	if g.r.Prob(0.3) {
		t = g.ptrWrap(t, 2)
	}
	return t
}

func (g *gen) arrayType(depth, level int) reflect.Type {
	g.feat("soft:array")
	if g.r.Prob(0.3) {
		t := mon.PickOne(g.r, arrayNamed)
		if g.r.Prob(0.3) {
			t = reflect.PointerTo(t)
		}
		return t
	}
	var e reflect.Type
	switch g.r.Intn(4) {
	case 0:
		e = anyType
	case 1:
		e = reflect.PointerTo(g.leafType())
	default:
		e = g.leafType()
	}
	t := reflect.ArrayOf(g.r.Range(0, 3), e)
	if g.r.Prob(0.25) {
		t = reflect.PointerTo(t)
	}
	return t
}

func (g *gen) ptrIfaceType() reflect.Type {
	t := anyType
	if g.r.Prob(0.25) {
		t = shapeType
	}
	t = reflect.PointerTo(t)
	if g.r.Prob(0.2) {
		t = reflect.PointerTo(t)
	}
	return t
}

func (g *gen) keyType() reflect.Type {
	x := g.r.Intn(100)
	switch {
	case x < 30 && g.p.allowIfaceKey:
		g.feat("soft:interface-key")
		if g.r.Prob(0.2) {
			return shapeType
		}
		return anyType
	case x >= 30 && x < 50 && g.p.allowPtrKey:
		g.feat("soft:pointer-key")
		return mon.PickOne(g.r, []reflect.Type{rt[*int](), rt[*string](), rt[*KeyA](), rt[*NInt](), rt[**int](), rt[*float64]()})
	case x >= 50 && x < 80 && g.p.allowTagKey:
		g.feat("tagged-key-struct")
		return rt[TagKey]()
	case x >= 80 && x < 87 && g.p.allowArrays:
		g.feat("soft:array")
		return mon.PickOne(g.r, []reflect.Type{rt[[2]int](), rt[[1]string](), rt[Arr3]()})
	}
	return mon.PickOne(g.r, keyTypes)
}

// dynType: the dynamic type of a top-level value or of a value in an `any` slot.
func (g *gen) dynType(depth int) reflect.Type {
	x := g.r.Intn(100)
	if g.exhausted(depth) {
		x = g.r.Intn(45) // only leaves and pointers to leaves
	}
	if depth == 0 && x < 20 && g.r.Prob(0.6) {
		x = 20 + g.r.Intn(80) // fewer bare scalars at the top level
	}
	// the switched classes: named containers, arrays, unregistered named
	// containers and eino's message types at the top / in an interface slot
	switch {
	case g.p.allowNamedCont && g.r.Prob(0.25):
		return g.namedContType()
	case g.p.allowArrays && g.r.Prob(0.25):
		return g.arrayType(depth, 0)
	case g.p.allowUnregNamed && g.r.Prob(0.3):
		return g.unregNamedType()
	case g.p.allowSchema && g.r.Prob(0.12):
		return mon.PickOne(g.r, msgTypes)
	}
	switch {
	case x < 14:
		return mon.PickOne(g.r, basicTypes)
	case x < 20:
		return mon.PickOne(g.r, namedTypes)
	case x < 36:
		return g.pickStruct()
	case x < 45:
		t := g.leafType()
		d := g.r.Range(1, 3)
		for i := 0; i < d; i++ {
			t = reflect.PointerTo(t)
		}
		return t
	case x < 66:
		return reflect.SliceOf(g.elemType(depth))
	case x < 90:
		return reflect.MapOf(g.keyType(), g.elemType(depth))
	case x < 95:
		// pointer to a container
		g.feat("ptr-to-container-top")
		return g.ptrWrap(g.containerType(depth, 0), 2)
	case x < 97:
		if g.p.allowOutside {
			g.feat("outside:type")
			return mon.PickOne(g.r, outsideTypes)
		}
		return reflect.MapOf(rt[string](), anyType)
	case x < 99 && g.p.allowPtrIface:
		return g.ptrIfaceType()
	default:
		return g.pickStruct()
	}
}

// ---------------------------------------------------------------------------
// values
// ---------------------------------------------------------------------------

var intEdges = []int64{0, 1, -1, 2, 7, 10, 100, 127, 128, -128, -129, 255, 256, 32767, 32768, -32768, 65535, 65536,
	1<<31 - 1, 1 << 31, -(1 << 31), 1<<32 - 1, 1 << 32, 1<<53 - 1, 1 << 53, 1<<53 + 1, -(1<<53 + 1), math.MaxInt64, math.MinInt64}

var uintEdges = []uint64{0, 1, 2, 10, 127, 128, 255, 256, 65535, 65536, 1<<31 - 1, 1 << 31, 1<<32 - 1, 1 << 32,
	1 << 53, 1<<53 + 1, 1<<63 - 1, 1 << 63, 1<<63 + 1, math.MaxUint64, math.MaxUint64 - 1}

var floatEdges = []float64{0, math.Copysign(0, -1), 1, -1, 0.5, 0.1, 0.2, 0.3, 1.0 / 3, 2.5, 1e-7, 1e-6, 1e6, 1e15, 1e20, 1e21, 1e22, 1e23,
	1e100, 1e-100, 123456789.125, 9007199254740993, 4503599627370496.5, math.MaxFloat64, -math.MaxFloat64, math.SmallestNonzeroFloat64,
	2.2250738585072014e-308, 2.2250738585072011e-308, math.MaxFloat32, math.SmallestNonzeroFloat32, 1.1754943508222875e-38,
	16777216, 16777217, 0.30000000000000004, 5e-324, 1.7976931348623157e308, 3.4028234663852886e38, 1e38, 1e-45, 8.41e21, 4.9406564584124654e-324}

var strAtoms = []string{"a", "b", "Z", "0", " ", "\"", "\\", "/", "\n", "\t", "\r", "\x00", "\x01", "\x1f", "\x7f", "<", ">", "&", "'",
	"\u00e9", "\u00df", "\u4e2d", "\u6587", "\u2028", "\u2029", "\ufeff", "\ufffd", "\U0001f600", "\U0001d11e", "\U0010ffff", "{", "}", "[", "]", ":", ",",
	"null", "true", "\\u0041", "\\n", "%", "\u200b", "\u0080", "\u07ff", "\u0800", "\uffff", "\U00010000"}

var badUTF8 = []string{"\xff", "a\xffb", "\xc3", "\xed\xa0\x80", "\xf8\x88\x80\x80\x80", "ok\x80", "\xc0\xaf", "\xe4\xb8"}

func (g *gen) str() string {
	if g.p.allowOutside && g.r.Prob(0.1) {
		g.feat("outside:invalid-utf8")
		return mon.PickOne(g.r, badUTF8)
	}
	switch g.r.Intn(10) {
	case 0:
		return ""
	case 1, 2:
		return g.r.Str(1, 8)
	default:
		n := g.r.Range(1, 6)
		if g.r.Prob(0.05) {
			n = g.r.Range(20, 60)
		}
		s := ""
		for i := 0; i < n; i++ {
			s += mon.PickOne(g.r, strAtoms)
		}
		return s
	}
}

func (g *gen) int64bits(bits int) int64 {
	var v int64
	switch g.r.Intn(4) {
	case 0:
		v = mon.PickOne(g.r, intEdges)
	case 1:
		v = int64(g.r.Intn(200)) - 100
	default:
		v = int64(g.r.Uint64())
		v >>= uint(g.r.Intn(64))
	}
	// wrap into the width (two's complement truncation keeps edge coverage)
	switch bits {
	case 8:
		return int64(int8(v))
	case 16:
		return int64(int16(v))
	case 32:
		return int64(int32(v))
	}
	return v
}

func (g *gen) uint64bits(bits int) uint64 {
	var v uint64
	switch g.r.Intn(4) {
	case 0:
		v = mon.PickOne(g.r, uintEdges)
	case 1:
		v = uint64(g.r.Intn(300))
	default:
		v = g.r.Uint64() >> uint(g.r.Intn(64))
	}
	switch bits {
	case 8:
		return uint64(uint8(v))
	case 16:
		return uint64(uint16(v))
	case 32:
		return uint64(uint32(v))
	}
	return v
}

func (g *gen) float(bits int) float64 {
	for {
		var f float64
		switch g.r.Intn(5) {
		case 0:
			f = mon.PickOne(g.r, floatEdges)
		case 1:
			f = float64(g.r.Intn(2000)-1000) / float64([]int{1, 2, 4, 8, 10, 100, 1000}[g.r.Intn(7)])
		case 2:
			f = (g.r.Float() - 0.5) * math.Pow(10, float64(g.r.Range(-30, 30)))
		default:
			if bits == 32 {
				f = float64(math.Float32frombits(uint32(g.r.Uint64())))
			} else {
				f = math.Float64frombits(g.r.Uint64())
			}
		}
		if bits == 32 {
			f = float64(float32(f))
		}
		if math.IsNaN(f) || math.IsInf(f, 0) {
			if g.p.allowOutside && g.r.Prob(0.5) {
				g.feat("outside:nan-inf")
				return f
			}
			continue
		}
		return f
	}
}

var (
	sharedChan = make(chan int, 1)
	sharedFunc = func() {}
)

func ptrDepth(t reflect.Type) (int, reflect.Type) {
	d := 0
	for t.Kind() == reflect.Ptr {
		d++
		t = t.Elem()
	}
	return d, t
}

var exoticMemo = map[reflect.Type]bool{}

// hasNonJSONKeyMap: t (transitively, through struct fields, pointers and
// containers) contains a map whose key is not a string or an integer. The
// decoder refuses a nil pointer to such a struct (loud).
func hasNonJSONKeyMap(t reflect.Type) bool {
	if v, ok := exoticMemo[t]; ok {
		return v
	}
	exoticMemo[t] = false // cut recursion
	r := false
	switch t.Kind() {
	case reflect.Ptr, reflect.Slice:
		r = hasNonJSONKeyMap(t.Elem())
	case reflect.Map:
		switch t.Key().Kind() {
		case reflect.String, reflect.Int, reflect.Int8, reflect.Int16, reflect.Int32, reflect.Int64,
			reflect.Uint, reflect.Uint8, reflect.Uint16, reflect.Uint32, reflect.Uint64, reflect.Uintptr:
			r = hasNonJSONKeyMap(t.Elem())
		default:
			r = true
		}
	case reflect.Struct:
		for i := 0; i < t.NumField(); i++ {
			if hasNonJSONKeyMap(t.Field(i).Type) {
				r = true
			}
		}
	}
	exoticMemo[t] = r
	return r
}

func isContainer(t reflect.Type) bool {
	return t.Kind() == reflect.Slice || t.Kind() == reflect.Map
}

// value builds a value of static type t. The result is always a fresh value
// (no aliasing, no cycles).
func (g *gen) value(t reflect.Type, depth int) reflect.Value {
	g.left--
	v := reflect.New(t).Elem()
	switch t.Kind() {
	case reflect.Bool:
		v.SetBool(g.r.Bool())
	case reflect.Int:
		v.SetInt(g.int64bits(64))
	case reflect.Int8:
		v.SetInt(g.int64bits(8))
	case reflect.Int16:
		v.SetInt(g.int64bits(16))
	case reflect.Int32:
		v.SetInt(g.int64bits(32))
	case reflect.Int64:
		v.SetInt(g.int64bits(64))
	case reflect.Uint, reflect.Uint64, reflect.Uintptr:
		v.SetUint(g.uint64bits(64))
	case reflect.Uint8:
		v.SetUint(g.uint64bits(8))
	case reflect.Uint16:
		v.SetUint(g.uint64bits(16))
	case reflect.Uint32:
		v.SetUint(g.uint64bits(32))
	case reflect.Float32:
		v.SetFloat(g.float(32))
	case reflect.Float64:
		v.SetFloat(g.float(64))
	case reflect.Complex64, reflect.Complex128:
		g.feat("outside:complex")
		v.SetComplex(complex(float64(g.r.Intn(10)), float64(g.r.Intn(10))))
	case reflect.String:
		v.SetString(g.str())
	case reflect.Chan:
		g.feat("outside:chan")
		if g.r.Bool() && t == rt[chan int]() {
			v.Set(reflect.ValueOf(sharedChan)) // the twins must hold the same channel
		}
	case reflect.Func:
		g.feat("outside:func")
		if g.r.Bool() && t == rt[func()]() {
			v.Set(reflect.ValueOf(sharedFunc))
		}
	case reflect.Ptr:
		g.pointer(v, t, depth)
	case reflect.Slice:
		g.slice(v, t, depth)
	case reflect.Map:
		g.mapv(v, t, depth)
	case reflect.Array:
		for i := 0; i < t.Len(); i++ {
			v.Index(i).Set(g.value(t.Elem(), depth+1))
		}
	case reflect.Struct:
		for i := 0; i < t.NumField(); i++ {
			f := t.Field(i)
			if f.PkgPath != "" {
				// unexported field (outside the universe): set through its address
				if f.Anonymous && hasPromotable(f.Type) {
					g.feat("soft:embedded-unexported")
				} else {
					g.feat("outside:unexported-field")
				}
				if g.r.Prob(0.7) {
					reflect.NewAt(f.Type, unsafe.Pointer(v.Field(i).UnsafeAddr())).Elem().Set(g.value(f.Type, depth+1))
				}
				continue
			}
			v.Field(i).Set(g.value(f.Type, depth+1))
		}
	case reflect.Interface:
		g.iface(v, t, depth)
	}
	return v
}

func (g *gen) pointer(v reflect.Value, t reflect.Type, depth int) {
	d, base := ptrDepth(t)
	// nilAt: level (1-based) of the nil pointer, 0 = the whole chain is non-nil
	nilAt := 0
	switch {
	case base.Kind() == reflect.Array || (isContainer(base) && base.Name() != "" && !registeredSet[base]):
		// the encoder has no name for the pointee of such a nil pointer (loud):
		// mostly non-nil so that the rest of the value is not masked
		if g.r.Prob(0.12) {
			nilAt = g.r.Range(1, d)
		}
	case isContainer(base):
		g.feat("ptr-to-container")
		if d == 1 {
			if g.r.Prob(g.p.pNilPtr) {
				nilAt = 1
				g.feat("nil-ptr-to-container")
			}
		} else if g.r.Prob(0.3) {
			nilAt = 1
			g.feat("nil-ptr-to-container")
		} else if g.p.allowKnown && g.r.Prob(0.4) {
			nilAt = g.r.Range(1, d)
			g.feat("known:nil-in-deep-chain")
			g.feat("nil-ptr-to-container")
		}
	case base.Kind() == reflect.Interface:
		g.feat("known:ptr-to-interface")
		if d == 1 {
			if g.r.Prob(g.p.pNilPtr) {
				nilAt = 1
			}
		} else if g.p.allowKnown && g.r.Prob(0.4) {
			nilAt = g.r.Range(1, d)
			g.feat("known:nil-in-deep-chain")
		}
	case d == 1:
		if g.r.Prob(g.p.pNilPtr) || (g.exhausted(depth) && base.Kind() == reflect.Struct && g.r.Prob(0.7)) {
			nilAt = 1
		}
	default:
		if g.p.allowKnown && g.r.Prob(0.5) {
			nilAt = g.r.Range(1, d)
			g.feat("known:nil-in-deep-chain")
		}
	}
	// recursive types must terminate: a pointer to a struct that (transitively)
	// contains itself is nil once the budget is gone
	if nilAt == 0 && g.exhausted(depth) && recursiveTypes[base] {
		if d == 1 || g.p.allowKnown {
			nilAt = 1
			if d >= 2 {
				g.feat("known:nil-in-deep-chain")
			}
		}
	}
	if nilAt != 0 && base.Kind() == reflect.Struct && hasNonJSONKeyMap(base) {
		g.feat("unsupported:nil-ptr-to-struct-with-non-json-map-key")
	}
	if nilAt == 1 {
		return // v is the zero value of t: nil
	}
	// levels 1..k-1 non-nil, level k nil (or the base value when k == 0)
	var inner reflect.Value
	if nilAt == 0 {
		inner = g.value(base, depth+1)
		for i := 0; i < d; i++ {
			p := reflect.New(inner.Type())
			p.Elem().Set(inner)
			inner = p
		}
		v.Set(inner)
		return
	}
	// type of the nil pointer at level nilAt: pointer of depth d-nilAt+1 over base
	nt := base
	for i := 0; i < d-nilAt+1; i++ {
		nt = reflect.PointerTo(nt)
	}
	inner = reflect.New(nt).Elem() // nil pointer
	for i := 0; i < nilAt-1; i++ {
		p := reflect.New(inner.Type())
		p.Elem().Set(inner)
		inner = p
	}
	v.Set(inner)
}

func (g *gen) length(depth int) int {
	if g.exhausted(depth) {
		return 0
	}
	n := g.r.Range(1, 4)
	if g.r.Prob(0.03) {
		n = g.r.Range(5, 12)
	}
	return n
}

func (g *gen) slice(v reflect.Value, t reflect.Type, depth int) {
	switch x := g.r.Intn(10); {
	case x == 0:
		return // nil
	case x == 1:
		v.Set(reflect.MakeSlice(t, 0, 0)) // empty, non-nil
		return
	}
	n := g.length(depth)
	if t.Elem().Kind() == reflect.Uint8 && n > 0 {
		n = g.r.Range(1, 16)
	}
	s := reflect.MakeSlice(t, 0, n)
	for i := 0; i < n; i++ {
		s = reflect.Append(s, g.value(t.Elem(), depth+1))
	}
	v.Set(s)
}

func (g *gen) mapv(v reflect.Value, t reflect.Type, depth int) {
	switch x := g.r.Intn(10); {
	case x == 0:
		return // nil
	case x == 1:
		v.Set(reflect.MakeMap(t))
		return
	}
	n := g.length(depth)
	m := reflect.MakeMapWithSize(t, n)
	// keys that differ only in fields their json tags hide or merge
	smallKeys := t.Key().Kind() == reflect.Struct && hasJSONTags(t.Key()) && g.r.Prob(0.6)
	for i := 0; i < n; i++ {
		k := g.key(t.Key())
		if smallKeys {
			k = g.small(t.Key())
		}
		m.SetMapIndex(k, g.value(t.Elem(), depth+1))
	}
	v.Set(m)
}

// key: map keys never contain NaN (not comparable) and stay small.
func (g *gen) key(t reflect.Type) reflect.Value {
	switch t.Kind() {
	case reflect.Interface:
		return g.ifaceKey(t)
	case reflect.Ptr:
		return g.ptrKey(t)
	}
	save := g.p.allowOutside
	g.p.allowOutside = false
	k := g.value(t, g.p.maxDepth) // leaves only
	g.p.allowOutside = save
	g.left++
	return k
}

func (g *gen) iface(v reflect.Value, t reflect.Type, depth int) {
	if g.r.Prob(g.p.pNilIface) {
		return
	}
	if t == shapeType {
		dt := mon.PickOne(g.r, shapeImpls)
		v.Set(g.value(dt, depth+1))
		return
	}
	if t != anyType {
		return
	}
	dt := g.dynType(depth + 1)
	dv := g.value(dt, depth+1)
	v.Set(dv)
}

// top generates one top-level value (as `any`) and its type.
func (g *gen) top() any {
	if g.r.Prob(0.002) {
		g.feat("top-nil")
		return nil
	}
	t := g.dynType(0)
	return g.value(t, 0).Interface()
}

// small: a value from a small pool (so that keys of different dynamic types
// share their JSON text: int(1), int64(1), float64(1), NInt(1), "1", ...).
func (g *gen) small(t reflect.Type) reflect.Value {
	v := reflect.New(t).Elem()
	switch t.Kind() {
	case reflect.Bool:
		v.SetBool(g.r.Bool())
	case reflect.Int, reflect.Int8, reflect.Int16, reflect.Int32, reflect.Int64:
		v.SetInt(int64(g.r.Intn(3)))
	case reflect.Uint, reflect.Uint8, reflect.Uint16, reflect.Uint32, reflect.Uint64, reflect.Uintptr:
		v.SetUint(uint64(g.r.Intn(3)))
	case reflect.Float32, reflect.Float64:
		v.SetFloat([]float64{0, 1, 2, 0.5}[g.r.Intn(4)])
	case reflect.String:
		v.SetString(mon.PickOne(g.r, []string{"", "0", "1", "1.0", "a", "true", "null", "2"}))
	case reflect.Struct:
		for i := 0; i < t.NumField(); i++ {
			if t.Field(i).PkgPath == "" {
				v.Field(i).Set(g.small(t.Field(i).Type))
			}
		}
	default:
		save := g.p.allowOutside
		g.p.allowOutside = false
		v = g.value(t, g.p.maxDepth)
		g.p.allowOutside = save
		g.left++
	}
	return v
}

// ifaceKey: a key of a map whose key type is an interface: comparable dynamic
// types only (a non-comparable one would make the harness itself panic).
func (g *gen) ifaceKey(t reflect.Type) reflect.Value {
	v := reflect.New(t).Elem()
	if g.r.Prob(0.03) {
		g.feat("soft:nil-interface-key")
		return v
	}
	var dt reflect.Type
	switch {
	case t == shapeType:
		dt = mon.PickOne(g.r, []reflect.Type{rt[Circle](), rt[UnitSq]()})
	case g.p.allowPtrKey && g.r.Prob(0.15):
		v.Set(g.ptrKey(mon.PickOne(g.r, []reflect.Type{rt[*int](), rt[*string](), rt[*KeyA]()})))
		return v
	default:
		dt = mon.PickOne(g.r, ifaceKeyDyn)
	}
	if g.r.Prob(0.6) {
		v.Set(g.small(dt))
	} else {
		save := g.p.allowOutside
		g.p.allowOutside = false
		v.Set(g.value(dt, g.p.maxDepth))
		g.p.allowOutside = save
		g.left++
	}
	return v
}

// ptrKey: a fresh pointer (chain) to a small value; two keys of one map often
// point to equal values (their serialized forms coincide).
func (g *gen) ptrKey(t reflect.Type) reflect.Value {
	d, base := ptrDepth(t)
	v := reflect.New(t).Elem()
	if g.r.Prob(0.08) {
		return v // nil key
	}
	inner := g.small(base)
	for i := 0; i < d; i++ {
		p := reflect.New(inner.Type())
		p.Elem().Set(inner)
		inner = p
	}
	v.Set(inner)
	return v
}
