// Package c09: a compiled runnable is safe for concurrent use; runs are isolated.
package c09

import (
	"context"
	"fmt"
	"strings"
	"sync"
	"testing"
	"time"

	"github.com/cloudwego/eino/components/model"
	"github.com/cloudwego/eino/components/tool"
	"github.com/cloudwego/eino/compose"
	"github.com/cloudwego/eino/flow/agent"
	"github.com/cloudwego/eino/flow/agent/multiagent/host"
	"github.com/cloudwego/eino/flow/agent/react"
	"github.com/cloudwego/eino/schema"

	"verifharness/internal/gspec"
	"verifharness/internal/mon"
)

const ID = "C09"

func genOpts(r *mon.Rand, cfg mon.Config, mode gspec.Mode) gspec.GenOpts {
	o := gspec.GenOpts{
		Mode: mode, MinNodes: 2, MaxNodes: cfg.Pick(7, 9),
		Branches: 0.5, Multi: 0.4, StreamCond: 0.3, AllowEmpty: 0.1,
		Nest: 2, NestProb: 0.15, State: 0.6, StreamState: 0.3,
		Streamy: true, Keys: 0.2, Renames: 0.15, Passthrough: 0.1, Wide: 0.2,
		CtrlOnly: 0.2, DataOnly: 0.3, Fields: 0.4, TwoBranches: 0.15,
	}
	if mode == gspec.Pregel {
		o.Cycles = 0.3
	}
	return o
}

func TestCheck(t *testing.T) {
	cfg := mon.Load(ID)
	rep := mon.NewReporter(cfg, "exploration",
		"compiled objects — generated graphs/DAGs/workflows (state, branches, nested graphs, mixed paradigms), the ReAct agent (with/without return-directly tools, one or two tool calls per round) and the host multi-agent (direct answer / hand-off), driven by deterministic models — are called from N ∈ {2,8,32} goroutines released together, each call with its own input, lambda option and context, mixing the four paradigms (agents: Generate/Stream), repeated 5 (quick) / 20 (thorough) times. Oracles: the Go race detector (any report with an eino frame is a violation, de-duplicated by the innermost eino frames of the two accesses); every concurrent result equals what the same call returns alone (reference interpreter for graphs, sequential baseline for agents); run-id taint: the option payload seen by a node and the state object serials seen by handlers must belong to that call only. Cold start: every case also compiles 4 fresh typed workflows with PRNG-chosen struct field mappings (all six mapping constructors, nested paths, promoted fields, structs reached through any fields / map values, reflect.StructOf types) and calls each, without any warming run, from N ∈ {2,8,16} goroutines at once, then again with some callers bringing a struct type the object has not met; every result is compared with a plain Go model of the workflow, race reports written meanwhile are attributed to the object. Non-trivial: a round with >=8 concurrent callers on one object that all returned; distinct = (object, round).",
		[]string{"node bodies and models are deterministic and stateless", "the harness synchronises only through its own per-run logs (so the race detector sees eino's own synchronisation)"},
		40)
	defer func() {
		if err := rep.Flush(); err != nil {
			t.Fatalf("flush: %v", err)
		}
	}()
	ctx := context.Background()
	n := int64(cfg.Pick(48, 192))
	rep.Require("concurrent_calls", 500)
	rep.Cases(n, func(idx int64, rng *mon.Rand) {
		switch idx % 4 {
		case 3:
			reactCase(ctx, rep, rng, cfg)
			hostCase(ctx, rep, rng, cfg)
		default:
			mode := gspec.Mode(idx % 3)
			spec := gspec.Gen(rng, genOpts(rng, cfg, mode))
			graphCase(ctx, rep, rng, cfg, spec, idx < 3)
		}
		// cold start: fresh typed workflows with struct field mappings whose first runs are concurrent
		// (cold_struct_mapping_test.go); its own generator, so the cases above stay what they were
		coldStructMappingCases(ctx, rep, rep.CaseRand(idx).Sub("cold-struct-mapping"), 4, idx == 0)
	})
}

// together runs the n functions on n goroutines released at the same moment and waits
// for all of them under the quiescence monitor.
func together(n int, fn func(i int)) (mon.WaitResult, []mon.G) {
	start := make(chan struct{})
	var wg sync.WaitGroup
	for i := 0; i < n; i++ {
		wg.Add(1)
		go func(i int) {
			defer wg.Done()
			<-start
			fn(i)
		}(i)
	}
	done := make(chan struct{})
	go func() { wg.Wait(); close(done) }()
	close(start)
	return mon.WaitDone(done, 180*time.Second)
}

func graphCase(ctx context.Context, rep *mon.Reporter, rng *mon.Rand, cfg mon.Config, spec *gspec.GraphSpec, sample bool) {
	r, err := gspec.Build(ctx, spec, gspec.BuildOpts{})
	if err != nil {
		rep.Violation(ID+"/build-error", err.Error(), spec)
		return
	}
	reps := cfg.Pick(5, 20)
	for round := 0; round < reps; round++ {
		n := []int{2, 8, 32}[rng.Intn(3)]
		type call struct {
			in    gspec.V
			para  string
			seed  uint64
			ref   *gspec.RefResult
			out   gspec.Outcome
			ctl   *gspec.RunCtl
			runID string
		}
		calls := make([]*call, n)
		for i := range calls {
			c := &call{in: gspec.V{"in": rng.Str(1, 6) + fmt.Sprint(i)}, para: []string{"I", "S", "C", "T"}[rng.Intn(4)], seed: rng.Uint64(), runID: fmt.Sprintf("run%d-%d", round, i)}
			c.ref = gspec.EvalGraph(spec, c.in, nil)
			c.ctl = gspec.NewCtl(c.runID)
			calls[i] = c
		}
		wres, dump := together(n, func(i int) {
			c := calls[i]
			c.out = gspec.Call(gspec.WithCtl(ctx, c.ctl), r, c.para, c.in, c.seed, -1,
				compose.WithLambdaOption(gspec.OptA{ID: c.runID}), compose.WithLambdaOption(gspec.OptB{ID: c.runID}))
		})
		rep.AddEvaluations(int64(n))
		rep.Count("concurrent_calls", int64(n))
		rep.Count("rounds", 1)
		wit := map[string]any{"spec": spec, "callers": n, "round": round}
		if wres == mon.Stuck {
			where, detail := gspec.StuckSignature(dump)
			rep.Violation(ID+"/graph/hang/"+where, fmt.Sprintf("%d concurrent calls can never finish\n%s", n, detail), wit)
			return
		}
		if wres == mon.Inconclusive {
			rep.Inconclusive("watchdog fired while goroutines were active")
			return
		}
		serialOwner := map[int64]string{}
		for _, c := range calls {
			if c.ref.Err == "collision" || c.ref.Err == "keymissing" {
				continue
			}
			if c.ref.Err == "collision" && c.para != "I" {
				continue
			}
			extra := fmt.Sprintf("%d concurrent callers; this call: %s paradigm=%s input=%s\nreference (alone): %s", n, c.runID, c.para, gspec.Canon(c.in), c.ref.String())
			if m := gspec.CompareResult(c.ref, c.out); m != nil {
				rep.Violation(ID+"/graph/result-differs-under-concurrency/"+m.Class, m.Detail+"\n"+extra, wit)
				return
			}
			execs, _, _, states := c.ctl.Log.Snapshot()
			for _, e := range execs {
				for _, o := range e.Opts {
					if !strings.HasSuffix(o, ":"+c.runID) {
						rep.Violation(ID+"/graph/option-of-another-call", fmt.Sprintf("node %s of %s received option %s\n%s", e.Path, c.runID, o, extra), wit)
						return
					}
				}
				rep.Count("option_payloads_checked", int64(len(e.Opts)))
			}
			for _, s := range states {
				if owner, ok := serialOwner[s.Serial]; ok && owner != c.runID {
					rep.Violation(ID+"/graph/state-shared-between-runs", fmt.Sprintf("state object %d was seen by %s and by %s\n%s", s.Serial, owner, c.runID, extra), wit)
					return
				}
				serialOwner[s.Serial] = c.runID
			}
		}
		if n >= 8 {
			rep.NonTrivial(fmt.Sprintf("%s|%d", spec.Digest(), round))
		}
		if sample && round == 0 {
			rep.Sample(map[string]any{"spec": spec, "callers": n, "paradigms": func() (p []string) {
				for _, c := range calls {
					p = append(p, c.para)
				}
				return
			}()})
		}
	}
}

// ---------------------------------------------------------------- agents

func msgString(m *schema.Message, err error) string {
	if err != nil {
		return "error:" + err.Error()
	}
	if m == nil {
		return "<nil>"
	}
	return fmt.Sprintf("%s|%s|%s|%v", m.Role, m.Content, m.ToolCallID, len(m.ToolCalls))
}

type agentLike interface {
	Generate(ctx context.Context, input []*schema.Message, opts ...agent.AgentOption) (*schema.Message, error)
	Stream(ctx context.Context, input []*schema.Message, opts ...agent.AgentOption) (*schema.StreamReader[*schema.Message], error)
}

func callAgent(ctx context.Context, a agentLike, stream bool, user string, opts []agent.AgentOption) string {
	in := []*schema.Message{schema.UserMessage(user)}
	var res string
	p := mon.Safe(func() {
		if !stream {
			res = msgString(a.Generate(ctx, in, opts...))
			return
		}
		sr, err := a.Stream(ctx, in, opts...)
		if err != nil {
			res = "error:" + err.Error()
			return
		}
		res = msgString(schema.ConcatMessageStream(sr))
	})
	if p != nil {
		return "panic:" + p.Value
	}
	return res
}

// optsFor builds the options of one call: a long-lived base (slices with spare capacity, shared by every
// call) plus options that carry the call's own tag.
func agentRounds(ctx context.Context, rep *mon.Reporter, rng *mon.Rand, cfg mon.Config, kind string, a agentLike, users func(i int) string, wit any, optsFor func(user string) []agent.AgentOption) {
	reps := cfg.Pick(5, 20)
	for round := 0; round < reps; round++ {
		n := []int{2, 8, 32}[rng.Intn(3)]
		us := make([]string, n)
		streams := make([]bool, n)
		alone := make([]string, n)
		for i := range us {
			us[i] = fmt.Sprintf("r%d-%d-", round, i) + users(i)
			streams[i] = rng.Bool()
			alone[i] = callAgent(ctx, a, streams[i], us[i], optsFor(us[i])) // what the call returns when it runs alone
		}
		got := make([]string, n)
		wres, dump := together(n, func(i int) { got[i] = callAgent(ctx, a, streams[i], us[i], optsFor(us[i])) })
		rep.AddEvaluations(int64(2 * n))
		rep.Count("concurrent_calls", int64(n))
		rep.Count("agent_rounds_"+kind, 1)
		if wres == mon.Stuck {
			where, detail := gspec.StuckSignature(dump)
			rep.Violation(ID+"/"+kind+"/hang/"+where, detail, wit)
			return
		}
		if wres == mon.Inconclusive {
			rep.Inconclusive("watchdog fired while goroutines were active")
			return
		}
		for i := range got {
			if got[i] != alone[i] {
				rep.Violation(ID+"/"+kind+"/result-differs-under-concurrency", fmt.Sprintf("%d concurrent callers; call %q (stream=%v)\nalone:      %s\nconcurrent: %s", n, us[i], streams[i], alone[i], got[i]), wit)
				return
			}
		}
		if n >= 8 {
			rep.NonTrivial(fmt.Sprintf("%s|%v|%d", kind, wit, round))
		}
	}
}

func reactCase(ctx context.Context, rep *mon.Reporter, rng *mon.Rand, cfg mon.Config) {
	direct := rng.Bool()
	cfgA := &react.AgentConfig{
		ToolCallingModel: &detModel{role: "react"},
		ToolsConfig:      compose.ToolsNodeConfig{Tools: []tool.BaseTool{&echoTool{name: "echo"}, &echoTool{name: "direct"}}},
		MaxStep:          20,
	}
	if direct {
		cfgA.ToolReturnDirectly = map[string]struct{}{"direct": {}}
	}
	a, err := react.NewAgent(ctx, cfgA)
	if err != nil {
		rep.Violation(ID+"/react/new-agent-error", err.Error(), nil)
		return
	}
	modes := []string{"plain", "two"}
	if direct {
		modes = append(modes, "direct")
	}
	// call options: none, or a shared base (spare capacity) + per-call values, for tools and for the model
	withOpts := rng.Intn(3) > 0
	baseTool := append(make([]tool.Option, 0, 8), toolTag("base1"), toolTag("base2"), toolTag("base3"))
	baseModel := append(make([]model.Option, 0, 8), modelTag("mbase1"), modelTag("mbase2"), modelTag("mbase3"))
	baseAgent := append(make([]agent.AgentOption, 0, 8), react.WithToolOptions(baseTool...), agent.WithComposeOptions(compose.WithChatModelOption(baseModel...)))
	optsFor := func(user string) []agent.AgentOption {
		if !withOpts {
			return nil
		}
		return append(append([]agent.AgentOption(nil), baseAgent...), react.WithToolOptions(toolTag("T@"+user)), agent.WithComposeOptions(compose.WithChatModelOption(modelTag("M@"+user))))
	}
	agentRounds(ctx, rep, rng, cfg, "react", a, func(i int) string {
		return fmt.Sprintf("t%d|%d|%s", i, rng.Intn(4), modes[rng.Intn(len(modes))])
	}, map[string]any{"agent": "react", "return_directly": direct, "options": withOpts}, optsFor)
}

func hostCase(ctx context.Context, rep *mon.Reporter, rng *mon.Rand, cfg mon.Config) {
	ma, err := host.NewMultiAgent(ctx, &host.MultiAgentConfig{
		Host: host.Host{ToolCallingModel: &detModel{role: "host"}},
		Specialists: []*host.Specialist{
			{AgentMeta: host.AgentMeta{Name: "alpha", IntendedUse: "a"}, ChatModel: &detModel{role: "spec:alpha"}},
			{AgentMeta: host.AgentMeta{Name: "beta", IntendedUse: "b"}, ChatModel: &detModel{role: "spec:beta"}},
		},
	})
	if err != nil {
		rep.Violation(ID+"/host/new-agent-error", err.Error(), nil)
		return
	}
	modes := []string{"direct-answer", "handoff:alpha", "handoff:beta"}
	withOpts := rng.Intn(3) > 0
	baseModel := append(make([]model.Option, 0, 8), modelTag("mbase1"), modelTag("mbase2"), modelTag("mbase3"))
	baseAgent := append(make([]agent.AgentOption, 0, 8), agent.WithComposeOptions(compose.WithChatModelOption(baseModel...)))
	optsFor := func(user string) []agent.AgentOption {
		if !withOpts {
			return nil
		}
		return append(append([]agent.AgentOption(nil), baseAgent...), agent.WithComposeOptions(compose.WithChatModelOption(modelTag("M@"+user))))
	}
	agentRounds(ctx, rep, rng, cfg, "host", ma, func(i int) string {
		return fmt.Sprintf("t%d|0|%s", i, modes[rng.Intn(len(modes))])
	}, map[string]any{"agent": "host-multi-agent", "options": withOpts}, optsFor)
}
