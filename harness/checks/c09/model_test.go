package c09

import (
	"context"
	"fmt"
	"strconv"
	"strings"

	"github.com/cloudwego/eino/components/model"
	"github.com/cloudwego/eino/components/tool"
	"github.com/cloudwego/eino/schema"

	"verifharness/internal/mon"
)

// detModel is a deterministic chat model: its answer is a pure function of the input messages.
// The last user message is "tag|rounds|mode"; in ReAct use it asks for `rounds` tool rounds
// (mode "direct": the last one calls the return-directly tool), then gives a final answer that
// digests every tool result it saw; as a host it hands off to the specialist named by mode
// "handoff:<name>" or answers directly.
type detModel struct {
	role string // "react" | "host" | "spec:<name>"
}

func (m *detModel) WithTools(_ []*schema.ToolInfo) (model.ToolCallingChatModel, error) {
	return m, nil // stateless: nothing to bind
}

func lastUser(in []*schema.Message) string {
	for i := len(in) - 1; i >= 0; i-- {
		if in[i].Role == schema.User {
			return in[i].Content
		}
	}
	return ""
}

func (m *detModel) answer(in []*schema.Message) *schema.Message {
	parts := strings.Split(lastUser(in), "|")
	tag := parts[0]
	rounds, mode := 0, ""
	if len(parts) > 1 {
		rounds, _ = strconv.Atoi(parts[1])
	}
	if len(parts) > 2 {
		mode = parts[2]
	}
	switch {
	case strings.HasPrefix(m.role, "spec:"):
		return schema.AssistantMessage("specialist "+m.role[5:]+" answers "+tag, nil)
	case m.role == "host":
		if strings.HasPrefix(mode, "handoff:") {
			return schema.AssistantMessage("", []schema.ToolCall{{ID: "h-" + tag, Type: "function", Function: schema.FunctionCall{Name: mode[8:], Arguments: `{"reason":"` + tag + `"}`}}})
		}
		return schema.AssistantMessage("host answers "+tag, nil)
	}
	done := 0
	var seen []string
	for _, msg := range in {
		if msg.Role == schema.Assistant && len(msg.ToolCalls) > 0 {
			done++
		}
		if msg.Role == schema.Tool {
			seen = append(seen, msg.ToolCallID+"="+msg.Content)
		}
	}
	if done < rounds {
		name := "echo"
		if mode == "direct" && done == rounds-1 {
			name = "direct"
		}
		calls := []schema.ToolCall{{ID: fmt.Sprintf("%s-c%d", tag, done), Type: "function", Function: schema.FunctionCall{Name: name, Arguments: fmt.Sprintf(`{"v":"%s-%d"}`, tag, done)}}}
		if mode == "two" {
			calls = append(calls, schema.ToolCall{ID: fmt.Sprintf("%s-d%d", tag, done), Type: "function", Function: schema.FunctionCall{Name: "echo", Arguments: fmt.Sprintf(`{"v":"%s-second-%d"}`, tag, done)}})
		}
		return schema.AssistantMessage("", calls)
	}
	return schema.AssistantMessage("final "+tag+" "+mon.H8(strings.Join(seen, ";")), nil)
}

// tagOpts is the implementation-specific option of detModel and echoTool: every option value adds a tag;
// what a call received becomes part of its answer, so an option of another call changes the result.
type tagOpts struct{ tags []string }

func modelTag(t string) model.Option {
	return model.WrapImplSpecificOptFn(func(o *tagOpts) { o.tags = append(o.tags, t) })
}

func toolTag(t string) tool.Option {
	return tool.WrapImplSpecificOptFn(func(o *tagOpts) { o.tags = append(o.tags, t) })
}

func (m *detModel) answerWith(in []*schema.Message, opts []model.Option) *schema.Message {
	msg := m.answer(in)
	if o := model.GetImplSpecificOptions(&tagOpts{}, opts...); len(o.tags) > 0 && len(msg.ToolCalls) == 0 {
		msg.Content += " model-options=" + strings.Join(o.tags, ",")
	}
	return msg
}

func (m *detModel) Generate(_ context.Context, in []*schema.Message, opts ...model.Option) (*schema.Message, error) {
	return m.answerWith(in, opts), nil
}

func (m *detModel) Stream(_ context.Context, in []*schema.Message, opts ...model.Option) (*schema.StreamReader[*schema.Message], error) {
	msg := m.answerWith(in, opts)
	var chunks []*schema.Message
	if len(msg.ToolCalls) > 0 {
		// the tool calls are in the first chunk (contract of the default checker); arguments are split
		first := &schema.Message{Role: schema.Assistant}
		second := &schema.Message{Role: schema.Assistant}
		for i, tc := range msg.ToolCalls {
			idx := i
			a := tc.Function.Arguments
			h := len(a) / 2
			first.ToolCalls = append(first.ToolCalls, schema.ToolCall{Index: &idx, ID: tc.ID, Type: tc.Type, Function: schema.FunctionCall{Name: tc.Function.Name, Arguments: a[:h]}})
			second.ToolCalls = append(second.ToolCalls, schema.ToolCall{Index: &idx, Function: schema.FunctionCall{Arguments: a[h:]}})
		}
		chunks = []*schema.Message{first, second}
	} else {
		c := msg.Content
		h := len(c) / 2
		chunks = []*schema.Message{{Role: schema.Assistant, Content: c[:h]}, {Role: schema.Assistant, Content: c[h:]}}
	}
	return schema.StreamReaderFromArray(chunks), nil
}

type echoTool struct{ name string }

func (t *echoTool) Info(context.Context) (*schema.ToolInfo, error) {
	return &schema.ToolInfo{Name: t.name, Desc: t.name}, nil
}

func (t *echoTool) InvokableRun(_ context.Context, args string, opts ...tool.Option) (string, error) {
	o := tool.GetImplSpecificOptions(&tagOpts{}, opts...)
	if len(o.tags) > 0 {
		return t.name + ":" + args + " tool-options=" + strings.Join(o.tags, ","), nil
	}
	return t.name + ":" + args, nil
}
