package c09

// Sub-workload "cold-struct-mapping": the FIRST runs of a freshly compiled Workflow are concurrent and cross
// edges with struct field mappings.
//
// Every case builds fresh typed Workflows (struct-typed lambdas in the four lambda forms, a PRNG-chosen set of
// field mappings between struct types: MapFields / FromField / ToField / MapFieldPaths / FromFieldPath /
// ToFieldPath, nested paths, fields promoted from embedded structs and embedded pointers, structs reached as the
// dynamic value of an `any` field or of a map[string]any value, struct types made with reflect.StructOf that the
// process has never seen). Each object is compiled and, WITHOUT any warming call, invoked at once from N
// goroutines released from one barrier (Invoke / Stream / Collect / Transform mixed); a second burst on the same
// object lets some callers bring a dynamic struct type the object has not met yet while the others use the
// types of the first burst.
//
// Oracles (only what C09 states):
//   - every call returns what it returns alone: the expected result of each call is computed from its own input
//     by a plain Go model of the workflow (no eino code, no reflection); only error-ness of failing calls is
//     compared (a nil pointer / nil interface on a source path is a request-time error of that call alone);
//   - no data race in framework code: the check is built with -race, the driver turns every report with an eino
//     frame into a violation; in addition a report that was written while an object of this workload was being
//     called (and shows this file in its goroutine stacks) is attributed here to the generated object, so that
//     the violation has a replayable witness;
//   - no run hangs (quiescence monitor of together()).

import (
	"context"
	"fmt"
	"io"
	"os"
	"reflect"
	"sort"
	"strconv"
	"strings"

	"github.com/cloudwego/eino/compose"
	"github.com/cloudwego/eino/schema"

	"verifharness/internal/gspec"
	"verifharness/internal/mon"
)

const coldClass = ID + "/cold-struct-mapping"

// ---------------------------------------------------------------- the struct types of the workflows

type csInner struct {
	A string
	B int
	C []string
}

// CsEmb is embedded by value, CsEmbP through a pointer: their fields are promoted (reflect's FieldByName has
// to walk the embedded structs to find them).
type CsEmb struct {
	E1 string
	E2 int
}

type CsEmbP struct {
	Q1 string
	Q2 int
}

type csDeep struct {
	In  csInner
	P   *csInner
	Tag string
	N   int
}

// csIn is the input type of every generated workflow.
type csIn struct {
	CsEmb
	*CsEmbP
	Name string
	Num  int
	Deep csDeep
	Ptr  *csDeep
	Dyn  any            // a struct, a pointer to a struct or a map[string]any: only known at request time
	Bag  map[string]any // "s": string, "n": int, "st": like Dyn, "deep": csDeep
	List []string
}

// csMid is the input type of the central node.
type csMid struct {
	CsEmb
	*CsEmbP
	S1, S2, S3 string
	N1, N2     int
	In         csInner
	PIn        *csInner
	L          []string
	Any1       any
	Any2       any
	M          map[string]any
	MS         map[string]string
}

// csRes is the output type of the central node.
type csRes struct {
	CsEmb
	Sum string
	Cnt int
	In  csInner
	P   *csInner
	Any any // always a csInner
	M   map[string]any
	L   []string
}

// csOut is the struct output type of a workflow (the other one is map[string]any).
type csOut struct {
	CsEmb
	Sum string
	S2  string
	Cnt int
	In  csInner
	P   *csInner
	Any any
	M   map[string]any
	L   []string
}

// two static struct types with the same field names (different layout) for the dynamic values
type csDynA struct {
	X  string
	Y  int
	In csInner
	P  *csInner
}

type csDynB struct {
	P  *csInner
	Z  string
	In csInner
	Y  int
	X  string
}

// dynVal is the logical content of a dynamic value, whatever Go type carries it.
type dynVal struct {
	X  string
	Y  int
	In csInner
	P  *csInner
}

// ---------------------------------------------------------------- canonical rendering (comparison, digests)

func canonStrs(x []string) string {
	q := make([]string, len(x))
	for i, s := range x {
		q[i] = strconv.Quote(s)
	}
	return "[" + strings.Join(q, ",") + "]"
}

// canon renders the values that can travel through the generated workflows; a nil slice / map renders like an
// empty one, a typed nil pointer like nil.
func canon(v any) string {
	switch x := v.(type) {
	case nil:
		return "nil"
	case string:
		return strconv.Quote(x)
	case int:
		return strconv.Itoa(x)
	case []string:
		return canonStrs(x)
	case csInner:
		return "{A:" + strconv.Quote(x.A) + " B:" + strconv.Itoa(x.B) + " C:" + canonStrs(x.C) + "}"
	case *csInner:
		if x == nil {
			return "nil"
		}
		return "&" + canon(*x)
	case CsEmb:
		return "{E1:" + strconv.Quote(x.E1) + " E2:" + strconv.Itoa(x.E2) + "}"
	case *CsEmbP:
		if x == nil {
			return "nil"
		}
		return "&{Q1:" + strconv.Quote(x.Q1) + " Q2:" + strconv.Itoa(x.Q2) + "}"
	case map[string]any:
		ks := make([]string, 0, len(x))
		for k := range x {
			ks = append(ks, k)
		}
		sort.Strings(ks)
		var b strings.Builder
		b.WriteByte('{')
		for i, k := range ks {
			if i > 0 {
				b.WriteByte(' ')
			}
			b.WriteString(k + ":" + canon(x[k]))
		}
		b.WriteByte('}')
		return b.String()
	case map[string]string:
		m := make(map[string]any, len(x))
		for k, s := range x {
			m[k] = s
		}
		return canon(m)
	case csMid:
		return "mid{" + canon(x.CsEmb) + " " + canon(x.CsEmbP) + " S:" + canonStrs([]string{x.S1, x.S2, x.S3}) +
			" N:" + strconv.Itoa(x.N1) + "," + strconv.Itoa(x.N2) + " In:" + canon(x.In) + " PIn:" + canon(x.PIn) + " L:" + canonStrs(x.L) +
			" Any1:" + canon(x.Any1) + " Any2:" + canon(x.Any2) + " M:" + canon(x.M) + " MS:" + canon(x.MS) + "}"
	case csRes:
		return "res{" + canon(x.CsEmb) + " Sum:" + x.Sum + " Cnt:" + strconv.Itoa(x.Cnt) + " In:" + canon(x.In) + " P:" + canon(x.P) +
			" Any:" + canon(x.Any) + " M:" + canon(x.M) + " L:" + canonStrs(x.L) + "}"
	case csOut:
		return "out{" + canon(x.CsEmb) + " Sum:" + x.Sum + " S2:" + strconv.Quote(x.S2) + " Cnt:" + strconv.Itoa(x.Cnt) + " In:" + canon(x.In) +
			" P:" + canon(x.P) + " Any:" + canon(x.Any) + " M:" + canon(x.M) + " L:" + canonStrs(x.L) + "}"
	default:
		return fmt.Sprintf("?%T", v)
	}
}

// ---------------------------------------------------------------- node bodies (deterministic, stateless, never mutate their input)

func deepFn(d csDeep) csInner {
	out := csInner{A: d.Tag + ":" + d.In.A, B: d.N + d.In.B, C: append([]string{d.Tag}, d.In.C...)}
	if d.P != nil {
		out.A += "+" + d.P.A
		out.B += d.P.B
	}
	return out
}

func midFn(m csMid) csRes {
	r := csRes{}
	r.CsEmb = CsEmb{E1: m.E1 + "/" + m.S1, E2: m.E2*7 + m.N1}
	r.Sum = mon.H8(canon(m))
	r.Cnt = m.N1*3 + m.N2*5 + m.In.B + len(m.L)
	r.In = csInner{A: m.In.A + "|" + m.S2, B: m.In.B + 1, C: append([]string{m.S3}, m.In.C...)}
	p := csInner{A: "no-pin"}
	if m.PIn != nil {
		p = csInner{A: m.PIn.A + "*", B: m.PIn.B * 2, C: append([]string(nil), m.PIn.C...)}
	}
	r.P = &p
	r.Any = csInner{A: mon.H8(canon(m.Any1)), B: len(canon(m.Any2)), C: []string{canon(m.MS)}}
	r.M = map[string]any{"m": mon.H8(canon(m.M)), "n": len(m.M)}
	r.L = append([]string(nil), m.L...)
	if m.CsEmbP != nil {
		r.L = append(r.L, m.Q1, strconv.Itoa(m.Q2))
	}
	return r
}

func onlyChunk[T any](in *schema.StreamReader[T]) (T, error) {
	defer in.Close()
	var (
		one T
		n   int
	)
	for {
		c, err := in.Recv()
		if err == io.EOF {
			break
		}
		if err != nil {
			return one, err
		}
		one = c
		n++
	}
	if n != 1 {
		return one, fmt.Errorf("the node expects its input as one chunk, got %d", n)
	}
	return one, nil
}

// lambdaOf wraps f in one of the four lambda forms; streams carry the value as one chunk.
func lambdaOf[I, O any](form string, f func(I) O) *compose.Lambda {
	switch form {
	case "I":
		return compose.InvokableLambda(func(_ context.Context, in I) (O, error) { return f(in), nil })
	case "S":
		return compose.StreamableLambda(func(_ context.Context, in I) (*schema.StreamReader[O], error) {
			return schema.StreamReaderFromArray([]O{f(in)}), nil
		})
	case "C":
		return compose.CollectableLambda(func(_ context.Context, in *schema.StreamReader[I]) (O, error) {
			one, err := onlyChunk(in)
			if err != nil {
				var z O
				return z, err
			}
			return f(one), nil
		})
	default:
		return compose.TransformableLambda(func(_ context.Context, in *schema.StreamReader[I]) (*schema.StreamReader[O], error) {
			return schema.StreamReaderWithConvert(in, func(i I) (O, error) { return f(i), nil }), nil
		})
	}
}

// ---------------------------------------------------------------- the case description (JSON-able witness)

// cmap is one field mapping; paths are dot-joined, "" = the whole value.
type cmap struct {
	From string `json:"from"`
	To   string `json:"to"`
}

type coldInput struct {
	Name    string
	Num     int
	E1      string
	E2      int
	HasQ    bool
	Q1      string
	Q2      int
	Deep    csDeep
	Ptr     *csDeep
	DynKind string // A | B | ptrA | ptrB | map | fresh0 | fresh1 | ptrFresh0 | ptrFresh1 | nil | nilptr
	Dyn     dynVal
	StKind  string
	St      dynVal
	BagS    string
	BagN    int
	BagDeep csDeep
	List    []string
}

type coldCall struct {
	Para string // I | S | C | T
	In   coldInput
}

type freshSpec struct {
	Order []int  // order of the fields X, Y, In, P
	Extra string // one more field, named by the PRNG
}

type coldCase struct {
	Shape      string // direct | nested | via-deep | fan-in
	Out        string // struct | map
	MidForm    string
	DeepForm   string
	StartToMid []cmap    `json:",omitempty"`
	DeepFrom   string    `json:",omitempty"` // source path of FromField / FromFieldPath (via-deep)
	DeepToMid  []cmap    `json:",omitempty"`
	Identity   []string  `json:",omitempty"` // nested: fields of csMid mapped 1:1 inside the inner workflow
	MidToEnd   []cmap    `json:",omitempty"`
	StartToEnd []cmap    `json:",omitempty"` // fan-in
	Fresh      [2]freshSpec
	Bursts     [][]coldCall
}

func (c *coldCase) shapeDigest() string {
	return fmt.Sprintf("%s|%s|%s|%s|%v|%s|%v|%v|%v|%v", c.Shape, c.Out, c.MidForm, c.DeepForm, c.StartToMid, c.DeepFrom, c.DeepToMid, c.Identity, c.MidToEnd, c.StartToEnd)
}

// ---------------------------------------------------------------- slot tables: what can be mapped, and what the mapping means (plain Go)

type srcSlot[S any] struct {
	path  string
	class string // str | int | inner | pinner | strs | map
	get   func(*S) (any, bool)
}

type dstSlot[T any] struct {
	path  string
	class string // as above, or any
	set   func(*T, any)
}

func dynOK(kind string) bool { return kind != "nil" && kind != "nilptr" }

func srcOfInput() []srcSlot[coldInput] {
	type in = coldInput
	ok := func(f func(*in) any) func(*in) (any, bool) { return func(i *in) (any, bool) { return f(i), true } }
	ifPtr := func(f func(*in) any) func(*in) (any, bool) {
		return func(i *in) (any, bool) {
			if i.Ptr == nil {
				return nil, false
			}
			return f(i), true
		}
	}
	ifDyn := func(f func(*in) any) func(*in) (any, bool) {
		return func(i *in) (any, bool) {
			if !dynOK(i.DynKind) {
				return nil, false
			}
			return f(i), true
		}
	}
	ifSt := func(f func(*in) any) func(*in) (any, bool) {
		return func(i *in) (any, bool) {
			if !dynOK(i.StKind) {
				return nil, false
			}
			return f(i), true
		}
	}
	ifQ := func(f func(*in) any) func(*in) (any, bool) {
		return func(i *in) (any, bool) {
			if !i.HasQ {
				return nil, false
			}
			return f(i), true
		}
	}
	return []srcSlot[in]{
		{"Name", "str", ok(func(i *in) any { return i.Name })},
		{"E1", "str", ok(func(i *in) any { return i.E1 })},
		{"Q1", "str", ifQ(func(i *in) any { return i.Q1 })},
		{"Deep.Tag", "str", ok(func(i *in) any { return i.Deep.Tag })},
		{"Deep.In.A", "str", ok(func(i *in) any { return i.Deep.In.A })},
		{"Deep.P.A", "str", func(i *in) (any, bool) {
			if i.Deep.P == nil {
				return nil, false
			}
			return i.Deep.P.A, true
		}},
		{"Ptr.Tag", "str", ifPtr(func(i *in) any { return i.Ptr.Tag })},
		{"Ptr.In.A", "str", ifPtr(func(i *in) any { return i.Ptr.In.A })},
		{"Dyn.X", "str", ifDyn(func(i *in) any { return i.Dyn.X })},
		{"Dyn.In.A", "str", ifDyn(func(i *in) any { return i.Dyn.In.A })},
		{"Bag.s", "str", ok(func(i *in) any { return i.BagS })},
		{"Bag.st.X", "str", ifSt(func(i *in) any { return i.St.X })},
		{"Bag.deep.Tag", "str", ok(func(i *in) any { return i.BagDeep.Tag })},

		{"Num", "int", ok(func(i *in) any { return i.Num })},
		{"E2", "int", ok(func(i *in) any { return i.E2 })},
		{"Q2", "int", ifQ(func(i *in) any { return i.Q2 })},
		{"Deep.N", "int", ok(func(i *in) any { return i.Deep.N })},
		{"Deep.In.B", "int", ok(func(i *in) any { return i.Deep.In.B })},
		{"Ptr.N", "int", ifPtr(func(i *in) any { return i.Ptr.N })},
		{"Dyn.Y", "int", ifDyn(func(i *in) any { return i.Dyn.Y })},
		{"Bag.n", "int", ok(func(i *in) any { return i.BagN })},
		{"Bag.st.Y", "int", ifSt(func(i *in) any { return i.St.Y })},

		{"Deep.In", "inner", ok(func(i *in) any { return i.Deep.In })},
		{"Ptr.In", "inner", ifPtr(func(i *in) any { return i.Ptr.In })},
		{"Dyn.In", "inner", ifDyn(func(i *in) any { return i.Dyn.In })},
		{"Bag.st.In", "inner", ifSt(func(i *in) any { return i.St.In })},
		{"Bag.deep.In", "inner", ok(func(i *in) any { return i.BagDeep.In })},

		{"Deep.P", "pinner", ok(func(i *in) any { return i.Deep.P })},
		{"Ptr.P", "pinner", ifPtr(func(i *in) any { return i.Ptr.P })},
		{"Dyn.P", "pinner", ifDyn(func(i *in) any { return i.Dyn.P })},

		{"List", "strs", ok(func(i *in) any { return i.List })},
		{"Deep.In.C", "strs", ok(func(i *in) any { return i.Deep.In.C })},
		{"Dyn.In.C", "strs", ifDyn(func(i *in) any { return i.Dyn.In.C })},
	}
}

func srcOfInner() []srcSlot[csInner] {
	return []srcSlot[csInner]{
		{"A", "str", func(i *csInner) (any, bool) { return i.A, true }},
		{"B", "int", func(i *csInner) (any, bool) { return i.B, true }},
		{"C", "strs", func(i *csInner) (any, bool) { return i.C, true }},
	}
}

func srcOfRes() []srcSlot[csRes] {
	type r = csRes
	ok := func(f func(*r) any) func(*r) (any, bool) { return func(x *r) (any, bool) { return f(x), true } }
	return []srcSlot[r]{
		{"Sum", "str", ok(func(x *r) any { return x.Sum })},
		{"E1", "str", ok(func(x *r) any { return x.E1 })},
		{"In.A", "str", ok(func(x *r) any { return x.In.A })},
		{"P.A", "str", ok(func(x *r) any { return x.P.A })},
		{"Any.A", "str", ok(func(x *r) any { return x.Any.(csInner).A })},
		{"M.m", "str", ok(func(x *r) any { return x.M["m"] })},
		{"Cnt", "int", ok(func(x *r) any { return x.Cnt })},
		{"E2", "int", ok(func(x *r) any { return x.E2 })},
		{"In.B", "int", ok(func(x *r) any { return x.In.B })},
		{"P.B", "int", ok(func(x *r) any { return x.P.B })},
		{"Any.B", "int", ok(func(x *r) any { return x.Any.(csInner).B })},
		{"M.n", "int", ok(func(x *r) any { return x.M["n"] })},
		{"In", "inner", ok(func(x *r) any { return x.In })},
		{"Any", "inner", ok(func(x *r) any { return x.Any })},
		{"P", "pinner", ok(func(x *r) any { return x.P })},
		{"L", "strs", ok(func(x *r) any { return x.L })},
		{"In.C", "strs", ok(func(x *r) any { return x.In.C })},
		{"Any.C", "strs", ok(func(x *r) any { return x.Any.(csInner).C })},
		{"M", "map", ok(func(x *r) any { return x.M })},
	}
}

func anyMapSet(get func() *any, key string, v any) {
	p := get()
	m, ok := (*p).(map[string]any)
	if !ok {
		m = map[string]any{}
		*p = m
	}
	m[key] = v
}

func dstOfMid() []dstSlot[csMid] {
	type m = csMid
	q := func(x *m) *CsEmbP {
		if x.CsEmbP == nil {
			x.CsEmbP = &CsEmbP{}
		}
		return x.CsEmbP
	}
	pin := func(x *m) *csInner {
		if x.PIn == nil {
			x.PIn = &csInner{}
		}
		return x.PIn
	}
	return []dstSlot[m]{
		{"S1", "str", func(x *m, v any) { x.S1 = v.(string) }},
		{"S2", "str", func(x *m, v any) { x.S2 = v.(string) }},
		{"S3", "str", func(x *m, v any) { x.S3 = v.(string) }},
		{"E1", "str", func(x *m, v any) { x.E1 = v.(string) }},
		{"Q1", "str", func(x *m, v any) { q(x).Q1 = v.(string) }},
		{"In.A", "str", func(x *m, v any) { x.In.A = v.(string) }},
		{"PIn.A", "str", func(x *m, v any) { pin(x).A = v.(string) }},
		{"MS.a", "str", func(x *m, v any) {
			if x.MS == nil {
				x.MS = map[string]string{}
			}
			x.MS["a"] = v.(string)
		}},
		{"MS.b", "str", func(x *m, v any) {
			if x.MS == nil {
				x.MS = map[string]string{}
			}
			x.MS["b"] = v.(string)
		}},
		{"N1", "int", func(x *m, v any) { x.N1 = v.(int) }},
		{"N2", "int", func(x *m, v any) { x.N2 = v.(int) }},
		{"E2", "int", func(x *m, v any) { x.E2 = v.(int) }},
		{"Q2", "int", func(x *m, v any) { q(x).Q2 = v.(int) }},
		{"In.B", "int", func(x *m, v any) { x.In.B = v.(int) }},
		{"PIn.B", "int", func(x *m, v any) { pin(x).B = v.(int) }},
		{"In", "inner", func(x *m, v any) { x.In = v.(csInner) }},
		{"PIn", "pinner", func(x *m, v any) { x.PIn = v.(*csInner) }},
		{"L", "strs", func(x *m, v any) { x.L = v.([]string) }},
		{"In.C", "strs", func(x *m, v any) { x.In.C = v.([]string) }},
		{"PIn.C", "strs", func(x *m, v any) { pin(x).C = v.([]string) }},
		{"Any1", "any", func(x *m, v any) { x.Any1 = v }},
		{"Any2", "any", func(x *m, v any) { x.Any2 = v }},
		{"Any1.sub", "any", func(x *m, v any) { anyMapSet(func() *any { return &x.Any1 }, "sub", v) }},
		{"Any2.u", "any", func(x *m, v any) { anyMapSet(func() *any { return &x.Any2 }, "u", v) }},
		{"Any2.v", "any", func(x *m, v any) { anyMapSet(func() *any { return &x.Any2 }, "v", v) }},
		{"M.x", "any", func(x *m, v any) {
			if x.M == nil {
				x.M = map[string]any{}
			}
			x.M["x"] = v
		}},
		{"M.y", "any", func(x *m, v any) {
			if x.M == nil {
				x.M = map[string]any{}
			}
			x.M["y"] = v
		}},
	}
}

func dstOfOut() []dstSlot[csOut] {
	type o = csOut
	p := func(x *o) *csInner {
		if x.P == nil {
			x.P = &csInner{}
		}
		return x.P
	}
	return []dstSlot[o]{
		{"Sum", "str", func(x *o, v any) { x.Sum = v.(string) }},
		{"S2", "str", func(x *o, v any) { x.S2 = v.(string) }},
		{"E1", "str", func(x *o, v any) { x.E1 = v.(string) }},
		{"In.A", "str", func(x *o, v any) { x.In.A = v.(string) }},
		{"P.A", "str", func(x *o, v any) { p(x).A = v.(string) }},
		{"Cnt", "int", func(x *o, v any) { x.Cnt = v.(int) }},
		{"E2", "int", func(x *o, v any) { x.E2 = v.(int) }},
		{"In.B", "int", func(x *o, v any) { x.In.B = v.(int) }},
		{"P.B", "int", func(x *o, v any) { p(x).B = v.(int) }},
		{"In", "inner", func(x *o, v any) { x.In = v.(csInner) }},
		{"P", "pinner", func(x *o, v any) { x.P = v.(*csInner) }},
		{"L", "strs", func(x *o, v any) { x.L = v.([]string) }},
		{"In.C", "strs", func(x *o, v any) { x.In.C = v.([]string) }},
		{"P.C", "strs", func(x *o, v any) { p(x).C = v.([]string) }},
		{"M", "map", func(x *o, v any) { x.M = v.(map[string]any) }},
		{"Any", "any", func(x *o, v any) { x.Any = v }},
		{"Any.sub", "any", func(x *o, v any) { anyMapSet(func() *any { return &x.Any }, "sub", v) }},
		{"M.k", "any", func(x *o, v any) {
			if x.M == nil {
				x.M = map[string]any{}
			}
			x.M["k"] = v
		}},
	}
}

// dstOfMap: the keys of a map[string]any output; names with prefix p.
func dstOfMap(p string, nested bool) []dstSlot[map[string]any] {
	type o = map[string]any
	var out []dstSlot[o]
	for _, k := range []string{"1", "2", "3", "4", "5"} {
		key := p + k
		out = append(out, dstSlot[o]{key, "any", func(x *o, v any) { (*x)[key] = v }})
	}
	if nested {
		for _, k := range []string{"a", "b"} {
			key := k
			out = append(out, dstSlot[o]{"sub." + key, "any", func(x *o, v any) {
				s, ok := (*x)["sub"].(map[string]any)
				if !ok {
					s = map[string]any{}
					(*x)["sub"] = s
				}
				s[key] = v
			}})
		}
	}
	return out
}

func findSrc[S any](t []srcSlot[S], path string) *srcSlot[S] {
	for i := range t {
		if t[i].path == path {
			return &t[i]
		}
	}
	panic("harness: unknown source slot " + path)
}

func findDst[T any](t []dstSlot[T], path string) *dstSlot[T] {
	for i := range t {
		if t[i].path == path {
			return &t[i]
		}
	}
	panic("harness: unknown target slot " + path)
}

// applyModel is the meaning of a set of mappings over one edge; false = a source path cannot be followed
// in this input (request-time error of the run).
func applyModel[S, T any](src *S, dst *T, ms []cmap, st []srcSlot[S], dt []dstSlot[T]) bool {
	for _, m := range ms {
		v, ok := findSrc(st, m.From).get(src)
		if !ok {
			return false
		}
		findDst(dt, m.To).set(dst, v)
	}
	return true
}

func pathsConflict(a, b string) bool {
	return a == b || strings.HasPrefix(a, b+".") || strings.HasPrefix(b, a+".")
}

// pickMaps chooses between lo and hi mappings: distinct, non-overlapping targets, each with a source of a
// class the target accepts.
func pickMaps[S, T any](r *mon.Rand, st []srcSlot[S], dt []dstSlot[T], lo, hi int) []cmap {
	want := r.Range(lo, hi)
	var out []cmap
	for _, di := range r.Perm(len(dt)) {
		if len(out) >= want {
			break
		}
		d := dt[di]
		clash := false
		for _, m := range out {
			if pathsConflict(m.To, d.path) {
				clash = true
				break
			}
		}
		if clash {
			continue
		}
		var cands []string
		for _, s := range st {
			if d.class == "any" || d.class == s.class {
				cands = append(cands, s.path)
			}
		}
		if len(cands) == 0 {
			continue
		}
		out = append(out, cmap{From: mon.PickOne(r, cands), To: d.path})
	}
	return out
}

func fp(path string) compose.FieldPath {
	if path == "" {
		return nil
	}
	return compose.FieldPath(strings.Split(path, "."))
}

// toFieldMappings uses the short constructors where the paths have one element and the path constructors
// otherwise, so that all six are exercised.
func toFieldMappings(ms []cmap) []*compose.FieldMapping {
	out := make([]*compose.FieldMapping, 0, len(ms))
	for _, m := range ms {
		f, t := fp(m.From), fp(m.To)
		switch {
		case len(f) == 0 && len(t) == 1:
			out = append(out, compose.ToField(t[0]))
		case len(f) == 0:
			out = append(out, compose.ToFieldPath(t))
		case len(t) == 0 && len(f) == 1:
			out = append(out, compose.FromField(f[0]))
		case len(t) == 0:
			out = append(out, compose.FromFieldPath(f))
		case len(f) == 1 && len(t) == 1:
			out = append(out, compose.MapFields(f[0], t[0]))
		default:
			out = append(out, compose.MapFieldPaths(f, t))
		}
	}
	return out
}

// ---------------------------------------------------------------- generation

var (
	coldSrcIn    = srcOfInput()
	coldSrcInner = srcOfInner()
	coldSrcRes   = srcOfRes()
	coldDstMid   = dstOfMid()
	coldDstOut   = dstOfOut()
	midFields    = []string{"CsEmb", "CsEmbP", "S1", "S2", "S3", "N1", "N2", "In", "PIn", "L", "Any1", "Any2", "M", "MS"}
)

func genInner(r *mon.Rand) csInner {
	in := csInner{A: r.Str(1, 5), B: r.Intn(1000)}
	for k := r.Intn(3); k > 0; k-- {
		in.C = append(in.C, r.Str(1, 3))
	}
	return in
}

func genPInner(r *mon.Rand) *csInner {
	if r.Prob(0.08) {
		return nil
	}
	in := genInner(r)
	return &in
}

func genDeep(r *mon.Rand) csDeep {
	return csDeep{In: genInner(r), P: genPInner(r), Tag: r.Str(1, 4), N: r.Intn(100)}
}

func genDyn(r *mon.Rand) dynVal {
	return dynVal{X: r.Str(1, 6), Y: r.Intn(10000), In: genInner(r), P: genPInner(r)}
}

func genInput(r *mon.Rand, tag string, dynKinds, stKinds []string) coldInput {
	in := coldInput{
		Name: tag + r.Str(1, 5), Num: r.Intn(100000), E1: r.Str(1, 4), E2: r.Intn(50),
		HasQ: !r.Prob(0.05), Q1: r.Str(1, 4), Q2: r.Intn(50),
		Deep: genDeep(r), Dyn: genDyn(r), St: genDyn(r), BagS: r.Str(1, 5), BagN: r.Intn(777), BagDeep: genDeep(r),
	}
	if !r.Prob(0.05) {
		d := genDeep(r)
		in.Ptr = &d
	}
	for k := r.Intn(4); k > 0; k-- {
		in.List = append(in.List, r.Str(1, 3))
	}
	in.DynKind = mon.PickOne(r, dynKinds)
	in.StKind = mon.PickOne(r, stKinds)
	if r.Prob(0.04) {
		in.DynKind = mon.PickOne(r, []string{"nil", "nilptr"})
	}
	if r.Prob(0.03) {
		in.StKind = mon.PickOne(r, []string{"nil", "nilptr"})
	}
	return in
}

var liveDynKinds = []string{"A", "B", "ptrA", "ptrB", "map", "fresh0", "fresh1", "ptrFresh0", "ptrFresh1"}

func genColdCase(r *mon.Rand) *coldCase {
	c := &coldCase{
		Shape:    mon.PickOne(r, []string{"direct", "direct", "nested", "via-deep", "fan-in"}),
		Out:      mon.PickOne(r, []string{"struct", "map"}),
		MidForm:  mon.PickOne(r, []string{"I", "I", "S", "C", "T"}),
		DeepForm: mon.PickOne(r, []string{"I", "I", "S", "C", "T"}),
	}
	if c.Shape == "fan-in" {
		c.Out = "map"
	}
	for i := range c.Fresh {
		c.Fresh[i] = freshSpec{Order: r.Perm(4), Extra: "F" + r.Str(3, 8)}
	}
	switch c.Shape {
	case "via-deep":
		c.DeepFrom = mon.PickOne(r, []string{"Deep", "Deep", "Bag.deep"})
		if r.Prob(0.4) {
			// the whole output of the predecessor goes to one field of the successor
			c.DeepToMid = []cmap{{From: "", To: mon.PickOne(r, []string{"In", "Any1", "Any2.u", "M.x"})}}
		} else {
			c.DeepToMid = pickMaps(r, coldSrcInner, coldDstMid, 1, 5)
		}
	default:
		c.StartToMid = pickMaps(r, coldSrcIn, coldDstMid, 1, 10)
	}
	if c.Shape == "nested" {
		for _, i := range r.Perm(len(midFields))[:r.Range(3, len(midFields))] {
			c.Identity = append(c.Identity, midFields[i])
		}
		sort.Strings(c.Identity)
	}
	if c.Out == "struct" {
		c.MidToEnd = pickMaps(r, coldSrcRes, coldDstOut, 1, 8)
	} else {
		c.MidToEnd = pickMaps(r, coldSrcRes, dstOfMap("k", true), 1, 6)
	}
	if c.Shape == "fan-in" {
		c.StartToEnd = pickMaps(r, coldSrcIn, dstOfMap("s", false), 1, 4)
	}

	// burst 1: the first runs of the object, all at once; burst 2: some callers bring a dynamic struct type the
	// object has not met while the others keep to the types of burst 1
	perm := r.Perm(len(liveDynKinds))
	nFirst := r.Range(1, 3)
	first := make([]string, 0, nFirst)
	for _, i := range perm[:nFirst] {
		first = append(first, liveDynKinds[i])
	}
	late := []string{liveDynKinds[perm[nFirst]], liveDynKinds[perm[nFirst+1]]}
	paras := [][]string{{"I", "S"}, {"I", "S", "C", "T"}, {"I"}, {"S"}, {"S", "T"}}[r.Intn(5)]
	for b := 0; b < 2; b++ {
		n := []int{2, 8, 16}[r.Intn(3)]
		if b == 1 {
			n = []int{2, 8}[r.Intn(2)]
		}
		calls := make([]coldCall, n)
		for i := range calls {
			kinds := first
			if b == 1 && r.Prob(0.4) {
				kinds = late
			}
			calls[i] = coldCall{Para: mon.PickOne(r, paras), In: genInput(r, fmt.Sprintf("b%dc%d-", b, i), kinds, kinds)}
		}
		c.Bursts = append(c.Bursts, calls)
	}
	return c
}

// ---------------------------------------------------------------- building the real values and the real workflow

type freshTypes [2]reflect.Type

func makeFresh(specs [2]freshSpec) freshTypes {
	base := []reflect.StructField{
		{Name: "X", Type: reflect.TypeOf("")},
		{Name: "Y", Type: reflect.TypeOf(0)},
		{Name: "In", Type: reflect.TypeOf(csInner{})},
		{Name: "P", Type: reflect.TypeOf((*csInner)(nil))},
	}
	var out freshTypes
	for i, s := range specs {
		fs := make([]reflect.StructField, 0, 5)
		for _, o := range s.Order {
			fs = append(fs, base[o])
		}
		fs = append(fs, reflect.StructField{Name: s.Extra, Type: reflect.TypeOf("")})
		out[i] = reflect.StructOf(fs)
	}
	return out
}

func wrapDyn(kind string, v dynVal, ft freshTypes) any {
	fresh := func(t reflect.Type) reflect.Value {
		p := reflect.New(t)
		e := p.Elem()
		e.FieldByName("X").SetString(v.X)
		e.FieldByName("Y").SetInt(int64(v.Y))
		e.FieldByName("In").Set(reflect.ValueOf(v.In))
		e.FieldByName("P").Set(reflect.ValueOf(v.P))
		return p
	}
	switch kind {
	case "A":
		return csDynA{X: v.X, Y: v.Y, In: v.In, P: v.P}
	case "B":
		return csDynB{X: v.X, Y: v.Y, In: v.In, P: v.P, Z: "z"}
	case "ptrA":
		return &csDynA{X: v.X, Y: v.Y, In: v.In, P: v.P}
	case "ptrB":
		return &csDynB{X: v.X, Y: v.Y, In: v.In, P: v.P, Z: "z"}
	case "map":
		return map[string]any{"X": v.X, "Y": v.Y, "In": v.In, "P": v.P}
	case "fresh0":
		return fresh(ft[0]).Elem().Interface()
	case "fresh1":
		return fresh(ft[1]).Elem().Interface()
	case "ptrFresh0":
		return fresh(ft[0]).Interface()
	case "ptrFresh1":
		return fresh(ft[1]).Interface()
	case "nilptr":
		return (*csDynA)(nil)
	default:
		return nil
	}
}

func (ci *coldInput) build(ft freshTypes) csIn {
	in := csIn{
		CsEmb: CsEmb{E1: ci.E1, E2: ci.E2}, Name: ci.Name, Num: ci.Num, Deep: ci.Deep, Ptr: ci.Ptr,
		Dyn:  wrapDyn(ci.DynKind, ci.Dyn, ft),
		Bag:  map[string]any{"s": ci.BagS, "n": ci.BagN, "st": wrapDyn(ci.StKind, ci.St, ft), "deep": ci.BagDeep},
		List: ci.List,
	}
	if ci.HasQ {
		in.CsEmbP = &CsEmbP{Q1: ci.Q1, Q2: ci.Q2}
	}
	return in
}

func copyMidField(dst, src *csMid, f string) {
	switch f {
	case "CsEmb":
		dst.CsEmb = src.CsEmb
	case "CsEmbP":
		dst.CsEmbP = src.CsEmbP
	case "S1":
		dst.S1 = src.S1
	case "S2":
		dst.S2 = src.S2
	case "S3":
		dst.S3 = src.S3
	case "N1":
		dst.N1 = src.N1
	case "N2":
		dst.N2 = src.N2
	case "In":
		dst.In = src.In
	case "PIn":
		dst.PIn = src.PIn
	case "L":
		dst.L = src.L
	case "Any1":
		dst.Any1 = src.Any1
	case "Any2":
		dst.Any2 = src.Any2
	case "M":
		dst.M = src.M
	case "MS":
		dst.MS = src.MS
	default:
		panic("harness: unknown field " + f)
	}
}

// expected is the plain Go model of the generated workflow: the canonical rendering of what the call returns
// alone, or failed=true when a source path cannot be followed in this input.
func (c *coldCase) expected(ci *coldInput) (want string, failed bool) {
	var mid csMid
	switch c.Shape {
	case "via-deep":
		d := ci.Deep
		if c.DeepFrom == "Bag.deep" {
			d = ci.BagDeep
		}
		inner := deepFn(d)
		for _, m := range c.DeepToMid {
			var v any = inner
			if m.From != "" {
				v, _ = findSrc(coldSrcInner, m.From).get(&inner)
			}
			findDst(coldDstMid, m.To).set(&mid, v)
		}
	default:
		if !applyModel(ci, &mid, c.StartToMid, coldSrcIn, coldDstMid) {
			return "", true
		}
	}
	if c.Shape == "nested" {
		var inner csMid
		for _, f := range c.Identity {
			copyMidField(&inner, &mid, f)
		}
		mid = inner
	}
	res := midFn(mid)
	if c.Out == "struct" {
		var out csOut
		applyModel(&res, &out, c.MidToEnd, coldSrcRes, coldDstOut)
		return canon(out), false
	}
	out := map[string]any{}
	applyModel(&res, &out, c.MidToEnd, coldSrcRes, dstOfMap("k", true))
	if c.Shape == "fan-in" {
		if !applyModel(ci, &out, c.StartToEnd, coldSrcIn, dstOfMap("s", false)) {
			return "", true
		}
	}
	return canon(out), false
}

func buildCold[O any](ctx context.Context, c *coldCase) (r compose.Runnable[csIn, O], err error) {
	if p := mon.Safe(func() {
		wf := compose.NewWorkflow[csIn, O]()
		switch c.Shape {
		case "via-deep":
			wf.AddLambdaNode("deep", lambdaOf(c.DeepForm, deepFn)).AddInput(compose.START, toFieldMappings([]cmap{{From: c.DeepFrom}})...)
			wf.AddLambdaNode("mid", lambdaOf(c.MidForm, midFn)).AddInput("deep", toFieldMappings(c.DeepToMid)...)
		case "nested":
			inner := compose.NewWorkflow[csMid, csRes]()
			id := make([]cmap, 0, len(c.Identity))
			for _, f := range c.Identity {
				id = append(id, cmap{From: f, To: f})
			}
			inner.AddLambdaNode("core", lambdaOf(c.MidForm, midFn)).AddInput(compose.START, toFieldMappings(id)...)
			inner.End().AddInput("core")
			wf.AddGraphNode("mid", inner).AddInput(compose.START, toFieldMappings(c.StartToMid)...)
		default:
			wf.AddLambdaNode("mid", lambdaOf(c.MidForm, midFn)).AddInput(compose.START, toFieldMappings(c.StartToMid)...)
		}
		wf.End().AddInput("mid", toFieldMappings(c.MidToEnd)...)
		if c.Shape == "fan-in" {
			wf.End().AddInput(compose.START, toFieldMappings(c.StartToEnd)...)
		}
		r, err = wf.Compile(ctx)
	}); p != nil {
		return nil, fmt.Errorf("panic while building: %s\n%s", p.Value, p.Stack)
	}
	return r, err
}

// ---------------------------------------------------------------- running

type coldResult struct {
	got    string // canonical rendering of the returned value
	failed bool   // the call returned an error
	err    string
	panicV *mon.Panic
}

// mergeChunks puts the chunks of an output stream together: a struct output must arrive as one chunk, the
// chunks of a map output carry disjoint keys (nested maps are merged key by key).
func mergeChunks(chunks []any) (any, error) {
	if len(chunks) == 0 {
		return nil, fmt.Errorf("the output stream ended without a chunk")
	}
	if _, isMap := chunks[0].(map[string]any); !isMap {
		if len(chunks) != 1 {
			return nil, fmt.Errorf("the struct output arrived as %d chunks", len(chunks))
		}
		return chunks[0], nil
	}
	out := map[string]any{}
	var merge func(dst, src map[string]any) error
	merge = func(dst, src map[string]any) error {
		for k, v := range src {
			old, dup := dst[k]
			if !dup {
				dst[k] = v
				continue
			}
			om, ok1 := old.(map[string]any)
			vm, ok2 := v.(map[string]any)
			if !ok1 || !ok2 {
				return fmt.Errorf("key %q arrived in two chunks of the output stream", k)
			}
			cp := make(map[string]any, len(om)+len(vm))
			for kk, vv := range om {
				cp[kk] = vv
			}
			if err := merge(cp, vm); err != nil {
				return err
			}
			dst[k] = cp
		}
		return nil
	}
	for _, c := range chunks {
		if err := merge(out, c.(map[string]any)); err != nil {
			return nil, err
		}
	}
	return out, nil
}

func callCold[O any](ctx context.Context, r compose.Runnable[csIn, O], para string, in csIn) (res coldResult) {
	res.panicV = mon.Safe(func() {
		var (
			out any
			err error
		)
		drain := func(sr *schema.StreamReader[O]) (any, error) {
			defer sr.Close()
			var chunks []any
			for {
				c, e := sr.Recv()
				if e == io.EOF {
					return mergeChunks(chunks)
				}
				if e != nil {
					return nil, e
				}
				chunks = append(chunks, c)
			}
		}
		switch para {
		case "I":
			out, err = r.Invoke(ctx, in)
		case "C":
			out, err = r.Collect(ctx, schema.StreamReaderFromArray([]csIn{in}))
		case "S":
			var sr *schema.StreamReader[O]
			if sr, err = r.Stream(ctx, in); err == nil {
				out, err = drain(sr)
			}
		default:
			var sr *schema.StreamReader[O]
			if sr, err = r.Transform(ctx, schema.StreamReaderFromArray([]csIn{in})); err == nil {
				out, err = drain(sr)
			}
		}
		if err != nil {
			res.failed, res.err = true, err.Error()
			return
		}
		res.got = canon(out)
	})
	return res
}

// ---------------------------------------------------------------- race reports written while an object of this workload ran

// raceTail follows the file the race detector of this process writes its reports to (the driver sets
// GORACE=log_path=...; the runtime appends ".<pid>"). Without it (direct `go test` run) nothing is attributed
// here: the reports go to stderr and fail the test binary.
type raceTail struct {
	path string
	off  int64
}

func newRaceTail() *raceTail {
	for _, f := range strings.Fields(os.Getenv("GORACE")) {
		if strings.HasPrefix(f, "log_path=") {
			p := strings.TrimPrefix(f, "log_path=")
			if p == "" || p == "stderr" || p == "stdout" {
				return nil
			}
			return &raceTail{path: p + "." + strconv.Itoa(os.Getpid())}
		}
	}
	return nil
}

// fresh returns what was appended since the last call.
func (t *raceTail) fresh() string {
	if t == nil {
		return ""
	}
	f, err := os.Open(t.path)
	if err != nil {
		return ""
	}
	defer f.Close()
	if _, err := f.Seek(t.off, io.SeekStart); err != nil {
		return ""
	}
	b, _ := io.ReadAll(f)
	t.off += int64(len(b))
	return string(b)
}

// raceSite: the innermost eino frame of the first access of a report, without type arguments.
func raceSite(blk string) string {
	for _, l := range strings.Split(blk, "\n") {
		l = strings.TrimSpace(l)
		if !strings.HasPrefix(l, "github.com/cloudwego/eino/") {
			continue
		}
		l = strings.TrimPrefix(l, "github.com/cloudwego/eino/")
		if i := strings.LastIndexByte(l, '('); i > 0 {
			l = l[:i]
		}
		for {
			i := strings.IndexByte(l, '[')
			j := strings.LastIndexByte(l, ']')
			if i < 0 || j < i {
				break
			}
			l = l[:i] + l[j+1:]
		}
		return l
	}
	return ""
}

func reportRaces(rep *mon.Reporter, txt, phase string, wit any) {
	for _, blk := range strings.Split(txt, "==================") {
		if !strings.Contains(blk, "WARNING: DATA RACE") || !strings.Contains(blk, "cold_struct_mapping_test.go") {
			continue
		}
		site := raceSite(blk)
		if site == "" {
			continue // no eino frame: the driver reports it as a harness error
		}
		rep.Violation(coldClass+"/data-race/"+site,
			"the race detector reported a data race in framework code while a freshly compiled workflow with struct field mappings was called concurrently ("+phase+")\n"+strings.TrimSpace(blk), wit)
	}
}

// ---------------------------------------------------------------- the sub-workload

var coldRaceTail = newRaceTail()

// coldStructMappingCases runs `objects` fresh objects; rng must be a pure function of the case.
func coldStructMappingCases(ctx context.Context, rep *mon.Reporter, rng *mon.Rand, objects int, sample bool) {
	rep.Require("cold_objects_called", 100)
	for k := 0; k < objects; k++ {
		c := genColdCase(rng.Sub("object" + strconv.Itoa(k)))
		if c.Out == "struct" {
			coldObject[csOut](ctx, rep, c, sample && k == 0)
		} else {
			coldObject[map[string]any](ctx, rep, c, sample && k == 0)
		}
	}
}

func coldObject[O any](ctx context.Context, rep *mon.Reporter, c *coldCase, sample bool) {
	ft := makeFresh(c.Fresh)
	type prepared struct {
		in     csIn
		want   string
		failed bool
	}
	prep := make([][]prepared, len(c.Bursts))
	for b, calls := range c.Bursts {
		prep[b] = make([]prepared, len(calls))
		for i := range calls {
			p := prepared{in: calls[i].In.build(ft)}
			p.want, p.failed = c.expected(&calls[i].In)
			prep[b][i] = p
		}
	}
	coldRaceTail.fresh() // what earlier work of this process left in the race log is not ours

	r, err := buildCold[O](ctx, c)
	if err != nil {
		rep.Violation(coldClass+"/build-error", err.Error(), c)
		return
	}
	rep.Count("cold_objects_called", 1)
	rep.Distinct("cold_shapes", c.shapeDigest())
	for b, calls := range c.Bursts {
		phase := "burst 1: the first runs of the object"
		if b == 1 {
			phase = "burst 2: some callers bring a struct type the object has not met"
		}
		n := len(calls)
		got := make([]coldResult, n)
		wres, dump := together(n, func(i int) { got[i] = callCold(ctx, r, calls[i].Para, prep[b][i].in) })
		rep.AddEvaluations(int64(n))
		rep.Count("cold_concurrent_calls", int64(n))
		if b == 0 {
			rep.Count("cold_first_calls", int64(n))
		}
		reportRaces(rep, coldRaceTail.fresh(), phase, c)
		if wres == mon.Stuck {
			where, detail := gspec.StuckSignature(dump)
			rep.Violation(coldClass+"/hang/"+where, fmt.Sprintf("%d concurrent calls (%s) can never finish\n%s", n, phase, detail), c)
			return
		}
		if wres == mon.Inconclusive {
			rep.Inconclusive("watchdog fired while goroutines were active")
			return
		}
		for i, g := range got {
			p := prep[b][i]
			about := fmt.Sprintf("%d concurrent callers, %s; call %d paradigm=%s input=%+v", n, phase, i, calls[i].Para, calls[i].In)
			switch {
			case g.panicV != nil:
				rep.Violation(coldClass+"/panic/"+strings.TrimPrefix(g.panicV.FirstFrame("github.com/cloudwego/eino/"), "github.com/cloudwego/eino/"), g.panicV.Value+"\n"+about+"\n"+g.panicV.Stack, c)
				return
			case p.failed && !g.failed:
				rep.Violation(coldClass+"/result-differs-under-concurrency/no-error", "alone the call fails (a source path of a mapping cannot be followed in this input), concurrently it returned "+g.got+"\n"+about, c)
				return
			case !p.failed && g.failed:
				rep.Violation(coldClass+"/result-differs-under-concurrency/error", "alone the call returns "+p.want+"\nconcurrently it failed: "+g.err+"\n"+about, c)
				return
			case !p.failed && g.got != p.want:
				rep.Violation(coldClass+"/result-differs-under-concurrency/value", "alone:      "+p.want+"\nconcurrent: "+g.got+"\n"+about, c)
				return
			}
			if p.failed {
				rep.Count("cold_calls_failing_alone", 1)
			} else {
				rep.Count("cold_results_compared", 1)
			}
		}
	}
	if len(c.Bursts[0]) >= 8 {
		rep.NonTrivial("cold|" + c.shapeDigest() + "|" + strconv.Itoa(len(c.Bursts[0])))
	}
	if sample {
		rep.Sample(map[string]any{"workload": "cold-struct-mapping", "object": c.shapeDigest(), "first_burst_callers": len(c.Bursts[0])})
	}
}
