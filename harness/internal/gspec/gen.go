package gspec

import (
	"fmt"
	"sort"

	"verifharness/internal/mon"
)

// GenOpts bounds the generated program space.
type GenOpts struct {
	Mode        Mode
	MinNodes    int
	MaxNodes    int
	Cycles      float64 // Pregel: probability of adding back edges / loop branches
	Branches    float64 // probability that a fan-out becomes a branch
	Multi       float64 // probability that a branch is a multi branch
	StreamCond  float64 // probability that a branch condition is a stream condition
	AllowEmpty  float64 // probability that a multi branch may select nothing
	Nest        int     // remaining nesting depth
	NestProb    float64
	State       float64 // probability that the graph has state (+ handlers)
	StreamState float64 // probability that a handler is a stream handler
	Streamy     bool    // assign random native paradigms / producers; false: invoke-only, array-backed
	PipeOnly    bool    // every streamed output is Pipe-backed (C19)
	Keys        float64 // probability of turning a suitable node into an input/output-key node
	Renames     float64 // probability that a node is a Rename node
	Passthrough float64
	Collide     float64
	Wide        float64
	// Workflow
	CtrlOnly     float64 // probability of an extra control-only dependency
	DataOnly     float64 // probability of an extra data-only input from a control ancestor
	Fields       float64 // probability that a single whole-value input is expressed as field mappings
	MaxStepsProb float64 // Pregel: probability of an explicit compile-time step limit
	SubModes     []Mode  // modes allowed for nested graphs (nil: all three)
	TwoBranches  float64 // probability of a second branch on a branching source
	SubState     float64 // >0: probability that a nested graph has state of its own (default: State)
	Prefix       string
}

func nodeKeyName(prefix string, i int) string {
	return fmt.Sprintf("%s%c", prefix, 'a'+i)
}

// Gen generates one spec. Pure function of r.
func Gen(r *mon.Rand, o GenOpts) *GraphSpec {
	n := r.Range(o.MinNodes, o.MaxNodes)
	g := &GraphSpec{Mode: o.Mode, Name: ""}
	if o.Prefix != "" {
		g.Name = o.Prefix
	}
	keys := make([]string, n)
	for i := 0; i < n; i++ {
		keys[i] = nodeKeyName(o.Prefix, i)
	}
	// ---- nodes
	for i := 0; i < n; i++ {
		ns := NodeSpec{Key: keys[i], Kind: Hash, PipeCap: -1, Chunk: r.Uint64()}
		switch {
		case o.Nest > 0 && r.Prob(o.NestProb):
			so := o
			so.Nest = o.Nest - 1
			so.Prefix = keys[i] + "_"
			so.MinNodes, so.MaxNodes = 1, maxInt(2, o.MaxNodes/2)
			so.Mode = Mode(r.Intn(3))
			if len(o.SubModes) > 0 {
				so.Mode = o.SubModes[r.Intn(len(o.SubModes))]
			}
			if so.Mode != Pregel {
				so.Cycles = 0
			}
			so.MaxStepsProb = 0
			if o.SubState > 0 {
				so.State = o.SubState
			}
			ns.Kind = Sub
			ns.Sub = Gen(r, so)
			ns.Sub.Name = keys[i]
		case r.Prob(o.Passthrough):
			ns.Kind = Passthrough
		case r.Prob(o.Renames):
			ns.Kind = Rename
		case r.Prob(o.Collide):
			ns.Kind = Collide
		default:
			ns.Wide = r.Prob(o.Wide)
		}
		if ns.Kind != Passthrough && ns.Kind != Sub {
			if o.Streamy {
				ns.Para = 1 + r.Intn(15)
				if ns.Kind == Rename {
					// a Rename node is item-wise: it natively offers Invoke and/or Transform
					ns.Para = []int{PI, PT, PI | PT}[r.Intn(3)]
				}
				ns.PipeCap = []int{-1, 0, 1, 3}[r.Intn(4)]
				ns.Lazy = r.Bool()
			} else {
				ns.Para = PI
			}
			if o.PipeOnly {
				ns.PipeCap = []int{0, 1, 3}[r.Intn(3)]
			}
		}
		g.Nodes = append(g.Nodes, ns)
	}
	// ---- backbone: every node gets >= 1 incoming edge from an earlier node or START
	type edge struct{ from, to string }
	out := map[string][]string{}
	in := map[string][]string{}
	has := map[edge]bool{}
	addEdge := func(f, t string) bool {
		if f == t || has[edge{f, t}] {
			return false
		}
		has[edge{f, t}] = true
		out[f] = append(out[f], t)
		in[t] = append(in[t], f)
		return true
	}
	for i := 0; i < n; i++ {
		np := 1
		if r.Prob(0.3) {
			np = 2
		}
		for j := 0; j < np; j++ {
			p := r.Intn(i+1) - 1 // -1 = START
			if i == 0 || (p < 0) {
				addEdge(START, keys[i])
			} else {
				addEdge(keys[p], keys[i])
			}
		}
	}
	// extra forward edges (fan-out / fan-in)
	extra := r.Intn(n + 1)
	for e := 0; e < extra && n > 1; e++ {
		a := r.Intn(n)
		b := r.Intn(n)
		if a > b {
			a, b = b, a
		}
		if a != b {
			addEdge(keys[a], keys[b])
		}
	}
	// sinks go to END; sometimes additional edges to END
	for i := 0; i < n; i++ {
		if len(out[keys[i]]) == 0 || r.Prob(0.12) {
			addEdge(keys[i], END)
		}
	}
	if r.Prob(0.04) {
		addEdge(START, END)
	}
	// ---- Pregel cycles: back edges
	if o.Mode == Pregel && n > 1 && r.Prob(o.Cycles) {
		nb := 1 + r.Intn(2)
		for e := 0; e < nb; e++ {
			a := r.Intn(n)
			b := r.Intn(a + 1)
			if a == b && !r.Prob(0.3) {
				continue
			}
			if a == b {
				// self loop only through has-map bypass
				if !has[edge{keys[a], keys[a]}] {
					has[edge{keys[a], keys[a]}] = true
					out[keys[a]] = append(out[keys[a]], keys[a])
					in[keys[a]] = append(in[keys[a]], keys[a])
				}
				continue
			}
			addEdge(keys[a], keys[b])
		}
	}
	// ---- turn fan-outs into branches
	branchFrom := map[string][]string{}
	srcs := append([]string{START}, keys...)
	bid := 0
	for _, s := range srcs {
		ts := out[s]
		if o.Mode == Workflow {
			// eino registers entry/exit only through control edges in a Workflow: a START that only
			// feeds a branch, or an END only reached through a branch, is rejected ("start/end node
			// not set"); that over-rejection is outside the properties, so it is not generated.
			if s == START {
				continue
			}
			var f []string
			for _, t := range ts {
				if t != END {
					f = append(f, t)
				}
			}
			ts = f
		}
		if len(ts) < 2 || !r.Prob(o.Branches) {
			continue
		}
		// choose a subset (>=2) of the outgoing targets to be governed by one branch
		sort.Strings(ts)
		perm := r.Perm(len(ts))
		k := 2 + r.Intn(len(ts)-1)
		var targets []string
		for _, pi := range perm[:k] {
			targets = append(targets, ts[pi])
		}
		sort.Strings(targets)
		bs := BranchSpec{ID: fmt.Sprintf("%sb%d", o.Prefix, bid), From: s, Targets: targets}
		bid++
		bs.Multi = r.Prob(o.Multi)
		bs.Stream = r.Prob(o.StreamCond)
		if bs.Multi {
			bs.AllowEmpty = r.Prob(o.AllowEmpty)
		}
		g.Branches = append(g.Branches, bs)
		branchFrom[s] = targets
		// sometimes a second branch on the same source over (partly) the same targets: a target
		// is skipped only when no branch of the source selects it
		if len(ts) >= 2 && r.Prob(o.TwoBranches) {
			perm2 := r.Perm(len(ts))
			k2 := 2 + r.Intn(len(ts)-1)
			var t2 []string
			for _, pi := range perm2[:k2] {
				t2 = append(t2, ts[pi])
			}
			sort.Strings(t2)
			b2 := BranchSpec{ID: fmt.Sprintf("%sb%d", o.Prefix, bid), From: s, Targets: t2, Multi: r.Prob(o.Multi), Stream: r.Prob(o.StreamCond)}
			bid++
			if b2.Multi {
				b2.AllowEmpty = r.Prob(o.AllowEmpty)
			}
			g.Branches = append(g.Branches, b2)
			seen := map[string]bool{}
			for _, t := range targets {
				seen[t] = true
			}
			for _, t := range t2 {
				if !seen[t] {
					branchFrom[s] = append(branchFrom[s], t)
				}
			}
		}
	}
	isBranched := func(f, t string) bool {
		for _, x := range branchFrom[f] {
			if x == t {
				return true
			}
		}
		return false
	}
	// ---- emit edges (those not governed by a branch), deterministic order
	var es []edge
	for e := range has {
		es = append(es, e)
	}
	sort.Slice(es, func(i, j int) bool {
		if es[i].from != es[j].from {
			return es[i].from < es[j].from
		}
		return es[i].to < es[j].to
	})
	for _, e := range es {
		if isBranched(e.from, e.to) {
			continue
		}
		g.Edges = append(g.Edges, EdgeSpec{From: e.from, To: e.to})
	}
	// order of declaration shuffled (exercises insertion-order dependent code)
	perm := r.Perm(len(g.Edges))
	shuffled := make([]EdgeSpec, len(g.Edges))
	for i, p := range perm {
		shuffled[i] = g.Edges[p]
	}
	g.Edges = shuffled

	if o.Mode == Workflow {
		workflowize(r, o, g)
	}
	// ---- state
	if r.Prob(o.State) {
		g.State = true
		for i := range g.Nodes {
			ns := &g.Nodes[i]
			if ns.Kind == Passthrough {
				continue
			}
			if r.Prob(0.4) {
				if o.Streamy && r.Prob(o.StreamState) {
					ns.StreamPre = true
				} else {
					ns.Pre = true
				}
			}
			if r.Prob(0.4) {
				if o.Streamy && r.Prob(o.StreamState) {
					ns.StreamPost = true
				} else {
					ns.Post = true
				}
			}
		}
	}
	// ---- input/output key nodes: a Hash node whose only data predecessor is a Hash node (or START)
	if o.Mode != Workflow {
		for i := range g.Nodes {
			ns := &g.Nodes[i]
			if ns.Kind != Hash || ns.Wide || ns.Pre || ns.Post || ns.StreamPre || ns.StreamPost || !r.Prob(o.Keys) {
				continue
			}
			preds := in[ns.Key]
			if len(preds) != 1 {
				continue
			}
			p := preds[0]
			if p == ns.Key {
				continue
			}
			if p == START {
				ns.InputKey, ns.OutputKey = "in", ns.Key
				continue
			}
			pn := g.Node(p)
			if pn.Kind == Hash && pn.InputKey == "" {
				ns.InputKey, ns.OutputKey = p, ns.Key
			} else if pn.Kind == Hash {
				ns.InputKey, ns.OutputKey = pn.OutputKey, ns.Key
			}
		}
	}
	if o.Mode == Pregel && r.Prob(o.MaxStepsProb) {
		g.MaxSteps = 1 + r.Intn(n+4)
	}
	if o.Prefix == "" {
		FixNames(g, "")
	}
	return g
}

// FixNames sets the Name of every nested graph to its full path of graph-node keys.
func FixNames(g *GraphSpec, name string) {
	g.Name = name
	for i := range g.Nodes {
		if g.Nodes[i].Sub != nil {
			sub := g.Nodes[i].Key
			if name != "" {
				sub = name + "/" + sub
			}
			FixNames(g.Nodes[i].Sub, sub)
		}
	}
}

// staticKeys returns the statically known output keys of a node, or nil.
func staticKeys(n *NodeSpec) []string {
	if n == nil || n.Kind != Hash || n.InputKey != "" {
		return nil
	}
	ks := []string{n.Key}
	if n.Wide {
		ks = append(ks, n.Key+"_w")
	}
	return ks
}

// workflowize rewrites the edge set for Workflow semantics: a node takes either
// one whole-value input or only field-mapped inputs; branch targets receive no
// data from the branch and get a data-only input from the branch source; adds
// control-only and data-only dependencies.
func workflowize(r *mon.Rand, o GenOpts, g *GraphSpec) {
	// control ancestors for data-only edges
	ctrlPred := map[string][]string{}
	for _, e := range g.Edges {
		ctrlPred[e.To] = append(ctrlPred[e.To], e.From)
	}
	for _, b := range g.Branches {
		for _, t := range b.Targets {
			ctrlPred[t] = append(ctrlPred[t], b.From)
		}
	}
	var ancestors func(n string, seen map[string]bool)
	ancestors = func(n string, seen map[string]bool) {
		for _, p := range ctrlPred[n] {
			if !seen[p] {
				seen[p] = true
				ancestors(p, seen)
			}
		}
	}
	targets := append([]string{}, END)
	for _, n := range g.Nodes {
		targets = append(targets, n.Key)
	}
	sort.Strings(targets)
	byTo := map[string][]int{}
	for i, e := range g.Edges {
		byTo[e.To] = append(byTo[e.To], i)
	}
	fieldsOf := func(from string) []string {
		if from == START {
			if o.Prefix != "" {
				return nil // nested: the keys of the input are not known statically
			}
			return []string{"in"}
		}
		return staticKeys(g.Node(from))
	}
	var extra []EdgeSpec
	for _, t := range targets {
		idxs := byTo[t]
		// branch sources give no data: optionally add a data-only input from the branch source
		for _, b := range g.Branches {
			for _, bt := range b.Targets {
				if bt == t && r.Prob(0.7) {
					dup := false
					for _, i := range idxs {
						if g.Edges[i].From == b.From {
							dup = true
						}
					}
					for _, x := range extra {
						if x.From == b.From && x.To == t {
							dup = true
						}
					}
					if !dup {
						extra = append(extra, EdgeSpec{From: b.From, To: t, NoControl: true})
					}
				}
			}
		}
	}
	g.Edges = append(g.Edges, extra...)
	// extra data-only inputs from control ancestors, control-only dependencies
	for _, t := range targets {
		seen := map[string]bool{}
		ancestors(t, seen)
		var anc []string
		for a := range seen {
			anc = append(anc, a)
		}
		sort.Strings(anc)
		direct := map[string]bool{}
		for _, e := range g.Edges {
			if e.To == t {
				direct[e.From] = true
			}
		}
		for _, b := range g.Branches {
			for _, bt := range b.Targets {
				if bt == t {
					direct[b.From] = true
				}
			}
		}
		for _, a := range anc {
			if direct[a] {
				continue
			}
			if r.Prob(o.DataOnly) {
				g.Edges = append(g.Edges, EdgeSpec{From: a, To: t, NoControl: true})
				direct[a] = true
			} else if r.Prob(o.CtrlOnly) {
				g.Edges = append(g.Edges, EdgeSpec{From: a, To: t, NoData: true})
				direct[a] = true
			}
		}
	}
	// now fix the data inputs of every target: either exactly one whole-value input, or all field-mapped
	drop := map[int]bool{}
	for _, t := range targets {
		var dataIdx []int
		for i, e := range g.Edges {
			if e.To == t && !e.NoData {
				dataIdx = append(dataIdx, i)
			}
		}
		if len(dataIdx) == 0 {
			continue
		}
		if len(dataIdx) == 1 {
			e := &g.Edges[dataIdx[0]]
			if fs := fieldsOf(e.From); fs != nil && r.Prob(o.Fields) {
				e.Fields = fs
			}
			continue
		}
		for _, i := range dataIdx {
			e := &g.Edges[i]
			fs := fieldsOf(e.From)
			if fs == nil {
				// source without static keys cannot be field-mapped: demote to a control-only dependency
				if e.NoControl {
					drop[i] = true // a data-only input that cannot be expressed: removed
				} else {
					e.NoData = true
				}
				continue
			}
			// map one or all of the keys
			if len(fs) > 1 && r.Bool() {
				fs = fs[:1]
			}
			e.Fields = fs
		}
	}
	{
		var kept []EdgeSpec
		for i, e := range g.Edges {
			if !drop[i] {
				kept = append(kept, e)
			}
		}
		g.Edges = kept
	}
	// A pass-through node without any data input can never have its type inferred. eino does
	// not reject that construction in a Workflow but panics at Compile (a C20 matter, reported
	// there); it is not generated here.
	for i := range g.Nodes {
		n := &g.Nodes[i]
		if n.Kind != Passthrough {
			continue
		}
		// (an input that is field-mapped carries parts of a value and tells nothing about the node's type)
		hasData := false
		for _, e := range g.Edges {
			if e.To == n.Key && !e.NoData && len(e.Fields) == 0 {
				hasData = true
			}
		}
		if !hasData {
			n.Kind = Hash
			n.Para = PI
		}
	}
}
