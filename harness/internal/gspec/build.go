package gspec

import (
	"context"
	"errors"
	"fmt"
	"io"
	"sync/atomic"

	"github.com/cloudwego/eino/compose"
	"github.com/cloudwego/eino/schema"

	"verifharness/internal/mon"
)

// OptA / OptB are the two lambda option types used by generated nodes (C16).
type OptA struct{ ID string }
type OptB struct{ ID string }

// St is the state type of generated stateful graphs.
type St struct {
	Serial  int64
	Graph   string
	Counter int64
	Log     []string
	Saved   map[string]any // node key -> saved input (a map[string]any)
}

var stateSerial int64

func init() {
	_ = compose.RegisterSerializableType[St]("verif_gspec_state")
}

// BuildOpts are build-time parameters that are not part of the spec.
type BuildOpts struct {
	Store   compose.CheckPointStore
	Compile []compose.GraphCompileOption // extra top-level compile options
	// OnState is called inside every state handler (i.e. under the framework's state lock).
	OnState func(ctx context.Context, kind, node string, st *St)
	// OnGen is called when a state object is generated.
	OnGen func(ctx context.Context, graph string, st *St)
}

type builder struct {
	bo BuildOpts
}

// Build compiles the spec through the public API and returns the runnable.
func Build(ctx context.Context, spec *GraphSpec, bo BuildOpts) (r compose.Runnable[V, V], err error) {
	if p := mon.Safe(func() { r, err = build(ctx, spec, bo) }); p != nil {
		return nil, &BuildPanic{P: p}
	}
	return r, err
}

// BuildPanic: Add*/Compile panicked (always a defect of the framework: C20 territory).
type BuildPanic struct{ P *mon.Panic }

func (b *BuildPanic) Error() string {
	return "panic during build/compile: " + b.P.Value + "\n" + b.P.Stack
}

func build(ctx context.Context, spec *GraphSpec, bo BuildOpts) (compose.Runnable[V, V], error) {
	b := &builder{bo: bo}
	opts := b.compileOpts(spec, true)
	switch spec.Mode {
	case Workflow:
		wf, err := b.workflow(spec)
		if err != nil {
			return nil, err
		}
		return wf.Compile(ctx, opts...)
	default:
		g, err := b.graph(spec)
		if err != nil {
			return nil, err
		}
		return g.Compile(ctx, opts...)
	}
}

func (b *builder) compileOpts(spec *GraphSpec, top bool) []compose.GraphCompileOption {
	var opts []compose.GraphCompileOption
	if spec.Mode == DAG {
		opts = append(opts, compose.WithNodeTriggerMode(compose.AllPredecessor))
	}
	if spec.MaxSteps > 0 {
		opts = append(opts, compose.WithMaxRunSteps(spec.MaxSteps))
	}
	if len(spec.IntBefore) > 0 {
		opts = append(opts, compose.WithInterruptBeforeNodes(append([]string(nil), spec.IntBefore...)))
	}
	if len(spec.IntAfter) > 0 {
		opts = append(opts, compose.WithInterruptAfterNodes(append([]string(nil), spec.IntAfter...)))
	}
	if top {
		if b.bo.Store != nil {
			opts = append(opts, compose.WithCheckPointStore(b.bo.Store))
		}
		opts = append(opts, b.bo.Compile...)
	}
	if spec.Name != "" {
		opts = append(opts, compose.WithGraphName(spec.Name))
	}
	return opts
}

func (b *builder) newOpts(spec *GraphSpec) []compose.NewGraphOption {
	if !spec.State {
		return nil
	}
	name := spec.Name
	return []compose.NewGraphOption{compose.WithGenLocalState(func(ctx context.Context) *St {
		st := &St{Serial: atomic.AddInt64(&stateSerial, 1), Graph: name, Saved: map[string]any{}}
		if ctl := CtlFrom(ctx); ctl != nil {
			ctl.Log.addState("gen", name, st.Serial, 0)
		}
		if b.bo.OnGen != nil {
			b.bo.OnGen(ctx, name, st)
		}
		return st
	})}
}

func (b *builder) anyGraph(spec *GraphSpec) (compose.AnyGraph, error) {
	if spec.Mode == Workflow {
		return b.workflow(spec)
	}
	return b.graph(spec)
}

// ---------------------------------------------------------------- node options

func (b *builder) nodeOpts(g *GraphSpec, n *NodeSpec) []compose.GraphAddNodeOpt {
	opts := []compose.GraphAddNodeOpt{compose.WithNodeName(n.Key)} // the run info of callbacks names the node
	if n.InputKey != "" {
		opts = append(opts, compose.WithInputKey(n.InputKey))
	}
	if n.OutputKey != "" {
		opts = append(opts, compose.WithOutputKey(n.OutputKey))
	}
	key := n.Key
	rerun := n.Rerun
	onState := b.bo.OnState
	if n.Pre {
		opts = append(opts, compose.WithStatePreHandler(func(ctx context.Context, in V, st *St) (V, error) {
			if ctl := CtlFrom(ctx); ctl != nil {
				ctl.Log.addState("pre", key, st.Serial, st.Counter)
			}
			if onState != nil {
				onState(ctx, "pre", key, st)
			}
			st.Counter++
			st.Log = append(st.Log, "pre:"+key)
			if rerun {
				if saved, ok := st.Saved[key].(map[string]any); ok && len(in) == 0 {
					in = CopyV(saved).(V)
					st.Log = append(st.Log, "restore:"+key)
					return in, nil // marker already contained
				}
			}
			out := make(V, len(in)+1)
			for k, v := range in {
				out[k] = v
			}
			out["p."+key] = "1"
			if rerun {
				if st.Saved == nil {
					st.Saved = map[string]any{}
				}
				st.Saved[key] = CopyV(out).(V)
			}
			return out, nil
		}))
	}
	if n.Post {
		opts = append(opts, compose.WithStatePostHandler(func(ctx context.Context, out V, st *St) (V, error) {
			if ctl := CtlFrom(ctx); ctl != nil {
				ctl.Log.addState("post", key, st.Serial, st.Counter)
			}
			if onState != nil {
				onState(ctx, "post", key, st)
			}
			st.Counter++
			st.Log = append(st.Log, "post:"+key)
			res := make(V, len(out)+1)
			for k, v := range out {
				res[k] = v
			}
			res["q."+key] = "1"
			return res, nil
		}))
	}
	if n.StreamPre {
		opts = append(opts, compose.WithStreamStatePreHandler(func(ctx context.Context, in *schema.StreamReader[V], st *St) (*schema.StreamReader[V], error) {
			if ctl := CtlFrom(ctx); ctl != nil {
				ctl.Log.addState("pre", key, st.Serial, st.Counter)
			}
			if onState != nil {
				onState(ctx, "pre", key, st)
			}
			st.Counter++
			st.Log = append(st.Log, "pre:"+key)
			extra := schema.StreamReaderFromArray([]V{{"p." + key: "1"}})
			return schema.MergeStreamReaders([]*schema.StreamReader[V]{in, extra}), nil
		}))
	}
	if n.StreamPost {
		opts = append(opts, compose.WithStreamStatePostHandler(func(ctx context.Context, out *schema.StreamReader[V], st *St) (*schema.StreamReader[V], error) {
			if ctl := CtlFrom(ctx); ctl != nil {
				ctl.Log.addState("post", key, st.Serial, st.Counter)
			}
			if onState != nil {
				onState(ctx, "post", key, st)
			}
			st.Counter++
			st.Log = append(st.Log, "post:"+key)
			extra := schema.StreamReaderFromArray([]V{{"q." + key: "1"}})
			return schema.MergeStreamReaders([]*schema.StreamReader[V]{out, extra}), nil
		}))
	}
	if n.Sub != nil {
		if co := b.compileOpts(n.Sub, false); len(co) > 0 {
			opts = append(opts, compose.WithGraphCompileOptions(co...))
		}
	}
	return opts
}

// ---------------------------------------------------------------- node bodies

type nodeRT struct {
	key  string
	path string
	spec *NodeSpec
}

func renderOpts[O any](opts []O) []string {
	var out []string
	for _, o := range opts {
		switch x := any(o).(type) {
		case OptA:
			out = append(out, "A:"+x.ID)
		case OptB:
			out = append(out, "B:"+x.ID)
		default:
			out = append(out, fmt.Sprintf("%T", o))
		}
	}
	return out
}

// compute is the node function proper, with fault injection and hooks.
func (n *nodeRT) compute(ctx context.Context, ctl *RunCtl, e *Exec, in any) (out any, err error) {
	if ctl.OnBody != nil {
		ctl.OnBody(ctx, n.key, in)
	}
	if n.spec.Rerun && ctl.RerunEnabled {
		if _, seen := ctl.RerunSeen.LoadOrStore(n.path, struct{}{}); !seen {
			return nil, compose.InterruptAndRerun
		}
	}
	switch ctl.Faults[n.key] {
	case FailSentinel:
		return nil, ctl.faultErr(fmt.Errorf("node %s wraps: %w", n.key, ErrSentinel))
	case FailCustom:
		return nil, ctl.faultErr(&CustomErr{Node: n.key})
	case PanicString:
		panic("verif-panic@" + n.key)
	case PanicError:
		panic(fmt.Errorf("verif-panic-error@%s: %w", n.key, ErrSentinel))
	case PanicNilDeref:
		var p *NodeSpec
		_ = p.Key // nil dereference
	case FailMidStream:
		// forms that do not produce a stream themselves (and the lazy transform, whose goroutine
		// reports errors as one error item) fail with a plain error; S and the synchronous T put the
		// error item in the middle of their output (see emit)
		if e.Para == "I" || e.Para == "C" || (e.Para == "T" && n.spec.Lazy) {
			return nil, ctl.faultErr(fmt.Errorf("node %s mid-stream: %w", n.key, ErrSentinel))
		}
	case PanicConverter:
		if e.Para == "I" || e.Para == "C" || (e.Para == "T" && n.spec.Lazy) {
			return nil, ctl.faultErr(fmt.Errorf("node %s wraps: %w", n.key, ErrSentinel))
		}
	}
	switch n.spec.Kind {
	case Hash:
		if s, ok := in.(string); ok {
			return HashStrOut(n.key, s), nil
		}
		return HashOut(n.key, n.spec.Wide, in), nil
	case Collide:
		return CollideOut(n.key, in), nil
	case Rename:
		m, _ := in.(V)
		return RenameOut(n.key, m), nil
	}
	return nil, fmt.Errorf("kind %d has no body", n.spec.Kind)
}

func (n *nodeRT) chunkRand(out any) *mon.Rand {
	return mon.Fork(n.spec.Chunk, n.key, Canon(out))
}

// drainV reads a stream of map chunks to EOF with the harness's own concatenation.
func drainV(in *schema.StreamReader[V]) (V, error) {
	defer in.Close()
	var chunks []V
	for {
		c, err := in.Recv()
		if err == io.EOF {
			break
		}
		if err != nil {
			return nil, err
		}
		chunks = append(chunks, c)
	}
	if len(chunks) == 0 {
		return nil, errors.New("verif: empty input stream")
	}
	return ConcatV(chunks)
}

func drainS(in *schema.StreamReader[string]) (string, error) {
	defer in.Close()
	s, n := "", 0
	for {
		c, err := in.Recv()
		if err == io.EOF {
			break
		}
		if err != nil {
			return "", err
		}
		s += c
		n++
	}
	if n == 0 {
		return "", errors.New("verif: empty input stream")
	}
	return s, nil
}

// verifProducer is the goroutine body of Pipe-backed producers (its name is what
// the leak monitor looks for in goroutine dumps).
func verifProducer[T any](ctl *RunCtl, p *Producer, sw *schema.StreamWriter[T], chunks []T, midErr error, errAt int) {
	defer sw.Close()
	for i, c := range chunks {
		if ctl.OnChunk != nil {
			ctl.OnChunk(p.Node, i)
		}
		if midErr != nil && i == errAt {
			var zero T
			sw.Send(zero, midErr)
			ctl.Log.updProducer(func() { p.Finished = true })
			return
		}
		closed := sw.Send(c, nil)
		if closed {
			ctl.Log.updProducer(func() { p.SawClose = true })
			return
		}
		ctl.Log.updProducer(func() { p.Sent++ })
	}
	if midErr != nil && errAt >= len(chunks) {
		var zero T
		sw.Send(zero, midErr)
	}
	ctl.Log.updProducer(func() { p.Finished = true })
}

func emit[T any](n *nodeRT, ctl *RunCtl, chunks []T) *schema.StreamReader[T] {
	if ctl.Faults[n.key] == PanicConverter {
		at := 2
		if ctl.PanicAt > 2 {
			at = ctl.PanicAt
		}
		for len(chunks) < at {
			chunks = append(chunks, chunks...)
		}
		i := 0
		return schema.StreamReaderWithConvert(schema.StreamReaderFromArray(chunks), func(c T) (T, error) {
			i++
			if i >= at {
				panic("verif-converter-panic@" + n.key)
			}
			return c, nil
		})
	}
	var midErr error
	errAt := 0
	if ctl.Faults[n.key] == FailMidStream {
		midErr = ctl.faultErr(fmt.Errorf("node %s mid-stream: %w", n.key, ErrSentinel))
		errAt = len(chunks) / 2
	}
	if n.spec.PipeCap < 0 && midErr == nil {
		return schema.StreamReaderFromArray(chunks)
	}
	c := n.spec.PipeCap
	if c < 0 {
		c = 0
	}
	sr, sw := schema.Pipe[T](c)
	p := &Producer{Node: n.key, Total: len(chunks)}
	ctl.Log.addProducer(p)
	go verifProducer(ctl, p, sw, chunks, midErr, errAt)
	return sr
}

func (n *nodeRT) emitV(ctl *RunCtl, out V) *schema.StreamReader[V] {
	chunks := ChunkV(out, n.chunkRand(out))
	for i := 0; i < n.spec.Pad; i++ {
		chunks = append(chunks, V{})
	}
	return emit(n, ctl, chunks)
}

func (n *nodeRT) emitS(ctl *RunCtl, out string) *schema.StreamReader[string] {
	return emit(n, ctl, ChunkS(out, n.chunkRand(out)))
}

func lambdaV[O any](n *nodeRT) *compose.Lambda {
	var i compose.Invoke[V, V, O]
	var s compose.Stream[V, V, O]
	var c compose.Collect[V, V, O]
	var t compose.Transform[V, V, O]
	para := n.spec.Para
	if para == 0 {
		para = PI
	}
	if para&PI != 0 {
		i = func(ctx context.Context, in V, opts ...O) (V, error) {
			ctl := CtlFrom(ctx)
			e := ctl.Log.begin(n.key, n.path, "I")
			defer ctl.Log.exit(e)
			ctl.Log.setOpts(e, renderOpts(opts))
			ctl.Log.setIn(e, Canon(in))
			out, err := n.compute(ctx, ctl, e, in)
			ctl.Log.finish(e, Canon(out), err)
			if err != nil {
				return nil, err
			}
			if ctl.OnBodyEnd != nil {
				ctl.OnBodyEnd(ctx, n.key)
			}
			return out.(V), nil
		}
	}
	if para&PS != 0 {
		s = func(ctx context.Context, in V, opts ...O) (*schema.StreamReader[V], error) {
			ctl := CtlFrom(ctx)
			e := ctl.Log.begin(n.key, n.path, "S")
			defer ctl.Log.exit(e)
			ctl.Log.setOpts(e, renderOpts(opts))
			ctl.Log.setIn(e, Canon(in))
			out, err := n.compute(ctx, ctl, e, in)
			ctl.Log.finish(e, Canon(out), err)
			if err != nil {
				return nil, err
			}
			if ctl.OnBodyEnd != nil {
				ctl.OnBodyEnd(ctx, n.key)
			}
			return n.emitV(ctl, out.(V)), nil
		}
	}
	if para&PC != 0 {
		c = func(ctx context.Context, in *schema.StreamReader[V], opts ...O) (V, error) {
			ctl := CtlFrom(ctx)
			e := ctl.Log.begin(n.key, n.path, "C")
			defer ctl.Log.exit(e)
			ctl.Log.setOpts(e, renderOpts(opts))
			v, err := drainV(in)
			if err != nil {
				ctl.Log.finish(e, "", err)
				return nil, err
			}
			ctl.Log.setIn(e, Canon(v))
			out, err := n.compute(ctx, ctl, e, v)
			ctl.Log.finish(e, Canon(out), err)
			if err != nil {
				return nil, err
			}
			if ctl.OnBodyEnd != nil {
				ctl.OnBodyEnd(ctx, n.key)
			}
			return out.(V), nil
		}
	}
	if para&PT != 0 {
		t = func(ctx context.Context, in *schema.StreamReader[V], opts ...O) (*schema.StreamReader[V], error) {
			ctl := CtlFrom(ctx)
			e := ctl.Log.begin(n.key, n.path, "T")
			defer ctl.Log.exit(e)
			ctl.Log.setOpts(e, renderOpts(opts))
			if n.spec.Kind == Rename {
				if f := ctl.Faults[n.key]; f >= PanicString && f <= PanicNilDeref {
					_, _ = n.compute(ctx, ctl, e, V(nil)) // panics at call time
				}
				return n.lazyRename(ctx, ctl, e, in), nil
			}
			if n.spec.Lazy && ctl.Faults[n.key] < PanicString {
				sr, sw := schema.Pipe[V](maxInt(n.spec.PipeCap, 0))
				p := &Producer{Node: n.key}
				ctl.Log.addProducer(p)
				go verifLazyTransform(ctx, n, ctl, e, p, in, sw)
				return sr, nil
			}
			v, err := drainV(in)
			if err != nil {
				ctl.Log.finish(e, "", err)
				return nil, err
			}
			ctl.Log.setIn(e, Canon(v))
			out, err := n.compute(ctx, ctl, e, v)
			ctl.Log.finish(e, Canon(out), err)
			if err != nil {
				return nil, err
			}
			if ctl.OnBodyEnd != nil {
				ctl.OnBodyEnd(ctx, n.key)
			}
			return n.emitV(ctl, out.(V)), nil
		}
	}
	l, _ := compose.AnyLambda(i, s, c, t)
	return l
}

func maxInt(a, b int) int {
	if a > b {
		return a
	}
	return b
}

// verifLazyTransform: the Transform form returned at once; this goroutine drains
// the input, computes and sends the chunks.
func verifLazyTransform(ctx context.Context, n *nodeRT, ctl *RunCtl, e *Exec, p *Producer, in *schema.StreamReader[V], sw *schema.StreamWriter[V]) {
	defer sw.Close()
	defer recoverReader(ctl, e, p, sw)
	v, err := drainV(in)
	if err != nil {
		ctl.Log.finish(e, "", err)
		sw.Send(nil, err)
		ctl.Log.updProducer(func() { p.Finished = true })
		return
	}
	ctl.Log.setIn(e, Canon(v))
	out, err := n.compute(ctx, ctl, e, v)
	ctl.Log.finish(e, Canon(out), err)
	if err != nil {
		sw.Send(nil, err)
		ctl.Log.updProducer(func() { p.Finished = true })
		return
	}
	chunks := ChunkV(out.(V), n.chunkRand(out))
	for i := 0; i < n.spec.Pad; i++ {
		chunks = append(chunks, V{})
	}
	ctl.Log.updProducer(func() { p.Total = len(chunks) })
	for i, c := range chunks {
		if ctl.OnChunk != nil {
			ctl.OnChunk(n.key, i)
		}
		if sw.Send(c, nil) {
			ctl.Log.updProducer(func() { p.SawClose = true })
			return
		}
		ctl.Log.updProducer(func() { p.Sent++ })
	}
	ctl.Log.updProducer(func() { p.Finished = true })
}

// recoverReader: a goroutine started by a node body is the node's own business. Reading the input
// stream can panic there (a predecessor's converter panics inside Recv when nothing of the framework
// sits in between); a well-behaved body hands such a panic on as an error item instead of killing the
// process.
func recoverReader(ctl *RunCtl, e *Exec, p *Producer, sw *schema.StreamWriter[V]) {
	if r := recover(); r != nil {
		err := fmt.Errorf("verif: reading the input stream panicked in a goroutine of the node body: %v", r)
		ctl.Log.finish(e, "", err)
		sw.Send(nil, err)
		ctl.Log.updProducer(func() { p.Finished = true })
	}
}

// lazyRename forwards chunk by chunk (a truly streaming transform).
func (n *nodeRT) lazyRename(ctx context.Context, ctl *RunCtl, e *Exec, in *schema.StreamReader[V]) *schema.StreamReader[V] {
	sr, sw := schema.Pipe[V](maxInt(n.spec.PipeCap, 0))
	p := &Producer{Node: n.key}
	ctl.Log.addProducer(p)
	go verifRenameForward(ctx, n, ctl, e, p, in, sw)
	return sr
}

func verifRenameForward(ctx context.Context, n *nodeRT, ctl *RunCtl, e *Exec, p *Producer, in *schema.StreamReader[V], sw *schema.StreamWriter[V]) {
	defer sw.Close()
	defer in.Close()
	defer recoverReader(ctl, e, p, sw)
	var seen []V
	first := true
	for {
		c, err := in.Recv()
		if err == io.EOF {
			break
		}
		if err != nil {
			ctl.Log.finish(e, "", err)
			sw.Send(nil, err)
			ctl.Log.updProducer(func() { p.Finished = true })
			return
		}
		if first {
			first = false
			if ctl.OnBody != nil {
				ctl.OnBody(ctx, n.key, nil)
			}
			if f := ctl.Faults[n.key]; f == FailSentinel || f == FailCustom || f == FailMidStream {
				var ferr error = fmt.Errorf("node %s wraps: %w", n.key, ErrSentinel)
				if f == FailCustom {
					ferr = &CustomErr{Node: n.key}
				}
				ferr = ctl.faultErr(ferr)
				ctl.Log.finish(e, "", ferr)
				sw.Send(nil, ferr)
				ctl.Log.updProducer(func() { p.Finished = true })
				return
			}
		}
		seen = append(seen, c)
		if ctl.OnChunk != nil {
			ctl.OnChunk(n.key, len(seen)-1)
		}
		if sw.Send(RenameOut(n.key, c), nil) {
			ctl.Log.updProducer(func() { p.SawClose = true })
			return
		}
		ctl.Log.updProducer(func() { p.Sent++; p.Total++ })
	}
	if len(seen) > 0 {
		v, err := ConcatV(seen)
		if err == nil {
			ctl.Log.setIn(e, Canon(v))
			ctl.Log.finish(e, Canon(RenameOut(n.key, v)), nil)
		}
	}
	ctl.Log.updProducer(func() { p.Finished = true })
}

// lambdaS builds the string-typed variant (nodes with input and output key).
func lambdaS[O any](n *nodeRT) *compose.Lambda {
	var i compose.Invoke[string, string, O]
	var s compose.Stream[string, string, O]
	var c compose.Collect[string, string, O]
	var t compose.Transform[string, string, O]
	para := n.spec.Para
	if para == 0 {
		para = PI
	}
	body := func(ctx context.Context, para string, in string, opts []O) (string, *RunCtl, error) {
		ctl := CtlFrom(ctx)
		e := ctl.Log.begin(n.key, n.path, para)
		defer ctl.Log.exit(e)
		ctl.Log.setOpts(e, renderOpts(opts))
		ctl.Log.setIn(e, in)
		out, err := n.compute(ctx, ctl, e, in)
		ctl.Log.finish(e, Canon(out), err)
		if err != nil {
			return "", ctl, err
		}
		if ctl.OnBodyEnd != nil {
			ctl.OnBodyEnd(ctx, n.key)
		}
		return out.(string), ctl, nil
	}
	if para&PI != 0 {
		i = func(ctx context.Context, in string, opts ...O) (string, error) {
			out, _, err := body(ctx, "I", in, opts)
			return out, err
		}
	}
	if para&PS != 0 {
		s = func(ctx context.Context, in string, opts ...O) (*schema.StreamReader[string], error) {
			out, ctl, err := body(ctx, "S", in, opts)
			if err != nil {
				return nil, err
			}
			return n.emitS(ctl, out), nil
		}
	}
	if para&PC != 0 {
		c = func(ctx context.Context, in *schema.StreamReader[string], opts ...O) (string, error) {
			v, err := drainS(in)
			if err != nil {
				return "", err
			}
			out, _, err := body(ctx, "C", v, opts)
			return out, err
		}
	}
	if para&PT != 0 {
		t = func(ctx context.Context, in *schema.StreamReader[string], opts ...O) (*schema.StreamReader[string], error) {
			v, err := drainS(in)
			if err != nil {
				return nil, err
			}
			out, ctl, err := body(ctx, "T", v, opts)
			if err != nil {
				return nil, err
			}
			return n.emitS(ctl, out), nil
		}
	}
	l, _ := compose.AnyLambda(i, s, c, t)
	return l
}

func (b *builder) lambda(g *GraphSpec, n *NodeSpec) *compose.Lambda {
	rt := &nodeRT{key: n.Key, path: g.Path(n.Key), spec: n}
	strTyped := n.InputKey != "" && n.OutputKey != ""
	switch {
	case strTyped && n.OptType == 1:
		return lambdaS[OptB](rt)
	case strTyped:
		return lambdaS[OptA](rt)
	case n.OptType == 1:
		return lambdaV[OptB](rt)
	default:
		return lambdaV[OptA](rt)
	}
}

// ---------------------------------------------------------------- branches

// DecideBranch is the (reference and real) decision function of a branch.
func DecideBranch(bs *BranchSpec, in any) []string {
	c := ""
	if !bs.Prefix {
		c = Canon(in)
	}
	h := mon.HashStr(bs.ID + "|" + c)
	k := len(bs.Targets)
	if !bs.Multi {
		return []string{bs.Targets[int(h%uint64(k))]}
	}
	var out []string
	for i, t := range bs.Targets {
		if (h>>uint(i+3))&1 == 1 {
			out = append(out, t)
		}
	}
	if len(out) == 0 && !bs.AllowEmpty {
		out = []string{bs.Targets[int(h%uint64(k))]}
	}
	return out
}

func (b *builder) branch(bs *BranchSpec) *compose.GraphBranch {
	ends := map[string]bool{}
	for _, t := range bs.Targets {
		ends[t] = true
	}
	// a fault configured under the branch id makes the condition itself fail
	condErr := func(ctx context.Context) error {
		if ctl := CtlFrom(ctx); ctl != nil && ctl.Faults[bs.ID] != NoFault {
			return fmt.Errorf("branch %s wraps: %w", bs.ID, ErrSentinel)
		}
		return nil
	}
	decide := func(ctx context.Context, in any) []string {
		ctl := CtlFrom(ctx)
		var chosen []string
		if ctl != nil {
			if forced, ok := ctl.Choices[bs.ID]; ok {
				chosen = forced
			}
		}
		if chosen == nil {
			chosen = DecideBranch(bs, in)
		}
		if ctl != nil {
			ctl.Log.addBranch(bs.ID, Canon(in), chosen)
		}
		return chosen
	}
	// half of the multi-branch conditions spell their answer out: every target is in the map, the ones
	// not chosen with the value false; half of the prefix-reading stream conditions return without
	// closing their reader (the copy is the framework's, which has to close it)
	spell := mon.HashStr(bs.ID+"|spell")%2 == 0
	leaveOpen := mon.HashStr(bs.ID+"|open")%2 == 0
	answer := func(chosen []string) map[string]bool {
		m := map[string]bool{}
		if spell {
			for _, t := range bs.Targets {
				m[t] = false
			}
		}
		for _, t := range chosen {
			m[t] = true
		}
		return m
	}
	readIn := func(sr *schema.StreamReader[V]) (V, error) {
		if bs.Prefix {
			// read only the first chunk: the decision does not depend on the input
			_, err := sr.Recv()
			if !leaveOpen {
				sr.Close()
			}
			if err != nil && err != io.EOF {
				return nil, err
			}
			return nil, nil
		}
		return drainV(sr)
	}
	switch {
	case bs.Stream && bs.Multi:
		return compose.NewStreamGraphMultiBranch(func(ctx context.Context, sr *schema.StreamReader[V]) (map[string]bool, error) {
			in, err := readIn(sr)
			if err == nil {
				err = condErr(ctx)
			}
			if err != nil {
				return nil, err
			}
			return answer(decide(ctx, in)), nil
		}, ends)
	case bs.Stream:
		return compose.NewStreamGraphBranch(func(ctx context.Context, sr *schema.StreamReader[V]) (string, error) {
			in, err := readIn(sr)
			if err == nil {
				err = condErr(ctx)
			}
			if err != nil {
				return "", err
			}
			return decide(ctx, in)[0], nil
		}, ends)
	case bs.Multi:
		return compose.NewGraphMultiBranch(func(ctx context.Context, in V) (map[string]bool, error) {
			if err := condErr(ctx); err != nil {
				return nil, err
			}
			var x any = in
			if bs.Prefix {
				x = nil
			}
			return answer(decide(ctx, x)), nil
		}, ends)
	default:
		return compose.NewGraphBranch(func(ctx context.Context, in V) (string, error) {
			if err := condErr(ctx); err != nil {
				return "", err
			}
			var x any = in
			if bs.Prefix {
				x = nil
			}
			return decide(ctx, x)[0], nil
		}, ends)
	}
}

// ---------------------------------------------------------------- graph / workflow

func (b *builder) graph(spec *GraphSpec) (*compose.Graph[V, V], error) {
	g := compose.NewGraph[V, V](b.newOpts(spec)...)
	for i := range spec.Nodes {
		n := &spec.Nodes[i]
		var err error
		switch n.Kind {
		case Passthrough:
			err = g.AddPassthroughNode(n.Key, b.nodeOpts(spec, n)...)
		case Sub:
			var inner compose.AnyGraph
			inner, err = b.anyGraph(n.Sub)
			if err == nil {
				err = g.AddGraphNode(n.Key, inner, b.nodeOpts(spec, n)...)
			}
		default:
			err = g.AddLambdaNode(n.Key, b.lambda(spec, n), b.nodeOpts(spec, n)...)
		}
		if err != nil {
			return nil, fmt.Errorf("add node %s: %w", n.Key, err)
		}
	}
	for _, e := range spec.Edges {
		if err := g.AddEdge(e.From, e.To); err != nil {
			return nil, fmt.Errorf("add edge %s->%s: %w", e.From, e.To, err)
		}
	}
	for i := range spec.Branches {
		bs := &spec.Branches[i]
		if err := g.AddBranch(bs.From, b.branch(bs)); err != nil {
			return nil, fmt.Errorf("add branch %s: %w", bs.ID, err)
		}
	}
	return g, nil
}

func (b *builder) workflow(spec *GraphSpec) (*compose.Workflow[V, V], error) {
	wf := compose.NewWorkflow[V, V](b.newOpts(spec)...)
	wn := map[string]*compose.WorkflowNode{}
	for i := range spec.Nodes {
		n := &spec.Nodes[i]
		switch n.Kind {
		case Passthrough:
			wn[n.Key] = wf.AddPassthroughNode(n.Key, b.nodeOpts(spec, n)...)
		case Sub:
			inner, err := b.anyGraph(n.Sub)
			if err != nil {
				return nil, err
			}
			wn[n.Key] = wf.AddGraphNode(n.Key, inner, b.nodeOpts(spec, n)...)
		default:
			wn[n.Key] = wf.AddLambdaNode(n.Key, b.lambda(spec, n), b.nodeOpts(spec, n)...)
		}
	}
	wn[END] = wf.End()
	for _, e := range spec.Edges {
		to := wn[e.To]
		if to == nil {
			return nil, fmt.Errorf("workflow edge to unknown node %s", e.To)
		}
		var maps []*compose.FieldMapping
		for _, f := range e.Fields {
			maps = append(maps, compose.MapFields(f, f))
		}
		switch {
		case e.NoData:
			to.AddDependency(e.From)
		case e.NoControl:
			to.AddInputWithOptions(e.From, maps, compose.WithNoDirectDependency())
		default:
			to.AddInput(e.From, maps...)
		}
	}
	for i := range spec.Branches {
		bs := &spec.Branches[i]
		wf.AddBranch(bs.From, b.branch(bs))
	}
	return wf, nil
}
