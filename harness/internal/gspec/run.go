package gspec

import (
	"context"
	"errors"
	"fmt"
	"io"
	"sort"
	"strings"
	"time"

	"github.com/cloudwego/eino/compose"
	"github.com/cloudwego/eino/schema"

	"verifharness/internal/mon"
)

// Outcome is what one call of a compiled runnable produced.
type Outcome struct {
	Para   string // I S C T
	Out    V
	Err    error
	Panic  *mon.Panic
	Chunks int // number of output chunks (stream forms)
	// ErrAsItem: the failure arrived as an error item on the output stream
	ErrAsItem bool
}

func (o Outcome) Failed() bool { return o.Err != nil || o.Panic != nil }

func (o Outcome) String() string {
	switch {
	case o.Panic != nil:
		return "panic(" + o.Panic.Value + ")"
	case o.Err != nil:
		return "error(" + o.Err.Error() + ")"
	default:
		return Canon(o.Out)
	}
}

// ReadAll drains an output stream with the harness's own concatenation.
func ReadAll(sr *schema.StreamReader[V]) (V, int, error) {
	defer sr.Close()
	var chunks []V
	for {
		c, err := sr.Recv()
		if err == io.EOF {
			break
		}
		if err != nil {
			return nil, len(chunks), err
		}
		chunks = append(chunks, c)
	}
	if len(chunks) == 0 {
		return nil, 0, errors.New("verif: output stream had no chunk")
	}
	v, err := ConcatV(chunks)
	return v, len(chunks), err
}

// InputStream turns a value into a stream according to a chunking seed.
func InputStream(in V, seed uint64, pipeCap int) *schema.StreamReader[V] {
	chunks := ChunkV(in, mon.Fork(seed, "input", Canon(in)))
	if pipeCap < 0 {
		return schema.StreamReaderFromArray(chunks)
	}
	sr, sw := schema.Pipe[V](pipeCap)
	go verifInputProducer(sw, chunks)
	return sr
}

func verifInputProducer(sw *schema.StreamWriter[V], chunks []V) {
	defer sw.Close()
	for _, c := range chunks {
		if sw.Send(c, nil) {
			return
		}
	}
}

// Call runs one paradigm of r. para ∈ I S C T. The context must carry the RunCtl.
func Call(ctx context.Context, r compose.Runnable[V, V], para string, in V, chunkSeed uint64, pipeCap int, opts ...compose.Option) (o Outcome) {
	o.Para = para
	p := mon.Safe(func() {
		switch para {
		case "I":
			o.Out, o.Err = r.Invoke(ctx, CopyV(in).(V), opts...)
		case "S":
			sr, err := r.Stream(ctx, CopyV(in).(V), opts...)
			if err != nil {
				o.Err = err
				return
			}
			lag(ctx)
			o.Out, o.Chunks, o.Err = ReadAll(sr)
			o.ErrAsItem = o.Err != nil
		case "C":
			o.Out, o.Err = r.Collect(ctx, InputStream(in, chunkSeed, pipeCap), opts...)
		case "T":
			sr, err := r.Transform(ctx, InputStream(in, chunkSeed, pipeCap), opts...)
			if err != nil {
				o.Err = err
				return
			}
			lag(ctx)
			o.Out, o.Chunks, o.Err = ReadAll(sr)
			o.ErrAsItem = o.Err != nil
		default:
			o.Err = fmt.Errorf("unknown paradigm %q", para)
		}
	})
	o.Panic = p
	return o
}

// lag implements RunCtl.LagReader.
func lag(ctx context.Context) {
	if c := CtlFrom(ctx); c != nil && c.LagReader {
		mon.SettleIgnoring(3, 400, "mon.WaitDone")
	}
}

// IsMaxSteps recognises the step-limit error by errors.Is or, failing that, by message
// (so that C01 does not depend on the unwrap defect that belongs to C13).
func IsMaxSteps(err error) bool {
	if err == nil {
		return false
	}
	return errors.Is(err, compose.ErrExceedMaxSteps) || strings.Contains(err.Error(), compose.ErrExceedMaxSteps.Error())
}

// Mismatch describes one disagreement between a real run and the reference.
type Mismatch struct {
	Class  string // short, stable class name used in violation signatures
	Detail string
}

// CompareResult judges result / error class of a real outcome against the reference.
func CompareResult(ref *RefResult, got Outcome) *Mismatch {
	if got.Panic != nil {
		return &Mismatch{Class: "panic", Detail: "run panicked on the caller goroutine: " + got.Panic.Value + "\n" + got.Panic.Stack}
	}
	if ref.Err != "" {
		if got.Err == nil {
			return &Mismatch{Class: "missing-error/" + ref.Err, Detail: fmt.Sprintf("reference fails with %s(%s) but the run returned %s", ref.Err, ref.ErrNode, Canon(got.Out))}
		}
		if ref.Err == "maxsteps" && !IsMaxSteps(got.Err) {
			return &Mismatch{Class: "wrong-error/maxsteps", Detail: "reference: max-steps error; run: " + got.Err.Error()}
		}
		if ref.Err != "maxsteps" && ref.Err != "deadend" && IsMaxSteps(got.Err) {
			return &Mismatch{Class: "wrong-error/unexpected-maxsteps", Detail: fmt.Sprintf("reference: %s; run: %v", ref.Err, got.Err)}
		}
		return nil
	}
	if got.Err != nil {
		cl := "unexpected-error"
		if IsMaxSteps(got.Err) {
			cl = "unexpected-error/maxsteps"
		}
		return &Mismatch{Class: cl, Detail: fmt.Sprintf("reference result %s but the run failed: %v", Canon(ref.Out), got.Err)}
	}
	if !EqualV(ref.Out, got.Out) {
		return &Mismatch{Class: "wrong-result", Detail: fmt.Sprintf("reference %s\nrun       %s", Canon(ref.Out), Canon(got.Out))}
	}
	return nil
}

// CompareExecsExact: the multiset of (node path, input) executions must equal the
// reference's. An execution whose input never became known (a lazily streaming body whose
// output nobody consumed) matches any reference execution of the same node.
func CompareExecsExact(ref *RefResult, execs []Exec) *Mismatch {
	if ref.Incomplete {
		return nil
	}
	want := map[string][]string{} // path -> inputs
	for _, e := range ref.Execs {
		want[e.Path] = append(want[e.Path], e.In)
	}
	render := func() string {
		return "reference executions:\n  " + strings.Join(ref.ExecMultiset(), "\n  ") + "\nobserved executions:\n  " + strings.Join(ExecMultiset(execs), "\n  ")
	}
	var unknown []Exec
	for _, e := range execs {
		if !e.InOK {
			unknown = append(unknown, e)
			continue
		}
		ins := want[e.Path]
		found := -1
		for i, in := range ins {
			if in == e.In {
				found = i
				break
			}
		}
		if found < 0 {
			if len(ins) == 0 {
				return &Mismatch{Class: "exec-extra", Detail: "node " + e.Path + " executed more often than the reference allows\n" + render()}
			}
			return &Mismatch{Class: "exec-wrong-input", Detail: "node " + e.Path + " executed on " + e.In + ", reference inputs " + fmt.Sprint(ins) + "\n" + render()}
		}
		want[e.Path] = append(ins[:found:found], ins[found+1:]...)
	}
	for _, e := range unknown {
		ins := want[e.Path]
		if len(ins) == 0 {
			return &Mismatch{Class: "exec-extra", Detail: "node " + e.Path + " executed more often than the reference allows\n" + render()}
		}
		want[e.Path] = ins[1:]
	}
	for p, ins := range want {
		if len(ins) > 0 {
			return &Mismatch{Class: "exec-missing", Detail: "node " + p + " did not execute on " + fmt.Sprint(ins) + "\n" + render()}
		}
	}
	return nil
}

// CheckStepStructure (Pregel): the executions of top-level nodes must form the
// reference's supersteps in order: every body call of step k precedes every body
// call of step k+1, each step is a permutation of the reference's step set.
func CheckStepStructure(spec *GraphSpec, ref *RefResult, execs []Exec) *Mismatch {
	if ref.Incomplete {
		return nil
	}
	top := map[string]bool{}
	for _, n := range spec.Nodes {
		top[n.Key] = true
	}
	var seq []Exec
	for _, e := range execs {
		if top[e.Node] {
			seq = append(seq, e)
		}
	}
	// seq is in call order already (Seq increasing)
	pos := 0
	for k, step := range ref.Steps {
		want := map[string]int{}
		for _, e := range step {
			want[e.Node+"("+e.In+")"]++
		}
		for i := 0; i < len(step); i++ {
			if pos >= len(seq) {
				return &Mismatch{Class: "step-structure/missing", Detail: fmt.Sprintf("step %d: expected %d executions, log ended", k, len(step))}
			}
			e := seq[pos]
			key := e.Node + "(" + e.In + ")"
			if !e.InOK {
				// input never became known: match any entry of that node in this step
				key = ""
				for w, c := range want {
					if c > 0 && strings.HasPrefix(w, e.Node+"(") {
						key = w
						break
					}
				}
			}
			if key == "" || want[key] == 0 {
				return &Mismatch{Class: "step-structure/order", Detail: fmt.Sprintf("step %d: observed %s(%s) (call #%d) which does not belong to the reference's step set %v\n%s", k, e.Node, e.In, e.Seq, step, RenderExecs(execs))}
			}
			want[key]--
			pos++
		}
	}
	if pos != len(seq) {
		return &Mismatch{Class: "step-structure/extra", Detail: fmt.Sprintf("%d executions beyond the reference's steps\n%s", len(seq)-pos, RenderExecs(execs))}
	}
	return nil
}

// CompareExecsAllPred (all-predecessor modes): every node executes at most once;
// observed executions ⊆ reference executions (same input); every ancestor of END
// that ran in the reference must have executed.
func CompareExecsAllPred(ref *RefResult, execs []Exec) *Mismatch {
	if ref.Incomplete {
		return nil
	}
	// multiset per path: nodes of all-predecessor graphs appear at most once in the reference,
	// nodes of a nested Pregel graph may legitimately appear several times
	want := map[string][]string{}
	orig := map[string]int{}
	for _, e := range ref.Execs {
		want[e.Path] = append(want[e.Path], e.In)
		orig[e.Path]++
	}
	render := func() string {
		return "reference executions:\n  " + strings.Join(ref.ExecMultiset(), "\n  ") + "\nobserved executions:\n  " + strings.Join(ExecMultiset(execs), "\n  ")
	}
	for _, e := range execs {
		ins := want[e.Path]
		if len(ins) == 0 {
			if orig[e.Path] > 0 {
				return &Mismatch{Class: "exec-twice", Detail: "node " + e.Path + " executed more often than it was triggered\n" + render()}
			}
			return &Mismatch{Class: "exec-untriggered", Detail: "node " + e.Path + " executed although the reference skips it\n" + render()}
		}
		found := -1
		for i, in := range ins {
			if !e.InOK || in == e.In {
				found = i
				break
			}
		}
		if found < 0 {
			return &Mismatch{Class: "exec-wrong-input", Detail: "node " + e.Path + " executed on " + e.In + ", reference input(s) " + fmt.Sprint(ins) + "\n" + render()}
		}
		want[e.Path] = append(ins[:found:found], ins[found+1:]...)
	}
	return nil
}

// MissingMustRun returns reference executions that had to happen (ancestors of END) but did not.
func MissingMustRun(spec *GraphSpec, ref *RefResult, execs []Exec) *Mismatch {
	if ref.Incomplete {
		return nil
	}
	seen := map[string]bool{}
	for _, e := range execs {
		seen[e.Node] = true
	}
	for k := range ref.MustRun {
		n := spec.Node(k)
		if n == nil || n.Kind == Passthrough || n.Kind == Sub {
			continue
		}
		if !seen[k] {
			return &Mismatch{Class: "exec-missing", Detail: "node " + k + " is an ancestor of END that the reference executes, but it never ran\n" + RenderExecs(execs)}
		}
	}
	return nil
}

// CheckHappensBefore (Invoke runs): a node's body is entered only after the body of every
// control predecessor that ran has returned.
func CheckHappensBefore(spec *GraphSpec, execs []Exec) *Mismatch {
	byNode := map[string]Exec{}
	for _, e := range execs {
		byNode[e.Node] = e
	}
	pi := allPredInfo(spec)
	for _, e := range execs {
		p := pi[e.Node]
		if p == nil {
			continue
		}
		for c := range p.ctrl {
			pe, ok := byNode[c]
			if !ok {
				continue
			}
			if pe.EndSeq == 0 || pe.EndSeq > e.Seq {
				return &Mismatch{Class: "started-before-predecessor-finished", Detail: fmt.Sprintf("node %s entered at #%d but its control predecessor %s returned at #%d\n%s", e.Node, e.Seq, c, pe.EndSeq, RenderExecs(execs))}
			}
		}
	}
	return nil
}

// BranchOptions enumerates the possible forced outcomes of a branch.
func BranchOptions(b *BranchSpec) [][]string {
	if !b.Multi {
		var out [][]string
		for _, t := range b.Targets {
			out = append(out, []string{t})
		}
		return out
	}
	var out [][]string
	n := len(b.Targets)
	for mask := 0; mask < 1<<uint(n); mask++ {
		if mask == 0 && !b.AllowEmpty {
			continue
		}
		sel := []string{}
		for i := 0; i < n; i++ {
			if mask&(1<<uint(i)) != 0 {
				sel = append(sel, b.Targets[i])
			}
		}
		out = append(out, sel)
	}
	return out
}

// AllBranches lists the branches of a spec tree.
func AllBranches(g *GraphSpec) []*BranchSpec {
	var out []*BranchSpec
	for i := range g.Branches {
		out = append(out, &g.Branches[i])
	}
	for i := range g.Nodes {
		if g.Nodes[i].Sub != nil {
			out = append(out, AllBranches(g.Nodes[i].Sub)...)
		}
	}
	return out
}

// CallGuarded runs Call on its own goroutine under the quiescence monitor: a run that
// can never finish (every goroutine of the process parked, no timer pending) is reported
// as stuck with the goroutine dump as witness. The watchdog is a generous wall-clock limit
// whose firing is inconclusive, never a verdict.
func CallGuarded(ctx context.Context, r compose.Runnable[V, V], para string, in V, chunkSeed uint64, pipeCap int, opts ...compose.Option) (o Outcome, res mon.WaitResult, dump []mon.G) {
	done := make(chan struct{})
	go func() {
		defer close(done)
		o = Call(ctx, r, para, in, chunkSeed, pipeCap, opts...)
	}()
	res, dump = mon.WaitDone(done, 120*time.Second)
	if res != mon.Finished {
		return Outcome{Para: para}, res, dump
	}
	return o, res, nil
}

// StuckSignature summarises where the framework's goroutines are parked.
func StuckSignature(dump []mon.G) (string, string) {
	var sigs []string
	var raw strings.Builder
	for _, g := range mon.Parked(dump, "github.com/cloudwego/eino/", "verifharness/internal/gspec") {
		sigs = append(sigs, g.Signature())
		raw.WriteString(g.Raw)
		raw.WriteString("\n\n")
	}
	sort.Strings(sigs)
	// de-duplicate
	var u []string
	for i, s := range sigs {
		if i == 0 || s != sigs[i-1] {
			u = append(u, s)
		}
	}
	first := "unknown"
	for _, s := range u {
		if strings.Contains(s, "github.com/cloudwego/eino/") {
			first = s
			break
		}
	}
	if i := strings.Index(first, "github.com/cloudwego/eino/"); i >= 0 {
		first = first[i+len("github.com/cloudwego/eino/"):]
	}
	if b := strings.IndexByte(first, '['); b > 0 {
		first = first[:b]
	}
	return first, strings.Join(u, "\n") + "\n\n" + raw.String()
}
