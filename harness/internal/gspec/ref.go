package gspec

import (
	"fmt"
	"sort"
)

// Reference interpreters, written from the property statements (C01, C02),
// independent of eino's implementation.

type RefExec struct {
	Path string
	Node string
	In   string
}

type RefResult struct {
	Out V
	// Err is the error class: "" | collision | deadend | maxsteps | endskipped | nodefail | keymissing
	Err     string
	ErrNode string
	// Steps: Pregel supersteps of the top-level graph (executions of top-level nodes;
	// a nested graph appears through the executions of its inner nodes in Execs only).
	Steps [][]RefExec
	// Execs: every body execution, flattened through nested graphs.
	Execs []RefExec
	// StateLog: multiset of handler invocations "pre:node"/"post:node" per graph name.
	StateLog map[string][]string
	// Ran / Skipped (all-predecessor modes, top level).
	Ran     map[string]bool
	Skipped map[string]bool
	// EndAncestorsRan: nodes that ran and are ancestors of END (all-predecessor modes): must have executed.
	MustRun map[string]bool
	// OthersAtEnd: Pregel: END was reached while other nodes were scheduled (they are dropped).
	OthersAtEnd bool
	// Orphans: nodes without any predecessor (never run according to the statement).
	Orphans []string
	// BranchChoices made (id -> chosen), last evaluation wins
	Branch map[string][]string
	// number of supersteps executed (Pregel)
	NSteps int
	// SubIn: the inputs every nested graph node was evaluated on (node key -> inputs)
	SubIn map[string][]V
	// Contrib: top-level nodes whose output data flowed (transitively) into the value delivered to END
	Contrib map[string]bool
	// BranchFailed: id of the first branch whose condition was made to fail ("" if none)
	BranchFailed string
	// Incomplete: some (possibly nested) graph stopped at a failing merge (collision / missing key), so
	// Execs is not the full execution set: execution comparisons are skipped
	Incomplete bool
}

type RefEnv struct {
	Choices  map[string][]string
	Faults   map[string]Fault
	MaxSteps int // call-time override of the top-level limit (0 = none)
	// SubMaxSteps: call-time step limits designated to nested graphs (graph name -> limit)
	SubMaxSteps map[string]int
}

func (r *RefResult) ExecMultiset() []string {
	var out []string
	for _, e := range r.Execs {
		out = append(out, e.Path+"("+e.In+")")
	}
	sort.Strings(out)
	return out
}

func faultIsError(f Fault) bool { return f != NoFault }

// EvalGraph evaluates a spec on an input.
func EvalGraph(spec *GraphSpec, in V, env *RefEnv) *RefResult {
	if env == nil {
		env = &RefEnv{}
	}
	res := &RefResult{StateLog: map[string][]string{}, Ran: map[string]bool{}, Skipped: map[string]bool{}, MustRun: map[string]bool{}, Branch: map[string][]string{}}
	if spec.Mode == Pregel {
		evalPregel(spec, in, env, res, true)
	} else {
		evalAllPred(spec, in, env, res, true)
	}
	if res.BranchFailed != "" {
		res.Err, res.ErrNode = "nodefail", res.BranchFailed
		res.Incomplete = true
	}
	if res.Err == "collision" || res.Err == "keymissing" {
		res.Incomplete = true
	}
	return res
}

func choose(bs *BranchSpec, in any, env *RefEnv, res *RefResult) []string {
	if env.Faults[bs.ID] != NoFault {
		// the condition itself fails: the run fails (recorded, the caller goes on with "nothing chosen")
		if res.BranchFailed == "" {
			res.BranchFailed = bs.ID
		}
		return nil
	}
	if forced, ok := env.Choices[bs.ID]; ok {
		res.Branch[bs.ID] = forced
		return forced
	}
	c := DecideBranch(bs, in)
	res.Branch[bs.ID] = c
	return c
}

// marker: the value-form handlers of the builder SET their marker; the stream-form handlers merge a chunk
// holding the marker into the stream, so a marker the value already carries (a loop through pass-through
// nodes only) is concatenated with it, in whichever paradigm the run is called.
func marker(streamForm bool, have any) any {
	if s, ok := have.(string); ok && streamForm {
		return s + "1"
	}
	return "1"
}

// evalNode: pre-handler marker, body (or nested graph), post-handler marker.
func evalNode(g *GraphSpec, n *NodeSpec, in V, env *RefEnv, res *RefResult) (V, string, string) {
	if n.Pre || n.StreamPre {
		m := make(V, len(in)+1)
		for k, v := range in {
			m[k] = v
		}
		m["p."+n.Key] = marker(n.StreamPre, in["p."+n.Key])
		in = m
		res.StateLog[g.Name] = append(res.StateLog[g.Name], "pre:"+n.Key)
	}
	var out V
	switch n.Kind {
	case Passthrough:
		out = in
	case Sub:
		if res.SubIn == nil {
			res.SubIn = map[string][]V{}
		}
		res.SubIn[n.Key] = append(res.SubIn[n.Key], in)
		sub := &RefResult{SubIn: res.SubIn, StateLog: res.StateLog, Ran: map[string]bool{}, Skipped: map[string]bool{}, MustRun: map[string]bool{}, Branch: res.Branch}
		senv := &RefEnv{Choices: env.Choices, Faults: env.Faults, SubMaxSteps: env.SubMaxSteps}
		if n.Sub.Mode == Pregel {
			evalPregel(n.Sub, in, senv, sub, false)
		} else {
			evalAllPred(n.Sub, in, senv, sub, false)
		}
		res.Execs = append(res.Execs, sub.Execs...)
		res.Orphans = append(res.Orphans, sub.Orphans...)
		if sub.Incomplete || sub.Err == "collision" || sub.Err == "keymissing" {
			res.Incomplete = true
		}
		if sub.BranchFailed != "" && res.BranchFailed == "" {
			res.BranchFailed = sub.BranchFailed
		}
		if sub.Err != "" {
			return nil, sub.Err, sub.ErrNode
		}
		out = sub.Out
	default:
		var bodyIn any = in
		if n.InputKey != "" {
			s, ok := in[n.InputKey].(string)
			if !ok {
				return nil, "keymissing", n.Key
			}
			bodyIn = s
		}
		res.Execs = append(res.Execs, RefExec{Path: g.Path(n.Key), Node: n.Key, In: Canon(bodyIn)})
		if f := env.Faults[n.Key]; faultIsError(f) {
			return nil, "nodefail", n.Key
		}
		switch n.Kind {
		case Hash:
			if s, ok := bodyIn.(string); ok {
				out = V{n.OutputKey: HashStrOut(n.Key, s)}
			} else {
				out = HashOut(n.Key, n.Wide, in)
			}
		case Collide:
			out = CollideOut(n.Key, in)
		case Rename:
			out = RenameOut(n.Key, in)
		}
	}
	if n.Post || n.StreamPost {
		m := make(V, len(out)+1)
		for k, v := range out {
			m[k] = v
		}
		m["q."+n.Key] = marker(n.StreamPost, out["q."+n.Key])
		out = m
		res.StateLog[g.Name] = append(res.StateLog[g.Name], "post:"+n.Key)
	}
	return out, "", ""
}

func pickFields(e *EdgeSpec, out V) (V, bool) {
	if len(e.Fields) == 0 {
		return out, true
	}
	m := V{}
	for _, f := range e.Fields {
		v, ok := out[f]
		if !ok {
			return nil, false
		}
		m[f] = v
	}
	return m, true
}

// ------------------------------------------------------------------ Pregel (C01)

func evalPregel(g *GraphSpec, in V, env *RefEnv, res *RefResult, top bool) {
	maxSteps := g.MaxSteps
	if maxSteps == 0 {
		maxSteps = len(g.Nodes) + 10
	}
	if top && env.MaxSteps > 0 {
		maxSteps = env.MaxSteps
	}
	if lim, ok := env.SubMaxSteps[g.Name]; ok && !top && lim > 0 {
		maxSteps = lim
	}
	pending := map[string]map[string]V{}
	prov := map[string]map[string]map[string]bool{} // to -> from -> provenance of that value
	outProv := map[string]map[string]bool{}         // node -> provenance of its current output
	setProv := func(to, from string) {
		if prov[to] == nil {
			prov[to] = map[string]map[string]bool{}
		}
		prov[to][from] = outProv[from]
	}
	deliver := func(from string, out V) {
		for i := range g.Edges {
			e := &g.Edges[i]
			if e.From != from {
				continue
			}
			if pending[e.To] == nil {
				pending[e.To] = map[string]V{}
			}
			pending[e.To][from] = out
			setProv(e.To, from)
		}
		for i := range g.Branches {
			b := &g.Branches[i]
			if b.From != from {
				continue
			}
			for _, t := range choose(b, out, env, res) {
				if pending[t] == nil {
					pending[t] = map[string]V{}
				}
				pending[t][from] = out
				setProv(t, from)
			}
		}
	}
	deliver(START, in)
	for step := 0; ; step++ {
		// every node that was sent at least one value gets the merge of exactly those values
		var ready []string
		for k, m := range pending {
			if len(m) > 0 {
				ready = append(ready, k)
			}
		}
		sort.Strings(ready)
		inputs := map[string]V{}
		for _, k := range ready {
			froms := make([]string, 0, len(pending[k]))
			for f := range pending[k] {
				froms = append(froms, f)
			}
			sort.Strings(froms)
			vs := make([]V, 0, len(froms))
			for _, f := range froms {
				vs = append(vs, pending[k][f])
			}
			m, err := MergeV(vs)
			if err != nil {
				res.Err, res.ErrNode = "collision", k
				return
			}
			inputs[k] = m
		}
		if v, ok := inputs[END]; ok {
			res.Out = v
			res.OthersAtEnd = len(ready) > 1
			res.NSteps = step
			if top {
				res.Contrib = map[string]bool{}
				for _, p := range prov[END] {
					for k := range p {
						res.Contrib[k] = true
					}
				}
			}
			return
		}
		if len(ready) == 0 {
			res.Err = "deadend"
			return
		}
		if step >= maxSteps {
			res.Err = "maxsteps"
			res.NSteps = step
			return
		}
		pending = map[string]map[string]V{}
		inProv := map[string]map[string]bool{}
		for _, k := range ready {
			u := map[string]bool{k: true}
			// a nested graph is a provenance barrier: whether it uses its input is not tracked
			if n := g.Node(k); n == nil || n.Kind != Sub {
				for _, p := range prov[k] {
					for x := range p {
						u[x] = true
					}
				}
			}
			inProv[k] = u
		}
		prov = map[string]map[string]map[string]bool{}
		for _, k := range ready {
			outProv[k] = inProv[k]
		}
		var stepExecs []RefExec
		outs := map[string]V{}
		failed, failedNode := "", ""
		for _, k := range ready {
			n := g.Node(k)
			if n == nil {
				res.Err, res.ErrNode = "unknown-node", k
				return
			}
			before := len(res.Execs)
			out, errc, errn := evalNode(g, n, inputs[k], env, res)
			if top {
				for _, e := range res.Execs[before:] {
					if e.Node == k {
						stepExecs = append(stepExecs, e)
					}
				}
			}
			if errc != "" {
				if failed == "" {
					failed, failedNode = errc, errn
				}
				continue
			}
			outs[k] = out
		}
		if top {
			res.Steps = append(res.Steps, stepExecs)
		}
		if failed != "" {
			res.Err, res.ErrNode = failed, failedNode
			return
		}
		for _, k := range ready {
			deliver(k, outs[k])
		}
	}
}

// ------------------------------------------------------------------ all-predecessor (C02)

type predInfo struct {
	ctrl map[string]bool
	data map[string]*EdgeSpec // data edges (incl. synthetic ones for branches with data flow)
}

func allPredInfo(g *GraphSpec) map[string]*predInfo {
	pi := map[string]*predInfo{}
	get := func(k string) *predInfo {
		if pi[k] == nil {
			pi[k] = &predInfo{ctrl: map[string]bool{}, data: map[string]*EdgeSpec{}}
		}
		return pi[k]
	}
	for i := range g.Nodes {
		get(g.Nodes[i].Key)
	}
	get(END)
	for i := range g.Edges {
		e := &g.Edges[i]
		p := get(e.To)
		if !e.NoControl {
			p.ctrl[e.From] = true
		}
		if !e.NoData {
			p.data[e.From] = e
		}
	}
	for i := range g.Branches {
		b := &g.Branches[i]
		for _, t := range b.Targets {
			p := get(t)
			p.ctrl[b.From] = true
			if g.Mode != Workflow {
				if _, ok := p.data[b.From]; !ok {
					p.data[b.From] = &EdgeSpec{From: b.From, To: t}
				}
			}
		}
	}
	return pi
}

// topoOrder over all dependency edges (control, data, branch). ok=false on a cycle.
func topoOrder(g *GraphSpec) ([]string, bool) {
	adj := map[string][]string{}
	indeg := map[string]int{}
	nodes := []string{START, END}
	for _, n := range g.Nodes {
		nodes = append(nodes, n.Key)
	}
	for _, n := range nodes {
		indeg[n] = 0
	}
	add := func(a, b string) {
		adj[a] = append(adj[a], b)
		indeg[b]++
	}
	for _, e := range g.Edges {
		add(e.From, e.To)
	}
	for _, b := range g.Branches {
		for _, t := range b.Targets {
			add(b.From, t)
		}
	}
	var order []string
	var queue []string
	for _, n := range nodes {
		if indeg[n] == 0 {
			queue = append(queue, n)
		}
	}
	for len(queue) > 0 {
		sort.Strings(queue)
		n := queue[0]
		queue = queue[1:]
		order = append(order, n)
		for _, m := range adj[n] {
			indeg[m]--
			if indeg[m] == 0 {
				queue = append(queue, m)
			}
		}
	}
	return order, len(order) == len(nodes)
}

func evalAllPred(g *GraphSpec, in V, env *RefEnv, res *RefResult, top bool) {
	order, ok := topoOrder(g)
	if !ok {
		res.Err = "cycle"
		return
	}
	pi := allPredInfo(g)
	ran := map[string]bool{START: true}
	outs := map[string]V{START: in}
	chosen := map[string]map[string]bool{} // from -> targets selected by any of its branches
	branchTargets := map[string]map[string]bool{}
	for i := range g.Branches {
		b := &g.Branches[i]
		if branchTargets[b.From] == nil {
			branchTargets[b.From] = map[string]bool{}
		}
		for _, t := range b.Targets {
			branchTargets[b.From][t] = true
		}
	}
	hasCtrlEdge := map[string]map[string]bool{}
	hasDataEdge := map[string]map[string]bool{}
	for _, e := range g.Edges {
		if hasCtrlEdge[e.From] == nil {
			hasCtrlEdge[e.From] = map[string]bool{}
			hasDataEdge[e.From] = map[string]bool{}
		}
		if !e.NoControl {
			hasCtrlEdge[e.From][e.To] = true
		}
		if !e.NoData {
			hasDataEdge[e.From][e.To] = true
		}
	}
	evalBranches := func(from string) {
		for i := range g.Branches {
			b := &g.Branches[i]
			if b.From != from {
				continue
			}
			if chosen[from] == nil {
				chosen[from] = map[string]bool{}
			}
			for _, t := range choose(b, outs[from], env, res) {
				chosen[from][t] = true
			}
		}
	}
	// routes: control predecessor p ran and routed to n (control edge, or a branch of p selected n)
	routes := func(p, n string) bool {
		if !ran[p] {
			return false
		}
		if hasCtrlEdge[p][n] {
			return true
		}
		return chosen[p][n]
	}
	// delivers: data predecessor p ran and its value flows to n (data edge, or a data-carrying
	// branch of p selected n)
	delivers := func(p, n string) bool {
		if !ran[p] {
			return false
		}
		if hasDataEdge[p][n] {
			return true
		}
		return g.Mode != Workflow && chosen[p][n]
	}
	evalBranches(START)
	contrib := map[string]map[string]bool{START: {}}
	var failed, failedNode string
	for _, k := range order {
		if k == START {
			continue
		}
		p := pi[k]
		if len(p.ctrl) == 0 {
			// no control predecessor at all: "at least one predecessor routed to it" is false
			if k != END {
				res.Orphans = append(res.Orphans, g.Path(k))
			}
			res.Skipped[k] = true
			continue
		}
		any := false
		for c := range p.ctrl {
			if routes(c, k) {
				any = true
				break
			}
		}
		if !any {
			res.Skipped[k] = true
			continue
		}
		// input: merge of the outputs of exactly the data predecessors that ran and routed
		var froms []string
		for d := range p.data {
			if delivers(d, k) {
				froms = append(froms, d)
			}
		}
		sort.Strings(froms)
		var vs []V
		for _, d := range froms {
			v, ok := pickFields(p.data[d], outs[d])
			if !ok {
				res.Err, res.ErrNode = "keymissing", k
				return
			}
			vs = append(vs, v)
		}
		var input V
		if len(vs) > 0 {
			m, err := MergeV(vs)
			if err != nil {
				res.Err, res.ErrNode = "collision", k
				return
			}
			input = m
		}
		contrib[k] = map[string]bool{k: true}
		if n := g.Node(k); n == nil || n.Kind != Sub {
			for _, d := range froms {
				for x := range contrib[d] {
					contrib[k][x] = true
				}
			}
		}
		if k == END {
			if failed != "" {
				break
			}
			res.Out = input
			res.Ran[END] = true
			if top {
				res.Contrib = contrib[END]
				delete(res.Contrib, END)
				delete(res.Contrib, START)
			}
			break
		}
		n := g.Node(k)
		out, errc, errn := evalNode(g, n, input, env, res)
		ran[k] = true
		res.Ran[k] = true
		if errc != "" {
			if failed == "" {
				failed, failedNode = errc, errn
			}
			// a failed node delivers nothing; the run fails. Keep evaluating so that the
			// set of possibly-executed nodes is known, but nothing routes from it.
			ran[k] = false
			continue
		}
		outs[k] = out
		evalBranches(k)
	}
	if failed != "" {
		res.Err, res.ErrNode = failed, failedNode
		return
	}
	if !res.Ran[END] {
		res.Err = "endskipped"
		return
	}
	// ancestors of END among the nodes that ran must have executed before the run returned
	anc := map[string]bool{}
	var walk func(n string)
	walk = func(n string) {
		for c := range pi[n].ctrl {
			if c != START && !anc[c] {
				anc[c] = true
				walk(c)
			}
		}
		for d := range pi[n].data {
			if d != START && !anc[d] {
				anc[d] = true
				walk(d)
			}
		}
	}
	walk(END)
	for a := range anc {
		if res.Ran[a] {
			res.MustRun[a] = true
		}
	}
}

func (r *RefResult) String() string {
	return fmt.Sprintf("out=%s err=%s(%s) execs=%v", Canon(r.Out), r.Err, r.ErrNode, r.ExecMultiset())
}
