package gspec

import (
	"context"
	"fmt"

	"github.com/cloudwego/eino/compose"
	"github.com/cloudwego/eino/schema"

	"verifharness/internal/mon"
)

// ChainSpec: a chain is a sequence of stages.
type ChainStage struct {
	Kind   string     `json:"kind"` // node | parallel | branch | passthrough | graph
	Node   *NodeSpec  `json:"node,omitempty"`
	Par    []NodeSpec `json:"par,omitempty"`  // parallel members; result is {member key: member output}
	Alts   []NodeSpec `json:"alts,omitempty"` // branch alternatives
	BID    string     `json:"bid,omitempty"`
	Multi  bool       `json:"multi,omitempty"`
	Stream bool       `json:"stream,omitempty"`
}

type ChainSpec struct {
	Stages []ChainStage `json:"stages"`
	State  bool         `json:"state,omitempty"`
}

func (c *ChainSpec) Digest() string { return fmt.Sprintf("%+v", *c) }

// GenChain generates a chain spec.
func GenChain(r *mon.Rand, streamy bool, nest int) *ChainSpec {
	c := &ChainSpec{}
	n := r.Range(1, 6)
	id := 0
	mk := func() NodeSpec {
		ns := NodeSpec{Key: fmt.Sprintf("c%d", id), Kind: Hash, PipeCap: -1, Chunk: r.Uint64(), Para: PI, Wide: r.Prob(0.2)}
		id++
		if r.Prob(0.15) {
			ns.Kind = Rename
		}
		if streamy {
			ns.Para = 1 + r.Intn(15)
			if ns.Kind == Rename {
				ns.Para = []int{PI, PT, PI | PT}[r.Intn(3)]
			}
			ns.PipeCap = []int{-1, 0, 1, 3}[r.Intn(4)]
			ns.Lazy = r.Bool()
		}
		return ns
	}
	prevMulti := false // previous stage left several open ends
	for i := 0; i < n; i++ {
		k := r.Intn(10)
		switch {
		case k < 2 && !prevMulti:
			st := ChainStage{Kind: "parallel"}
			for j, m := 0, r.Range(2, 4); j < m; j++ {
				st.Par = append(st.Par, mk())
			}
			c.Stages = append(c.Stages, st)
			prevMulti = true
		case k < 4 && !prevMulti:
			st := ChainStage{Kind: "branch", BID: fmt.Sprintf("cb%d", i), Multi: r.Prob(0.3), Stream: r.Prob(0.3)}
			for j, m := 0, r.Range(2, 3); j < m; j++ {
				st.Alts = append(st.Alts, mk())
			}
			c.Stages = append(c.Stages, st)
			prevMulti = true
		case k == 4 && !prevMulti:
			c.Stages = append(c.Stages, ChainStage{Kind: "passthrough"})
		case k == 5 && nest > 0:
			sub := Gen(r, GenOpts{Mode: Mode(r.Intn(2)), MinNodes: 1, MaxNodes: 3, Branches: 0.5, Multi: 0.3, Streamy: streamy, Wide: 0.2, Prefix: fmt.Sprintf("g%d_", i)})
			sub.Name = fmt.Sprintf("g%d", i)
			ns := NodeSpec{Key: sub.Name, Kind: Sub, Sub: sub}
			c.Stages = append(c.Stages, ChainStage{Kind: "graph", Node: &ns})
			prevMulti = false
		default:
			ns := mk()
			c.Stages = append(c.Stages, ChainStage{Kind: "node", Node: &ns})
			prevMulti = false
		}
	}
	return c
}

func altKeys(st *ChainStage) []string {
	var ks []string
	for _, a := range st.Alts {
		ks = append(ks, a.Key)
	}
	return ks
}

// BuildChain compiles the chain through the public chain API.
func BuildChain(ctx context.Context, c *ChainSpec) (compose.Runnable[V, V], error) {
	b := &builder{}
	ch := compose.NewChain[V, V]()
	top := &GraphSpec{}
	for i := range c.Stages {
		st := &c.Stages[i]
		switch st.Kind {
		case "node":
			ch.AppendLambda(b.lambda(top, st.Node))
		case "passthrough":
			ch.AppendPassthrough()
		case "graph":
			inner, err := b.anyGraph(st.Node.Sub)
			if err != nil {
				return nil, err
			}
			ch.AppendGraph(inner, b.nodeOpts(top, st.Node)...)
		case "parallel":
			p := compose.NewParallel()
			for j := range st.Par {
				p.AddLambda(st.Par[j].Key, b.lambda(top, &st.Par[j]))
			}
			ch.AppendParallel(p)
		case "branch":
			bs := &BranchSpec{ID: st.BID, Targets: altKeys(st), Multi: st.Multi}
			decide := func(ctx context.Context, in V) []string {
				chosen := DecideBranch(bs, in)
				if ctl := CtlFrom(ctx); ctl != nil {
					ctl.Log.addBranch(bs.ID, Canon(in), chosen)
				}
				return chosen
			}
			var cb *compose.ChainBranch
			switch {
			case st.Stream && st.Multi:
				cb = compose.NewStreamChainMultiBranch(func(ctx context.Context, sr *schema.StreamReader[V]) (map[string]bool, error) {
					in, err := drainV(sr)
					if err != nil {
						return nil, err
					}
					m := map[string]bool{}
					for _, t := range decide(ctx, in) {
						m[t] = true
					}
					return m, nil
				})
			case st.Stream:
				cb = compose.NewStreamChainBranch(func(ctx context.Context, sr *schema.StreamReader[V]) (string, error) {
					in, err := drainV(sr)
					if err != nil {
						return "", err
					}
					return decide(ctx, in)[0], nil
				})
			case st.Multi:
				cb = compose.NewChainMultiBranch(func(ctx context.Context, in V) (map[string]bool, error) {
					m := map[string]bool{}
					for _, t := range decide(ctx, in) {
						m[t] = true
					}
					return m, nil
				})
			default:
				cb = compose.NewChainBranch(func(ctx context.Context, in V) (string, error) {
					return decide(ctx, in)[0], nil
				})
			}
			for j := range st.Alts {
				cb.AddLambda(st.Alts[j].Key, b.lambda(top, &st.Alts[j]))
			}
			ch.AppendBranch(cb)
		}
	}
	return ch.Compile(ctx)
}

// EvalChain: a chain is sequential function composition of its stages, parallel
// stages merged by key, a branch stage applies the chosen alternative(s).
func EvalChain(c *ChainSpec, in V) *RefResult {
	res := &RefResult{StateLog: map[string][]string{}, Ran: map[string]bool{}, Skipped: map[string]bool{}, MustRun: map[string]bool{}, Branch: map[string][]string{}}
	env := &RefEnv{}
	top := &GraphSpec{}
	v := in
	for i := range c.Stages {
		st := &c.Stages[i]
		switch st.Kind {
		case "passthrough":
		case "node", "graph":
			out, errc, errn := evalNode(top, st.Node, v, env, res)
			if errc != "" {
				res.Err, res.ErrNode = errc, errn
				return res
			}
			v = out
		case "parallel":
			m := V{}
			for j := range st.Par {
				out, errc, errn := evalNode(top, &st.Par[j], v, env, res)
				if errc != "" {
					res.Err, res.ErrNode = errc, errn
					return res
				}
				m[st.Par[j].Key] = out
			}
			v = m
		case "branch":
			bs := &BranchSpec{ID: st.BID, Targets: altKeys(st), Multi: st.Multi}
			chosen := DecideBranch(bs, v)
			res.Branch[bs.ID] = chosen
			var outs []V
			for j := range st.Alts {
				for _, c := range chosen {
					if c == st.Alts[j].Key {
						out, errc, errn := evalNode(top, &st.Alts[j], v, env, res)
						if errc != "" {
							res.Err, res.ErrNode = errc, errn
							return res
						}
						outs = append(outs, out)
					}
				}
			}
			m, err := MergeV(outs)
			if err != nil {
				res.Err = "collision"
				return res
			}
			v = m
		}
	}
	res.Out = v
	return res
}
