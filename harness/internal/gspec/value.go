package gspec

import (
	"fmt"
	"sort"

	"verifharness/internal/mon"
)

// V is the value domain of generated graphs: maps with string (or nested map) leaves.
type V = map[string]any

func Canon(v any) string { return mon.Canon(v) }

// HashOut is the deterministic, input-sensitive function of Hash nodes.
func HashOut(key string, wide bool, in any) V {
	c := Canon(in)
	out := V{key: mon.H8(key + "|" + c)}
	if wide {
		out[key+"_w"] = mon.H8(key + "#w|" + c)
	}
	return out
}

// HashStrOut is the function of string-typed (input/output key) nodes.
func HashStrOut(key string, in string) string { return mon.H8(key + "$" + in) }

func RenameOut(key string, in V) V {
	out := make(V, len(in))
	for k, v := range in {
		out[key+"."+k] = v
	}
	return out
}

func CollideOut(key string, in any) V { return V{"X": mon.H8(key + "|" + Canon(in))} }

// CopyV deep-copies a value of the domain.
func CopyV(v any) any {
	switch x := v.(type) {
	case map[string]any:
		if x == nil {
			return map[string]any(nil)
		}
		m := make(map[string]any, len(x))
		for k, e := range x {
			m[k] = CopyV(e)
		}
		return m
	default:
		return v
	}
}

// MergeV is the reference fan-in merge: key-disjoint union, else error.
func MergeV(vs []V) (V, error) {
	if len(vs) == 1 {
		return vs[0], nil
	}
	out := V{}
	for _, v := range vs {
		for k, e := range v {
			if _, dup := out[k]; dup {
				return nil, fmt.Errorf("duplicate key %q", k)
			}
			out[k] = e
		}
	}
	return out, nil
}

// splitString splits s into 1..3 pieces (possibly empty ones) decided by r.
func splitString(s string, r *mon.Rand) []string {
	n := 1 + r.Intn(3)
	if n == 1 || len(s) == 0 {
		if r.Prob(0.15) {
			return []string{"", s}
		}
		return []string{s}
	}
	cuts := make([]int, n-1)
	for i := range cuts {
		cuts[i] = r.Intn(len(s) + 1)
	}
	sort.Ints(cuts)
	var out []string
	prev := 0
	for _, c := range cuts {
		out = append(out, s[prev:c])
		prev = c
	}
	out = append(out, s[prev:])
	return out
}

func splitAny(v any, r *mon.Rand) []any {
	switch x := v.(type) {
	case string:
		ps := splitString(x, r)
		out := make([]any, len(ps))
		for i, p := range ps {
			out[i] = p
		}
		return out
	case map[string]any:
		cs := ChunkV(x, r)
		out := make([]any, len(cs))
		for i, c := range cs {
			out[i] = c
		}
		return out
	default:
		return []any{v}
	}
}

// ChunkV splits a map value into a sequence of chunks whose concatenation (per
// key, in arrival order) is the value again. The plan is a pure function of r.
// At least one chunk is produced.
func ChunkV(v V, r *mon.Rand) []V {
	keys := mon.SortedKeys(v)
	if len(keys) == 0 {
		if v == nil {
			return []V{{}}
		}
		return []V{{}}
	}
	pieces := make([][]any, len(keys))
	total := 0
	for i, k := range keys {
		pieces[i] = splitAny(v[k], r)
		total += len(pieces[i])
	}
	if r.Prob(0.2) {
		// single chunk
		return []V{CopyV(v).(V)}
	}
	var out []V
	if r.Prob(0.15) {
		out = append(out, V{}) // empty leading chunk
	}
	idx := make([]int, len(keys))
	for total > 0 {
		c := V{}
		// one or two keys contribute their next piece to this chunk
		nk := 1 + r.Intn(2)
		for j := 0; j < nk && total > 0; j++ {
			// choose a key that still has pieces
			start := r.Intn(len(keys))
			for o := 0; o < len(keys); o++ {
				i := (start + o) % len(keys)
				if idx[i] < len(pieces[i]) {
					if _, used := c[keys[i]]; used {
						continue
					}
					c[keys[i]] = pieces[i][idx[i]]
					idx[i]++
					total--
					break
				}
			}
		}
		if len(c) == 0 {
			continue
		}
		out = append(out, c)
	}
	return out
}

// ChunkS splits a string into chunks.
func ChunkS(s string, r *mon.Rand) []string { return splitString(s, r) }

// ConcatV is the harness's own, independent concatenation of map chunks:
// per key, strings are joined in arrival order, nested maps recursively.
func ConcatV(chunks []V) (V, error) {
	if len(chunks) == 0 {
		return nil, fmt.Errorf("no chunks")
	}
	out := V{}
	order := []string{}
	parts := map[string][]any{}
	for _, c := range chunks {
		for _, k := range mon.SortedKeys(c) {
			if _, ok := parts[k]; !ok {
				order = append(order, k)
			}
			parts[k] = append(parts[k], c[k])
		}
	}
	for _, k := range order {
		ps := parts[k]
		switch ps[0].(type) {
		case string:
			s := ""
			for _, p := range ps {
				ps, ok := p.(string)
				if !ok {
					return nil, fmt.Errorf("key %q: mixed chunk types", k)
				}
				s += ps
			}
			out[k] = s
		case map[string]any:
			var ms []V
			for _, p := range ps {
				m, ok := p.(map[string]any)
				if !ok {
					return nil, fmt.Errorf("key %q: mixed chunk types", k)
				}
				ms = append(ms, m)
			}
			m, err := ConcatV(ms)
			if err != nil {
				return nil, err
			}
			out[k] = m
		default:
			if len(ps) != 1 {
				return nil, fmt.Errorf("key %q: cannot concat %T", k, ps[0])
			}
			out[k] = ps[0]
		}
	}
	return out, nil
}

// EqualV compares two values of the domain (nil map == empty map).
func EqualV(a, b any) bool { return Canon(a) == Canon(b) }
