package gspec

import (
	"io"
	"context"
	"errors"
	"fmt"
	"sort"
	"strings"
	"sync"
	"sync/atomic"
)

// Exec is one execution of a node body, as observed by the instrumented body.
type Exec struct {
	Seq     int64  // global call order within the run (entry)
	Node    string // node key (globally unique in a spec tree)
	Path    string // full path through nested graphs
	Para    string // paradigm the framework called: I S C T
	In      string // canonical input, once known ("" until the body has consumed its input stream)
	InOK    bool
	Out     string
	Err     string
	Done    bool     // body (incl. lazy part) finished computing its output
	EndSeq  int64    // global order of the body's exit (return of the call)
	Opts    []string // option payloads received (C16)
	Attempt int
}

// Producer is the record of one goroutine-backed stream producer.
type Producer struct {
	Node     string
	Total    int
	Sent     int
	SawClose bool // Send returned closed
	Finished bool // all chunks sent and writer closed
}

// BranchEval is one evaluation of a branch condition.
type BranchEval struct {
	Seq    int64
	ID     string
	In     string
	Chosen []string
}

// StateEvent is one observation made inside a state handler (under the framework's lock).
type StateEvent struct {
	Seq    int64
	Kind   string // pre | post
	Node   string
	Serial int64
	Val    int64 // value of the state's counter when the handler was entered
}

// RunLog is the per-run, mutex-protected execution log found through the context.
type RunLog struct {
	mu        sync.Mutex
	seq       int64
	Execs     []*Exec
	Producers []*Producer
	Branches  []BranchEval
	States    []StateEvent
	attempts  map[string]int
}

func NewRunLog() *RunLog { return &RunLog{attempts: map[string]int{}} }

func (l *RunLog) next() int64 { return atomic.AddInt64(&l.seq, 1) }

func (l *RunLog) begin(node, path, para string) *Exec {
	l.mu.Lock()
	defer l.mu.Unlock()
	l.attempts[path]++
	e := &Exec{Seq: l.next(), Node: node, Path: path, Para: para, Attempt: l.attempts[path]}
	l.Execs = append(l.Execs, e)
	return e
}

func (l *RunLog) setIn(e *Exec, in string) {
	l.mu.Lock()
	e.In, e.InOK = in, true
	l.mu.Unlock()
}

func (l *RunLog) setOpts(e *Exec, opts []string) {
	l.mu.Lock()
	e.Opts = opts
	l.mu.Unlock()
}

func (l *RunLog) finish(e *Exec, out string, err error) {
	l.mu.Lock()
	e.Out, e.Done = out, true
	if err != nil {
		e.Err = err.Error()
	}
	l.mu.Unlock()
}

func (l *RunLog) exit(e *Exec) {
	l.mu.Lock()
	e.EndSeq = l.next()
	l.mu.Unlock()
}

func (l *RunLog) addProducer(p *Producer) {
	l.mu.Lock()
	l.Producers = append(l.Producers, p)
	l.mu.Unlock()
}

func (l *RunLog) updProducer(fn func()) {
	l.mu.Lock()
	fn()
	l.mu.Unlock()
}

func (l *RunLog) addBranch(id, in string, chosen []string) {
	l.mu.Lock()
	l.Branches = append(l.Branches, BranchEval{Seq: l.next(), ID: id, In: in, Chosen: append([]string(nil), chosen...)})
	l.mu.Unlock()
}

func (l *RunLog) addState(kind, node string, serial, val int64) {
	l.mu.Lock()
	l.States = append(l.States, StateEvent{Seq: l.next(), Kind: kind, Node: node, Serial: serial, Val: val})
	l.mu.Unlock()
}

// Snapshot returns copies of the records (safe to inspect while goroutines may still append).
func (l *RunLog) Snapshot() (execs []Exec, prods []Producer, brs []BranchEval, sts []StateEvent) {
	l.mu.Lock()
	defer l.mu.Unlock()
	for _, e := range l.Execs {
		execs = append(execs, *e)
	}
	for _, p := range l.Producers {
		prods = append(prods, *p)
	}
	brs = append(brs, l.Branches...)
	sts = append(sts, l.States...)
	return
}

// ExecMultiset renders the executions as a sorted list "path(in)" (complete ones only).
func ExecMultiset(execs []Exec) []string {
	var out []string
	for _, e := range execs {
		in := e.In
		if !e.InOK {
			in = "?"
		}
		out = append(out, e.Path+"("+in+")")
	}
	sort.Strings(out)
	return out
}

// Render prints the log for witnesses.
func RenderExecs(execs []Exec) string {
	var b strings.Builder
	for _, e := range execs {
		fmt.Fprintf(&b, "#%d %s[%s] in=%s out=%s err=%s done=%v end#%d\n", e.Seq, e.Path, e.Para, e.In, e.Out, e.Err, e.Done, e.EndSeq)
	}
	return b.String()
}

// Fault kinds injected into node bodies (C13).
type Fault int

const (
	NoFault Fault = iota
	FailSentinel
	FailCustom
	PanicString
	PanicError
	PanicNilDeref
	FailMidStream // error item in the middle of the streamed output (stream-producing forms), plain error otherwise
	// PanicConverter: the streamed output is a converted reader whose converter panics on its 2nd
	// chunk (exercises the framework's stream-forwarding goroutines when that stream is merged);
	// forms that return a value fail with a plain error
	PanicConverter
)

// ErrSentinel / CustomErr are what failing nodes return.
var ErrSentinel = errors.New("verif-sentinel-failure")

type CustomErr struct{ Node string }

func (c *CustomErr) Error() string { return "verif-custom-failure@" + c.Node }

// RunCtl is the per-run control block carried by the context passed to
// Invoke/Stream/Collect/Transform; node bodies and branch conditions find it
// there. Everything in it is either immutable during the run or synchronised.
type RunCtl struct {
	RunID   string
	Log     *RunLog
	Faults  map[string]Fault    // node key -> fault
	Choices map[string][]string // branch id -> forced targets (nil entry = not forced)
	// OnBody is called at the start of every node body (delays, gates, state operations …).
	OnBody func(ctx context.Context, node string, in any)
	// OnBodyEnd is called right before a body returns its (non-lazy) result.
	OnBodyEnd func(ctx context.Context, node string)
	// OnChunk is called by goroutine-backed producers before every Send.
	OnChunk func(node string, i int)
	// EOFInChain: every error a fault produces also has io.EOF in its Unwrap chain (a node failing with
	// fmt.Errorf("read: %w", io.EOF) has failed; only the bare io.EOF value means end of stream)
	EOFInChain bool
	// PanicAt: the PanicConverter fault panics on this chunk (0 = 2nd chunk)
	PanicAt int
	// LagReader: in the stream paradigms the caller starts reading the output only once the whole
	// process is quiescent (every producer and forwarder is blocked by back-pressure)
	LagReader bool
	// StopAfter: rerun nodes interrupt on their first attempt only when true
	RerunEnabled bool
	// RerunSeen is shared by all calls of one interrupt/resume history (path -> struct{})
	RerunSeen *sync.Map
}

// faultErr decorates an injected failure (see EOFInChain).
func (c *RunCtl) faultErr(err error) error {
	if c != nil && c.EOFInChain {
		return fmt.Errorf("%w [also wraps %w]", err, io.EOF)
	}
	return err
}

type ctlKey struct{}

func WithCtl(ctx context.Context, c *RunCtl) context.Context {
	return context.WithValue(ctx, ctlKey{}, c)
}

func CtlFrom(ctx context.Context) *RunCtl {
	c, _ := ctx.Value(ctlKey{}).(*RunCtl)
	return c
}

// NewCtl creates a control block with a fresh log.
func NewCtl(runID string) *RunCtl {
	return &RunCtl{RunID: runID, Log: NewRunLog(), RerunSeen: &sync.Map{}}
}
