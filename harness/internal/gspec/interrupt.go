package gspec

import (
	"context"
	"encoding/json"
	"fmt"
	"sort"
	"strings"
	"sync"
	"sync/atomic"

	"github.com/cloudwego/eino/compose"

	"verifharness/internal/mon"
)

// ByteStore is a CheckPointStore that keeps nothing but bytes (copies on Set and Get)
// and counts its accesses.
type ByteStore struct {
	mu   sync.Mutex
	m    map[string][]byte
	Sets int
	Gets int
}

func NewByteStore() *ByteStore { return &ByteStore{m: map[string][]byte{}} }

func (s *ByteStore) Get(_ context.Context, id string) ([]byte, bool, error) {
	s.mu.Lock()
	defer s.mu.Unlock()
	s.Gets++
	b, ok := s.m[id]
	if !ok {
		return nil, false, nil
	}
	return append([]byte(nil), b...), true, nil
}

func (s *ByteStore) Set(_ context.Context, id string, b []byte) error {
	s.mu.Lock()
	defer s.mu.Unlock()
	s.Sets++
	s.m[id] = append([]byte(nil), b...)
	return nil
}

// Snapshot returns a copy of everything stored; Restore puts such a copy back (a store that still holds
// the bytes of an earlier checkpoint: retry after a failed resume, replay, a second consumer).
func (s *ByteStore) Snapshot() map[string][]byte {
	s.mu.Lock()
	defer s.mu.Unlock()
	out := map[string][]byte{}
	for k, v := range s.m {
		out[k] = append([]byte(nil), v...)
	}
	return out
}

func (s *ByteStore) Restore(snap map[string][]byte) {
	s.mu.Lock()
	defer s.mu.Unlock()
	s.m = map[string][]byte{}
	for k, v := range snap {
		s.m[k] = append([]byte(nil), v...)
	}
}

func (s *ByteStore) Counts() (sets, gets int) {
	s.mu.Lock()
	defer s.mu.Unlock()
	return s.Sets, s.Gets
}

// IntPoint is one configured interrupt point.
type IntPoint struct {
	Graph string `json:"graph"` // name of the owning graph ("" = top level)
	Node  string `json:"node"`
	After bool   `json:"after"`
}

type Plan []IntPoint

func (p Plan) String() string {
	var s []string
	for _, x := range p {
		w := "before"
		if x.After {
			w = "after"
		}
		s = append(s, fmt.Sprintf("%s:%s/%s", w, x.Graph, x.Node))
	}
	return strings.Join(s, ",")
}

// CloneSpec deep-copies a spec.
func CloneSpec(g *GraphSpec) *GraphSpec {
	b, _ := json.Marshal(g)
	var c GraphSpec
	_ = json.Unmarshal(b, &c)
	return &c
}

// ApplyPlan returns a copy of spec with the interrupt points configured at their nesting level.
func ApplyPlan(spec *GraphSpec, plan Plan) *GraphSpec {
	c := CloneSpec(spec)
	var walk func(g *GraphSpec)
	walk = func(g *GraphSpec) {
		for _, p := range plan {
			if p.Graph == g.Name {
				if p.After {
					g.IntAfter = append(g.IntAfter, p.Node)
				} else {
					g.IntBefore = append(g.IntBefore, p.Node)
				}
			}
		}
		for i := range g.Nodes {
			if g.Nodes[i].Sub != nil {
				walk(g.Nodes[i].Sub)
			}
		}
	}
	walk(c)
	return c
}

// AllPoints lists every possible interrupt point of a spec tree (each node, before and after).
func AllPoints(g *GraphSpec) []IntPoint {
	var out []IntPoint
	for _, n := range g.Nodes {
		out = append(out, IntPoint{Graph: g.Name, Node: n.Key}, IntPoint{Graph: g.Name, Node: n.Key, After: true})
		if n.Sub != nil {
			out = append(out, AllPoints(n.Sub)...)
		}
	}
	return out
}

// CallRec is one Invoke/Stream call of an interrupt/resume history.
type CallRec struct {
	Para        string
	Out         Outcome
	Interrupted bool
	Info        *compose.InterruptInfo
	Execs       []Exec
	States      []StateEvent
	Branches    []BranchEval
	StoreSets   int
	StoreGets   int
	HookNotes   []string // violations seen by the task-hook monitor during this call
}

type History struct {
	Plan         Plan
	Calls        []CallRec
	Completed    bool
	NoProgress   bool
	Stuck        string // non-empty: a call could never finish (signature), Detail in StuckDetail
	StuckDetail  string
	Inconclusive bool
}

// AllExecs concatenates the executions of all calls.
func (h *History) AllExecs() []Exec {
	var out []Exec
	for _, c := range h.Calls {
		out = append(out, c.Execs...)
	}
	return out
}

func (h *History) AllStates() []StateEvent {
	var out []StateEvent
	for _, c := range h.Calls {
		out = append(out, c.States...)
	}
	return out
}

func (h *History) Final() Outcome {
	if len(h.Calls) == 0 {
		return Outcome{}
	}
	return h.Calls[len(h.Calls)-1].Out
}

func (h *History) Render() string {
	var b strings.Builder
	fmt.Fprintf(&b, "plan: %s\n", h.Plan)
	for i, c := range h.Calls {
		fmt.Fprintf(&b, "call %d [%s]: ", i, c.Para)
		if c.Interrupted {
			fmt.Fprintf(&b, "INTERRUPT %s", RenderInfo(c.Info))
		} else {
			b.WriteString(c.Out.String())
		}
		fmt.Fprintf(&b, " (store sets=%d gets=%d)\n", c.StoreSets, c.StoreGets)
		for _, e := range c.Execs {
			fmt.Fprintf(&b, "    #%d %s in=%s err=%s\n", e.Seq, e.Path, e.In, e.Err)
		}
		for _, n := range c.HookNotes {
			fmt.Fprintf(&b, "    hook: %s\n", n)
		}
	}
	return b.String()
}

func RenderInfo(i *compose.InterruptInfo) string {
	if i == nil {
		return "<nil>"
	}
	s := fmt.Sprintf("{before=%v after=%v rerun=%v state=%v", i.BeforeNodes, i.AfterNodes, i.RerunNodes, i.State != nil)
	ks := make([]string, 0, len(i.SubGraphs))
	for k := range i.SubGraphs {
		ks = append(ks, k)
	}
	sort.Strings(ks)
	for _, k := range ks {
		s += " sub[" + k + "]=" + RenderInfo(i.SubGraphs[k])
	}
	return s + "}"
}

// ---------------------------------------------------------------- task-hook monitor (interrupt-after)

type intMon struct {
	mu        sync.Mutex
	after     map[string]bool // node keys configured interrupt-after (keys are unique in a spec tree)
	afterHit  map[uint64]string
	notes     []string
	watermark uint64
}

var curIntMon atomic.Value // intMonBox
type intMonBox struct{ m *intMon }

var intMaxManager uint64
var intHookOnce sync.Once

// EnableInterruptHook installs the task hook used to watch interrupt-after points.
func EnableInterruptHook() {
	intHookOnce.Do(func() { compose.SetVerifTaskHook(intHook) })
}

func intHook(ev compose.VerifTaskEvent) {
	for {
		old := atomic.LoadUint64(&intMaxManager)
		if ev.Manager <= old || atomic.CompareAndSwapUint64(&intMaxManager, old, ev.Manager) {
			break
		}
	}
	box, _ := curIntMon.Load().(intMonBox)
	m := box.m
	if m == nil || ev.Manager <= m.watermark {
		return
	}
	switch ev.Point {
	case compose.VerifCollected:
		if m.after[ev.NodeKey] && !ev.HasErr {
			m.mu.Lock()
			m.afterHit[ev.Manager] = ev.NodeKey
			m.mu.Unlock()
		}
	case compose.VerifSubmitAsync, compose.VerifSubmitSync:
		m.mu.Lock()
		if n, ok := m.afterHit[ev.Manager]; ok {
			m.notes = append(m.notes, fmt.Sprintf("node %s was started after interrupt-after node %s had completed and been collected", ev.NodeKey, n))
		}
		m.mu.Unlock()
	}
}

func afterNodes(g *GraphSpec, out map[string]bool) {
	for _, n := range g.IntAfter {
		out[n] = true
	}
	for i := range g.Nodes {
		if g.Nodes[i].Sub != nil {
			afterNodes(g.Nodes[i].Sub, out)
		}
	}
}

// ---------------------------------------------------------------- running a history

type HistoryOpts struct {
	Paras      []string // paradigm of call i = Paras[i % len]
	CheckPoint bool     // pass WithCheckPointID
	MaxCalls   int
	ChunkSeed  uint64
	StateMod   compose.StateModifier // passed on every resume
	OnBody     func(ctx context.Context, node string, in any)
}

// RunHistory runs a compiled (plan-applied) spec to completion through interrupts and resumes.
func RunHistory(ctx context.Context, spec *GraphSpec, r compose.Runnable[V, V], store *ByteStore, in V, plan Plan, o HistoryOpts) *History {
	h := &History{Plan: plan}
	rerun := &sync.Map{}
	after := map[string]bool{}
	afterNodes(spec, after)
	if len(o.Paras) == 0 {
		o.Paras = []string{"I"}
	}
	for i := 0; i < o.MaxCalls; i++ {
		ctl := NewCtl(fmt.Sprintf("call%d", i))
		ctl.RerunSeen = rerun
		ctl.RerunEnabled = true
		ctl.OnBody = o.OnBody
		m := &intMon{after: after, afterHit: map[uint64]string{}, watermark: atomic.LoadUint64(&intMaxManager)}
		curIntMon.Store(intMonBox{m})
		var opts []compose.Option
		if o.CheckPoint {
			opts = append(opts, compose.WithCheckPointID("cp"))
		}
		callIn := in
		if i > 0 {
			callIn = V{"in": "IGNORED-ON-RESUME"}
			if o.StateMod != nil {
				opts = append(opts, compose.WithStateModifier(o.StateMod))
			}
		}
		s0, g0 := store.Counts()
		para := o.Paras[i%len(o.Paras)]
		out, wres, dump := CallGuarded(WithCtl(ctx, ctl), r, para, callIn, o.ChunkSeed, -1, opts...)
		curIntMon.Store(intMonBox{nil})
		if wres == mon.Stuck {
			h.Stuck, h.StuckDetail = StuckSignature(dump)
			return h
		}
		if wres == mon.Inconclusive {
			h.Inconclusive = true
			return h
		}
		s1, g1 := store.Counts()
		rec := CallRec{Para: para, Out: out, StoreSets: s1 - s0, StoreGets: g1 - g0}
		rec.Execs, _, rec.Branches, rec.States = ctl.Log.Snapshot()
		m.mu.Lock()
		rec.HookNotes = append(rec.HookNotes, m.notes...)
		m.mu.Unlock()
		if out.Err != nil {
			if info, ok := compose.ExtractInterruptInfo(out.Err); ok {
				rec.Interrupted, rec.Info = true, info
			}
		}
		h.Calls = append(h.Calls, rec)
		if !rec.Interrupted {
			h.Completed = true
			return h
		}
		if !o.CheckPoint {
			return h // without a checkpoint id there is nothing to resume from
		}
	}
	h.NoProgress = true
	return h
}

// IsInterruptErrorText: a best-effort recognition of an interrupt that cannot be extracted.
func IsInterruptErrorText(err error) bool {
	return err != nil && strings.Contains(err.Error(), "interrupt happened")
}
