// Package gspec is engine E1 of the harness: plain-data specifications of
// graphs / workflows / chains, a builder that turns a spec into real eino
// objects through the public API only, instrumented node bodies that write a
// per-run execution log, and independent reference interpreters (Pregel
// supersteps, all-predecessor, chain composition) written from the property
// statements.
package gspec

import (
	"fmt"
	"sort"
	"strings"
)

type Mode int

const (
	Pregel   Mode = iota // compose.Graph, default any-predecessor mode
	DAG                  // compose.Graph compiled with AllPredecessor
	Workflow             // compose.Workflow (all-predecessor, eager)
)

func (m Mode) String() string { return [...]string{"pregel", "dag", "workflow"}[m] }

type Kind int

const (
	Hash        Kind = iota // out = {key: H(key|canon(in))} (+ key_w when Wide)
	Rename                  // out = {key.k: v} for every k,v of in; native Transform is item-wise and lazy
	Passthrough             // AddPassthroughNode
	Sub                     // nested graph (NodeSpec.Sub)
	Collide                 // out = {"X": H(key|canon(in))}: provokes duplicate-key merges on purpose
)

// Paradigm bits: which of the four forms a lambda node natively implements.
const (
	PI = 1 << iota // Invoke
	PS             // Stream
	PC             // Collect
	PT             // Transform
)

type NodeSpec struct {
	Key   string `json:"key"`
	Kind  Kind   `json:"kind"`
	Para  int    `json:"para,omitempty"`  // bitmask of PI|PS|PC|PT, 0 = PI
	Wide  bool   `json:"wide,omitempty"`  // Hash nodes: second output key
	Chunk uint64 `json:"chunk,omitempty"` // seed of the output chunking plan
	// PipeCap >= 0: streamed output comes from a Pipe(cap) fed by a producer goroutine; -1: array-backed
	PipeCap int        `json:"pipe_cap"`
	Lazy    bool       `json:"lazy,omitempty"` // Transform form returns at once and works in a goroutine
	Pad     int        `json:"pad,omitempty"`  // extra (empty) chunks appended to the streamed output
	Sub     *GraphSpec `json:"sub,omitempty"`

	InputKey   string `json:"input_key,omitempty"`
	OutputKey  string `json:"output_key,omitempty"`
	Pre        bool   `json:"pre,omitempty"`  // state pre-handler
	Post       bool   `json:"post,omitempty"` // state post-handler
	StreamPre  bool   `json:"stream_pre,omitempty"`
	StreamPost bool   `json:"stream_post,omitempty"`
	OptType    int    `json:"opt_type,omitempty"` // which lambda option type the node takes (C16)
	Rerun      bool   `json:"rerun,omitempty"`    // first attempt returns InterruptAndRerun (needs Pre)
}

type EdgeSpec struct {
	From string `json:"from"`
	To   string `json:"to"`
	// Workflow only: data-only (WithNoDirectDependency) / control-only (AddDependency)
	NoControl bool `json:"no_control,omitempty"`
	NoData    bool `json:"no_data,omitempty"`
	// Workflow only: keys moved with MapFields(k,k); empty = the whole output
	Fields []string `json:"fields,omitempty"`
}

type BranchSpec struct {
	ID      string   `json:"id"`
	From    string   `json:"from"`
	Targets []string `json:"targets"` // >= 2, may contain END
	Multi   bool     `json:"multi,omitempty"`
	Stream  bool     `json:"stream,omitempty"` // stream condition
	// AllowEmpty: a multi branch may choose no target at all
	AllowEmpty bool `json:"allow_empty,omitempty"`
	// Prefix: a stream condition that decides from its salt only and reads just the first chunk
	Prefix bool `json:"prefix,omitempty"`
}

type GraphSpec struct {
	Name      string       `json:"name"` // path prefix of the nodes ("" for top level)
	Mode      Mode         `json:"mode"`
	Nodes     []NodeSpec   `json:"nodes"`
	Edges     []EdgeSpec   `json:"edges"`
	Branches  []BranchSpec `json:"branches,omitempty"`
	State     bool         `json:"state,omitempty"`
	MaxSteps  int          `json:"max_steps,omitempty"` // compile-time limit, 0 = default
	IntBefore []string     `json:"int_before,omitempty"`
	IntAfter  []string     `json:"int_after,omitempty"`
}

const (
	START = "start"
	END   = "end"
)

func (g *GraphSpec) Node(key string) *NodeSpec {
	for i := range g.Nodes {
		if g.Nodes[i].Key == key {
			return &g.Nodes[i]
		}
	}
	return nil
}

// Path returns the full path of a node of this graph.
func (g *GraphSpec) Path(key string) string {
	if g.Name == "" {
		return key
	}
	return g.Name + "/" + key
}

// Digest is a canonical rendering of the whole spec (for distinct counting).
func (g *GraphSpec) Digest() string {
	var b strings.Builder
	g.digest(&b)
	return b.String()
}

func (g *GraphSpec) digest(b *strings.Builder) {
	fmt.Fprintf(b, "G(%s,%d,st%v,ms%d,ib%v,ia%v)[", g.Name, g.Mode, g.State, g.MaxSteps, g.IntBefore, g.IntAfter)
	for _, n := range g.Nodes {
		fmt.Fprintf(b, "%s:%d:%d:%v:%d:%v:%s:%s:%v%v%v%v:%d:%v", n.Key, n.Kind, n.Para, n.Wide, n.PipeCap, n.Lazy, n.InputKey, n.OutputKey, n.Pre, n.Post, n.StreamPre, n.StreamPost, n.OptType, n.Rerun)
		if n.Sub != nil {
			n.Sub.digest(b)
		}
		b.WriteByte(';')
	}
	b.WriteString("]E[")
	es := make([]string, 0, len(g.Edges))
	for _, e := range g.Edges {
		es = append(es, fmt.Sprintf("%s>%s:%v%v%v", e.From, e.To, e.NoControl, e.NoData, e.Fields))
	}
	sort.Strings(es)
	b.WriteString(strings.Join(es, ","))
	b.WriteString("]B[")
	for _, br := range g.Branches {
		fmt.Fprintf(b, "%s>%v:%v%v%v%v;", br.From, br.Targets, br.Multi, br.Stream, br.AllowEmpty, br.Prefix)
	}
	b.WriteString("]")
}

// Shape is a coarser digest: structure without seeds/paradigms (distinct shapes).
func (g *GraphSpec) Shape() string {
	var b strings.Builder
	g.shape(&b)
	return b.String()
}

func (g *GraphSpec) shape(b *strings.Builder) {
	fmt.Fprintf(b, "%d[", g.Mode)
	for _, n := range g.Nodes {
		fmt.Fprintf(b, "%s:%d", n.Key, n.Kind)
		if n.Sub != nil {
			n.Sub.shape(b)
		}
		b.WriteByte(';')
	}
	es := make([]string, 0, len(g.Edges))
	for _, e := range g.Edges {
		es = append(es, fmt.Sprintf("%s>%s:%v%v%v", e.From, e.To, e.NoControl, e.NoData, e.Fields))
	}
	sort.Strings(es)
	b.WriteString(strings.Join(es, ","))
	for _, br := range g.Branches {
		fmt.Fprintf(b, "|%s>%v%v", br.From, br.Targets, br.Multi)
	}
	b.WriteString("]")
}

// AllNodePaths lists the full paths of all nodes, recursively.
func (g *GraphSpec) AllNodePaths() []string {
	var out []string
	for _, n := range g.Nodes {
		out = append(out, g.Path(n.Key))
		if n.Sub != nil {
			out = append(out, n.Sub.AllNodePaths()...)
		}
	}
	return out
}

// HasCycle reports whether the control/data/branch edges contain a cycle.
func (g *GraphSpec) HasCycle() bool {
	adj := map[string][]string{}
	for _, e := range g.Edges {
		adj[e.From] = append(adj[e.From], e.To)
	}
	for _, b := range g.Branches {
		adj[b.From] = append(adj[b.From], b.Targets...)
	}
	state := map[string]int{}
	var visit func(n string) bool
	visit = func(n string) bool {
		switch state[n] {
		case 1:
			return true
		case 2:
			return false
		}
		state[n] = 1
		for _, m := range adj[n] {
			if visit(m) {
				return true
			}
		}
		state[n] = 2
		return false
	}
	for n := range adj {
		if visit(n) {
			return true
		}
	}
	return false
}
