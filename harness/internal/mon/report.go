package mon

import (
	"encoding/binary"
	"encoding/json"
	"fmt"
	"os"
	"strconv"
	"strings"
	"sync"
)

// Config is what the driver tells a child process through the environment.
type Config struct {
	Property string
	Seed     uint64
	Tier     string // "quick" | "thorough"
	Shard    int
	Shards   int
	Out      string // path of the shard report (JSON); side files use it as prefix
	// Replay: run only this case index (-1: all).
	ReplayCase int64
}

func (c Config) Thorough() bool { return c.Tier == "thorough" }

// Pick returns q in the quick tier and t in the thorough tier.
func (c Config) Pick(q, t int) int {
	if c.Thorough() {
		return t
	}
	return q
}

// Load reads the configuration from the environment (defaults allow running a
// check package directly with `go test`).
func Load(property string) Config {
	c := Config{Property: property, Seed: 1, Tier: "quick", Shard: 0, Shards: 1, ReplayCase: -1}
	if v := os.Getenv("VERIF_SEED"); v != "" {
		if n, err := strconv.ParseInt(v, 10, 64); err == nil {
			c.Seed = uint64(n)
		}
	}
	if v := os.Getenv("VERIF_TIER"); v == "thorough" {
		c.Tier = "thorough"
	}
	if v := os.Getenv("VERIF_SHARD"); v != "" {
		parts := strings.Split(v, "/")
		if len(parts) == 2 {
			c.Shard, _ = strconv.Atoi(parts[0])
			c.Shards, _ = strconv.Atoi(parts[1])
			if c.Shards < 1 {
				c.Shards = 1
			}
		}
	}
	c.Out = os.Getenv("VERIF_OUT")
	if v := os.Getenv("VERIF_REPLAY_CASE"); v != "" {
		if n, err := strconv.ParseInt(v, 10, 64); err == nil {
			c.ReplayCase = n
		}
	}
	return c
}

// CaseRef identifies a case so that it can be replayed.
type CaseRef struct {
	Seed   uint64 `json:"seed"`
	Tier   string `json:"tier"`
	Shard  int    `json:"shard"`
	Shards int    `json:"shards"`
	Index  int64  `json:"index"`
}

type Violation struct {
	Signature string  `json:"signature"`
	Detail    string  `json:"detail"`
	Case      CaseRef `json:"case"`
	Witness   any     `json:"witness,omitempty"`
}

// ShardReport is the JSON a child writes when it finishes.
type ShardReport struct {
	Property      string           `json:"property"`
	Config        CaseRef          `json:"config"`
	Level         string           `json:"level"`
	Rule          string           `json:"rule"`
	Assumptions   []string         `json:"assumptions"`
	MinNonTrivial int              `json:"min_nontrivial"`
	Exhaustive    bool             `json:"exhaustive"`
	Evaluations   int64            `json:"evaluations"`
	NonTrivial    int64            `json:"nontrivial_local"`
	Counters      map[string]int64 `json:"counters"`
	DistinctKeys  []string         `json:"distinct_keys"`
	Violations    []Violation      `json:"violations"`
	Samples       []any            `json:"samples"`
	Inconclusive  []string         `json:"inconclusive"`
	Required      map[string]int64 `json:"required"` // counter name -> minimum (else inconclusive)
	Done          bool             `json:"done"`
}

// Reporter collects what a child observed. Safe for concurrent use.
type Reporter struct {
	mu         sync.Mutex
	cfg        Config
	rep        ShardReport
	distinct   map[string]map[uint64]struct{}
	caseFile   *os.File
	cur        int64
	sigSeen    map[string]int
	maxSamples int
}

const nonTrivialKey = "_nontrivial"

func NewReporter(cfg Config, level, rule string, assumptions []string, minNonTrivial int) *Reporter {
	r := &Reporter{cfg: cfg, distinct: map[string]map[uint64]struct{}{}, sigSeen: map[string]int{}, maxSamples: 6, cur: -1}
	r.rep = ShardReport{
		Property: cfg.Property, Level: level, Rule: rule, Assumptions: assumptions,
		MinNonTrivial: minNonTrivial,
		Config:        CaseRef{Seed: cfg.Seed, Tier: cfg.Tier, Shard: cfg.Shard, Shards: cfg.Shards, Index: -1},
		Counters:      map[string]int64{}, Required: map[string]int64{},
	}
	if cfg.Out != "" {
		f, err := os.OpenFile(cfg.Out+".cases", os.O_CREATE|os.O_WRONLY|os.O_TRUNC, 0o644)
		if err == nil {
			r.caseFile = f
		}
	}
	return r
}

func (r *Reporter) Config() Config { return r.cfg }

// ShardRand returns the generator of this shard (seed ⊕ hash(property, shard)).
func (r *Reporter) ShardRand() *Rand {
	return Fork(r.cfg.Seed, r.cfg.Property, "shard", strconv.Itoa(r.cfg.Shard), strconv.Itoa(r.cfg.Shards), r.cfg.Tier)
}

// CaseRand returns the generator of case idx of this shard; a pure function of
// (seed, property, tier, shard, idx).
func (r *Reporter) CaseRand(idx int64) *Rand {
	return Fork(r.cfg.Seed, r.cfg.Property, "case", r.cfg.Tier, strconv.Itoa(r.cfg.Shard), strconv.Itoa(r.cfg.Shards), strconv.FormatInt(idx, 10))
}

// Cases iterates over the case indices this child must run: 0..n-1, or only the
// replayed one. n is the per-shard case count.
func (r *Reporter) Cases(n int64, fn func(idx int64, rng *Rand)) {
	if r.cfg.ReplayCase >= 0 {
		// VERIF_REPLAY_BEFORE=k also runs the k cases before it (for violations that depend on
		// what an earlier case left behind, e.g. straggler goroutines)
		first := r.cfg.ReplayCase
		if v := os.Getenv("VERIF_REPLAY_BEFORE"); v != "" {
			if k, err := strconv.ParseInt(v, 10, 64); err == nil && k > 0 {
				first -= k
				if first < 0 {
					first = 0
				}
			}
		}
		for i := first; i <= r.cfg.ReplayCase; i++ {
			r.Begin(i, "replay")
			fn(i, r.CaseRand(i))
		}
		return
	}
	for i := int64(0); i < n; i++ {
		r.Begin(i, "")
		fn(i, r.CaseRand(i))
	}
}

// Begin records, before the case starts, which case is about to run: if the
// process dies, the driver attributes the crash to this case.
func (r *Reporter) Begin(idx int64, note string) {
	r.mu.Lock()
	r.cur = idx
	r.rep.Evaluations++
	f := r.caseFile
	r.mu.Unlock()
	if f != nil {
		fmt.Fprintf(f, "CASE %d %s\n", idx, note)
	}
}

// AddEvaluations counts additional executions performed inside the current case.
func (r *Reporter) AddEvaluations(n int64) {
	r.mu.Lock()
	r.rep.Evaluations += n
	r.mu.Unlock()
}

func (r *Reporter) Ref() CaseRef {
	r.mu.Lock()
	defer r.mu.Unlock()
	c := r.rep.Config
	c.Index = r.cur
	return c
}

// NonTrivial records the digest of a case that is non-trivial by the check's rule.
func (r *Reporter) NonTrivial(digest string) { r.Distinct(nonTrivialKey, digest) }

// Distinct records a digest under a named set (distinct interleavings, shapes …).
func (r *Reporter) Distinct(set, digest string) {
	h := HashStr(digest)
	r.mu.Lock()
	m := r.distinct[set]
	if m == nil {
		m = map[uint64]struct{}{}
		r.distinct[set] = m
	}
	m[h] = struct{}{}
	r.mu.Unlock()
}

func (r *Reporter) Count(key string, n int64) {
	r.mu.Lock()
	r.rep.Counters[key] += n
	r.mu.Unlock()
}

// Require declares that counter key must reach min, otherwise the run is inconclusive.
func (r *Reporter) Require(key string, min int64) {
	r.mu.Lock()
	r.rep.Required[key] = min
	r.mu.Unlock()
}

func (r *Reporter) Sample(v any) {
	r.mu.Lock()
	if len(r.rep.Samples) < r.maxSamples {
		r.rep.Samples = append(r.rep.Samples, v)
	}
	r.mu.Unlock()
}

func (r *Reporter) SetExhaustive(b bool) {
	r.mu.Lock()
	r.rep.Exhaustive = b
	r.mu.Unlock()
}

func (r *Reporter) Inconclusive(reason string) {
	r.mu.Lock()
	if len(r.rep.Inconclusive) < 20 {
		r.rep.Inconclusive = append(r.rep.Inconclusive, reason)
	}
	r.mu.Unlock()
}

// Violation records a violation of the property with a narrow, stable signature.
// At most 3 witnesses per signature are kept; the rest is only counted.
func (r *Reporter) Violation(signature, detail string, witness any) {
	r.mu.Lock()
	defer r.mu.Unlock()
	r.sigSeen[signature]++
	r.rep.Counters["violations_total"]++
	if r.sigSeen[signature] > 3 {
		return
	}
	c := r.rep.Config
	c.Index = r.cur
	if len(detail) > 4000 {
		detail = detail[:4000] + "…"
	}
	r.rep.Violations = append(r.rep.Violations, Violation{Signature: signature, Detail: detail, Case: c, Witness: witness})
}

func (r *Reporter) Violations() int {
	r.mu.Lock()
	defer r.mu.Unlock()
	return len(r.rep.Violations)
}

// Flush writes the shard report; Done=true tells the driver the child ended normally.
func (r *Reporter) Flush() error {
	r.mu.Lock()
	defer r.mu.Unlock()
	r.rep.Done = true
	r.rep.NonTrivial = int64(len(r.distinct[nonTrivialKey]))
	r.rep.DistinctKeys = nil
	for k := range r.distinct {
		r.rep.DistinctKeys = append(r.rep.DistinctKeys, k)
	}
	if r.caseFile != nil {
		r.caseFile.Close()
		r.caseFile = nil
	}
	if r.cfg.Out == "" {
		// direct `go test` run: print a summary
		b, _ := json.MarshalIndent(r.rep, "", " ")
		fmt.Println(string(b))
		for k, m := range r.distinct {
			fmt.Printf("distinct[%s]=%d\n", k, len(m))
		}
		return nil
	}
	for k, m := range r.distinct {
		buf := make([]byte, 0, 8*len(m))
		for h := range m {
			buf = binary.LittleEndian.AppendUint64(buf, h)
		}
		if err := os.WriteFile(r.cfg.Out+".distinct."+k, buf, 0o644); err != nil {
			return err
		}
	}
	b, err := json.Marshal(r.rep)
	if err != nil {
		// a witness that cannot be marshalled must not hide the violation
		for i := range r.rep.Violations {
			r.rep.Violations[i].Witness = fmt.Sprintf("%+v", r.rep.Violations[i].Witness)
		}
		r.rep.Samples = []any{fmt.Sprintf("%+v", r.rep.Samples)}
		b, err = json.Marshal(r.rep)
		if err != nil {
			return err
		}
	}
	return os.WriteFile(r.cfg.Out, b, 0o644)
}
