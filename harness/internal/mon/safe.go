package mon

import (
	"fmt"
	"runtime/debug"
	"sort"
	"strings"
)

// Panic describes a panic captured on the calling goroutine.
type Panic struct {
	Value string
	Stack string
}

// Safe runs fn and captures a panic of the calling goroutine.
func Safe(fn func()) (p *Panic) {
	defer func() {
		if r := recover(); r != nil {
			p = &Panic{Value: fmt.Sprint(r), Stack: string(debug.Stack())}
		}
	}()
	fn()
	return nil
}

// FirstFrame returns the first frame of the panic stack that contains sub
// (function name only), or "".
func (p *Panic) FirstFrame(sub string) string {
	for _, l := range strings.Split(p.Stack, "\n") {
		if strings.HasPrefix(l, "\t") {
			continue
		}
		if strings.Contains(l, sub) && !strings.Contains(l, "panic") {
			if i := strings.LastIndexByte(l, '('); i > 0 {
				l = l[:i]
			}
			return l
		}
	}
	return ""
}

// Canon renders a map[string]any with string-ish leaves deterministically.
func Canon(v any) string {
	switch x := v.(type) {
	case nil:
		return "<nil>"
	case string:
		return x
	case map[string]any:
		ks := make([]string, 0, len(x))
		for k := range x {
			ks = append(ks, k)
		}
		sort.Strings(ks)
		var b strings.Builder
		b.WriteByte('{')
		for i, k := range ks {
			if i > 0 {
				b.WriteByte(',')
			}
			b.WriteString(k)
			b.WriteByte('=')
			b.WriteString(Canon(x[k]))
		}
		b.WriteByte('}')
		return b.String()
	case map[string]string:
		m := make(map[string]any, len(x))
		for k, v := range x {
			m[k] = v
		}
		return Canon(m)
	default:
		return fmt.Sprintf("%v", v)
	}
}

// H8 is an 8-hex-digit digest used as deterministic node output.
func H8(s string) string {
	return fmt.Sprintf("%08x", uint32(HashStr(s)>>16))
}
