package mon

import (
	"runtime"
	"strconv"
	"strings"
	"time"
)

// G is one goroutine of a runtime.Stack(all) dump.
type G struct {
	ID     int
	State  string   // e.g. "chan receive", "select", "running", "sync.Mutex.Lock"
	Frames []string // function names, innermost first
	Raw    string
}

// Has reports whether any frame contains sub.
func (g G) Has(sub string) bool {
	for _, f := range g.Frames {
		if strings.Contains(f, sub) {
			return true
		}
	}
	return false
}

// Active reports whether the goroutine can make progress on its own (or is
// waiting for a timer). Only the explicitly known parked states (blocked on a
// channel, select, mutex, cond, wait group, semaphore) count as not active, so
// an unknown state can never contribute to a "stuck" verdict.
func (g G) Active() bool {
	s := g.State
	if strings.HasPrefix(s, "semacquire") {
		// a goroutine waiting on a runtime-internal semaphore (gcStart, stop-the-world, the
		// worldsema taken by runtime.Stack itself) also shows "semacquire", and hidden runtime
		// goroutines will wake it: only a semaphore wait below a sync.* frame counts as parked
		return !g.Has("sync.")
	}
	for _, p := range []string{"chan receive", "chan send", "select", "sync.Mutex.Lock", "sync.RWMutex.",
		"sync.Cond.Wait", "sync.WaitGroup.Wait", "finalizer wait"} {
		if strings.HasPrefix(s, p) {
			return false
		}
	}
	return true
}

// Dump parses runtime.Stack(all=true). The first goroutine is the caller.
func Dump() []G {
	buf := make([]byte, 1<<16)
	for {
		n := runtime.Stack(buf, true)
		if n < len(buf) {
			buf = buf[:n]
			break
		}
		buf = make([]byte, 2*len(buf))
	}
	var gs []G
	for _, blk := range strings.Split(string(buf), "\n\n") {
		blk = strings.TrimSpace(blk)
		if !strings.HasPrefix(blk, "goroutine ") {
			continue
		}
		lines := strings.Split(blk, "\n")
		hdr := lines[0]
		g := G{Raw: blk}
		rest := strings.TrimPrefix(hdr, "goroutine ")
		sp := strings.IndexByte(rest, ' ')
		if sp < 0 {
			continue
		}
		g.ID, _ = strconv.Atoi(rest[:sp])
		lb, rb := strings.IndexByte(rest, '['), strings.LastIndexByte(rest, ']')
		if lb >= 0 && rb > lb {
			st := rest[lb+1 : rb]
			if c := strings.IndexByte(st, ','); c >= 0 {
				st = st[:c]
			}
			g.State = st
		}
		for _, l := range lines[1:] {
			if strings.HasPrefix(l, "\t") {
				continue
			}
			l = strings.TrimPrefix(l, "created by ")
			if p := strings.LastIndexByte(l, '('); p > 0 {
				l = l[:p]
			}
			if in := strings.Index(l, " in goroutine"); in > 0 {
				l = l[:in]
			}
			g.Frames = append(g.Frames, l)
		}
		gs = append(gs, g)
	}
	return gs
}

// ignorable goroutines: the Go runtime's and the test framework's own helpers.
func ignorable(g G) bool {
	return g.Has("os/signal.") || g.Has("runtime.ensureSigM") || g.Has("testing.(*T).Parallel") ||
		g.Has("runtime/trace.") || g.Has("testing.runFuzz")
}

// quiescentNow: no goroutine other than the caller (first entry) is active.
func quiescentNow(gs []G) bool {
	for i, g := range gs {
		if i == 0 || ignorable(g) {
			continue
		}
		if g.Active() {
			return false
		}
	}
	return true
}

// Settle samples the goroutine states until the process is quiescent (every
// goroutine other than the caller is parked, no timer-sleeper) on `need`
// consecutive samples. ok=false means the budget of samples ran out
// (inconclusive). The returned dump is the last sample.
func Settle(need, maxSamples int) (gs []G, ok bool) {
	streak := 0
	for i := 0; i < maxSamples; i++ {
		for k := 0; k < 4; k++ {
			runtime.Gosched()
		}
		if i > 8 {
			time.Sleep(time.Duration(50+10*i) * time.Microsecond)
		}
		gs = Dump()
		if quiescentNow(gs) {
			streak++
			if streak >= need {
				return gs, true
			}
		} else {
			streak = 0
		}
	}
	return gs, false
}

// SettleIgnoring is Settle for a caller that is not the only harness goroutine awake: goroutines
// with a frame containing one of subs (e.g. the main goroutine polling in "mon.WaitDone") are not
// looked at.
func SettleIgnoring(need, maxSamples int, subs ...string) (gs []G, ok bool) {
	streak := 0
	for i := 0; i < maxSamples; i++ {
		for k := 0; k < 4; k++ {
			runtime.Gosched()
		}
		if i > 8 {
			time.Sleep(time.Duration(50+10*i) * time.Microsecond)
		}
		gs = Dump()
		q := true
		for j, g := range gs {
			if j == 0 || ignorable(g) || !g.Active() {
				continue
			}
			skip := false
			for _, s := range subs {
				if g.Has(s) {
					skip = true
				}
			}
			if !skip {
				q = false
				break
			}
		}
		if q {
			streak++
			if streak >= need {
				return gs, true
			}
		} else {
			streak = 0
		}
	}
	return gs, false
}

// WaitResult is the three-valued outcome of waiting for a workload.
type WaitResult int

const (
	Finished     WaitResult = iota // done was closed
	Stuck                          // process quiescent while the workload is unfinished: it can never finish
	Inconclusive                   // wall-clock watchdog fired while goroutines were still active
)

// WaitDone waits for done. It never uses a deadline as a verdict: Stuck is only
// returned when the whole process is quiescent (state-based proof that nothing
// can move any more, given that the harness owns all inputs and starts no
// timers); watchdog is a generous wall-clock limit whose firing is Inconclusive.
func WaitDone(done <-chan struct{}, watchdog time.Duration) (WaitResult, []G) {
	for i := 0; i < 400; i++ {
		select {
		case <-done:
			return Finished, nil
		default:
			runtime.Gosched()
		}
	}
	start := time.Now()
	// A dump stops the world and costs time proportional to the number of goroutines of the process
	// (goroutines of node bodies that earlier FAILED runs left blocked on a send stay around): most runs
	// finish within a few milliseconds, so wait that long before the first dump, and never spend more
	// than about a third of the waiting time on dumping. Only the latency of a Stuck verdict changes.
	first := time.NewTimer(2 * time.Millisecond)
	select {
	case <-done:
		first.Stop()
		return Finished, nil
	case <-first.C:
	}
	streak := 0
	sleep := 20 * time.Microsecond
	for {
		select {
		case <-done:
			return Finished, nil
		default:
		}
		time.Sleep(sleep)
		if sleep < 2*time.Millisecond {
			sleep *= 2
		}
		t0 := time.Now()
		gs := Dump()
		if d := 2 * time.Since(t0); sleep < d {
			sleep = d
		}
		select {
		case <-done:
			return Finished, nil
		default:
		}
		if quiescentNow(gs) {
			streak++
			if sleep < 500*time.Microsecond {
				sleep = 500 * time.Microsecond // consecutive samples are spread over several milliseconds
			}
			if streak >= 6 {
				// done cannot be closed any more: every goroutine that could close it is parked.
				select {
				case <-done:
					return Finished, nil
				default:
				}
				return Stuck, gs
			}
		} else {
			streak = 0
		}
		if time.Since(start) > watchdog {
			return Inconclusive, gs
		}
	}
}

// Parked returns the goroutines of a (quiescent) dump, other than the caller,
// that have a frame containing one of subs.
func Parked(gs []G, subs ...string) []G {
	var out []G
	for i, g := range gs {
		if i == 0 || ignorable(g) {
			continue
		}
		for _, s := range subs {
			if g.Has(s) {
				out = append(out, g)
				break
			}
		}
	}
	return out
}

// Signature renders a parked goroutine as "state@innermost non-runtime frame".
func (g G) Signature() string {
	for _, f := range g.Frames {
		if strings.HasPrefix(f, "runtime.") || strings.HasPrefix(f, "sync.") || strings.HasPrefix(f, "internal/") {
			continue
		}
		return g.State + "@" + f
	}
	return g.State
}
