// Package mon is the shared monitor library of the verification harness:
// deterministic PRNG, shard/case bookkeeping, report writer, quiescence
// (goroutine-state) monitor, panic capture, canonical rendering.
package mon

import (
	"hash/fnv"
	"sort"
)

// Rand is a splitmix64 generator. Every generated case is a pure function of
// (VERIF_SEED, shard, case index): no time, no global state.
type Rand struct{ s uint64 }

func NewRand(seed uint64) *Rand { return &Rand{s: seed} }

func (r *Rand) Uint64() uint64 {
	r.s += 0x9e3779b97f4a7c15
	z := r.s
	z = (z ^ (z >> 30)) * 0xbf58476d1ce4e5b9
	z = (z ^ (z >> 27)) * 0x94d049bb133111eb
	return z ^ (z >> 31)
}

// Intn returns a value in [0,n). n<=0 returns 0.
func (r *Rand) Intn(n int) int {
	if n <= 0 {
		return 0
	}
	return int(r.Uint64() % uint64(n))
}

// Range returns a value in [lo,hi].
func (r *Rand) Range(lo, hi int) int {
	if hi <= lo {
		return lo
	}
	return lo + r.Intn(hi-lo+1)
}

func (r *Rand) Bool() bool { return r.Uint64()&1 == 1 }

// Prob returns true with probability p.
func (r *Rand) Prob(p float64) bool {
	return float64(r.Uint64()>>11)/float64(1<<53) < p
}

func (r *Rand) Float() float64 { return float64(r.Uint64()>>11) / float64(1<<53) }

func (r *Rand) Perm(n int) []int {
	p := make([]int, n)
	for i := range p {
		p[i] = i
	}
	for i := n - 1; i > 0; i-- {
		j := r.Intn(i + 1)
		p[i], p[j] = p[j], p[i]
	}
	return p
}

// Sub derives an independent generator from the current one and a label.
func (r *Rand) Sub(label string) *Rand {
	return NewRand(r.Uint64() ^ HashStr(label))
}

// Fork derives an independent generator without consuming randomness from r.
func Fork(seed uint64, labels ...string) *Rand {
	h := seed
	for _, l := range labels {
		h = mix(h ^ HashStr(l))
	}
	return NewRand(h)
}

func mix(z uint64) uint64 {
	z = (z ^ (z >> 30)) * 0xbf58476d1ce4e5b9
	z = (z ^ (z >> 27)) * 0x94d049bb133111eb
	return z ^ (z >> 31)
}

const alphabet = "abcdefghijklmnopqrstuvwxyz"

// Str returns a random lower-case string of length in [lo,hi].
func (r *Rand) Str(lo, hi int) string {
	n := r.Range(lo, hi)
	b := make([]byte, n)
	for i := range b {
		b[i] = alphabet[r.Intn(len(alphabet))]
	}
	return string(b)
}

func PickOne[T any](r *Rand, xs []T) T { return xs[r.Intn(len(xs))] }

// HashStr is FNV-64a.
func HashStr(s string) uint64 {
	h := fnv.New64a()
	h.Write([]byte(s))
	return h.Sum64()
}

// SortedKeys returns the sorted keys of a string-keyed map.
func SortedKeys[V any](m map[string]V) []string {
	ks := make([]string, 0, len(m))
	for k := range m {
		ks = append(ks, k)
	}
	sort.Strings(ks)
	return ks
}
