// vcheck is the driver of the verification harness: it rebuilds the check's
// test binary against /repo's current working tree (tag verif), runs it as
// sharded child processes, merges their reports, matches violations against
// known_findings.json, writes evidence/<id>.json and prints verdict lines.
//
// exit 0: held on everything explored (KNOWN-FINDING lines allowed)
// exit 1: VIOLATION property=<id> replay=<path>
// exit 2: build / harness error      exit 3: inconclusive
package main

import (
	"bytes"
	"encoding/binary"
	"encoding/json"
	"fmt"
	"os"
	"os/exec"
	"path/filepath"
	"regexp"
	"sort"
	"strconv"
	"strings"
	"sync"
	"time"

	"verifharness/internal/mon"
)

type checkCfg struct {
	Race           bool
	ShardsQuick    int
	ShardsThorough int
	TimeoutQuick   int // seconds, wall-clock watchdog per child (inconclusive when it fires)
	TimeoutThor    int
	Env            []string
}

var checks = map[string]checkCfg{
	"C01": {Race: true, ShardsQuick: 8, ShardsThorough: 16, TimeoutQuick: 600, TimeoutThor: 7200},
	"C02": {Race: true, ShardsQuick: 8, ShardsThorough: 16, TimeoutQuick: 600, TimeoutThor: 7200},
	"C03": {Race: true, ShardsQuick: 8, ShardsThorough: 16, TimeoutQuick: 600, TimeoutThor: 7200},
	"C04": {Race: true, ShardsQuick: 8, ShardsThorough: 16, TimeoutQuick: 600, TimeoutThor: 7200},
	"C05": {Race: false, ShardsQuick: 8, ShardsThorough: 16, TimeoutQuick: 600, TimeoutThor: 7200},
	"C06": {Race: false, ShardsQuick: 8, ShardsThorough: 16, TimeoutQuick: 600, TimeoutThor: 7200},
	"C07": {Race: false, ShardsQuick: 8, ShardsThorough: 16, TimeoutQuick: 600, TimeoutThor: 7200},
	"C08": {Race: true, ShardsQuick: 8, ShardsThorough: 16, TimeoutQuick: 600, TimeoutThor: 7200},
	"C09": {Race: true, ShardsQuick: 8, ShardsThorough: 16, TimeoutQuick: 600, TimeoutThor: 7200},
	"C10": {Race: true, ShardsQuick: 8, ShardsThorough: 16, TimeoutQuick: 600, TimeoutThor: 7200},
	"C11": {Race: true, ShardsQuick: 8, ShardsThorough: 16, TimeoutQuick: 600, TimeoutThor: 7200},
	"C12": {Race: false, ShardsQuick: 8, ShardsThorough: 16, TimeoutQuick: 600, TimeoutThor: 7200},
	"C13": {Race: true, ShardsQuick: 8, ShardsThorough: 16, TimeoutQuick: 600, TimeoutThor: 7200},
	"C14": {Race: false, ShardsQuick: 8, ShardsThorough: 16, TimeoutQuick: 600, TimeoutThor: 7200},
	"C15": {Race: false, ShardsQuick: 8, ShardsThorough: 16, TimeoutQuick: 600, TimeoutThor: 7200},
	"C16": {Race: true, ShardsQuick: 8, ShardsThorough: 16, TimeoutQuick: 600, TimeoutThor: 7200},
	"C17": {Race: true, ShardsQuick: 8, ShardsThorough: 16, TimeoutQuick: 600, TimeoutThor: 7200},
	"C18": {Race: true, ShardsQuick: 8, ShardsThorough: 16, TimeoutQuick: 600, TimeoutThor: 7200},
	"C19": {Race: true, ShardsQuick: 8, ShardsThorough: 16, TimeoutQuick: 600, TimeoutThor: 7200},
	"C20": {Race: false, ShardsQuick: 8, ShardsThorough: 16, TimeoutQuick: 600, TimeoutThor: 7200},
}

var (
	root    string // /verif
	harness string // /verif/harness
)

func goEnv() []string {
	env := os.Environ()
	env = append(env, "GOFLAGS=-mod=mod", "GOPROXY=off", "GOSUMDB=off", "GOTOOLCHAIN=local")
	return env
}

type finding struct {
	Property  string `json:"property"`
	Status    string `json:"status"` // open | fixed
	Signature string `json:"signature"`
	What      string `json:"what"`
	Commit    string `json:"commit,omitempty"`
}

type replayFile struct {
	Property  string      `json:"property"`
	Signature string      `json:"signature"`
	Detail    string      `json:"detail"`
	Case      mon.CaseRef `json:"case"`
	Witness   any         `json:"witness,omitempty"`
	Count     int         `json:"occurrences_in_run"`
	HowTo     string      `json:"how_to_replay"`
}

func main() {
	if len(os.Args) < 3 {
		fmt.Fprintln(os.Stderr, "usage: vcheck <ID> <quick|thorough> [--replay file] [--build-only]")
		os.Exit(2)
	}
	root = os.Getenv("VERIF_ROOT")
	if root == "" {
		root = "/verif"
	}
	harness = filepath.Join(root, "harness")
	id := strings.ToUpper(os.Args[1])
	tier := os.Args[2]
	replay := ""
	buildOnly := false
	for i := 3; i < len(os.Args); i++ {
		switch os.Args[i] {
		case "--replay":
			if i+1 < len(os.Args) {
				replay = os.Args[i+1]
				i++
			}
		case "--build-only":
			buildOnly = true
		}
	}
	if v := os.Getenv("VERIF_TIER"); v == "quick" || v == "thorough" {
		if tier != "quick" && tier != "thorough" {
			tier = v
		}
	}
	if tier != "quick" && tier != "thorough" {
		fmt.Fprintln(os.Stderr, "tier must be quick or thorough")
		os.Exit(2)
	}
	cfg, ok := checks[id]
	if !ok {
		fmt.Fprintf(os.Stderr, "unknown check %s\n", id)
		os.Exit(2)
	}
	code := run(id, tier, cfg, replay, buildOnly)
	// build outputs against a scratch copy of eino are single-use: remove them (VERIF_KEEP_BUILD=1 keeps them)
	if alt := os.Getenv("VERIF_REPO"); alt != "" && alt != "/repo" && os.Getenv("VERIF_KEEP_BUILD") == "" && !buildOnly {
		tag := fmt.Sprintf("%016x", mon.HashStr(alt))
		bdir := filepath.Join(root, "build")
		os.Remove(filepath.Join(bdir, strings.ToLower(id)+"."+tag+".test"))
		os.Remove(filepath.Join(bdir, "go."+tag+".mod"))
		os.Remove(filepath.Join(bdir, "go."+tag+".sum"))
		for _, t := range []string{"quick", "thorough"} {
			if t == tier && code == 0 {
				os.RemoveAll(filepath.Join(bdir, fmt.Sprintf("run-%s-%s-%s", strings.ToLower(id), t, tag)))
			}
		}
	}
	os.Exit(code)
}

func build(id string, cfg checkCfg) (string, error) {
	bdir := filepath.Join(root, "build")
	os.MkdirAll(bdir, 0o755)
	bin := filepath.Join(bdir, strings.ToLower(id)+".test")
	args := []string{"test", "-c", "-tags", "verif", "-vet=off", "-o", bin}
	// VERIF_REPO=<dir> builds against a scratch copy of eino instead of /repo
	// (used only to confront a check with mutants; registered commands never set it).
	if alt := os.Getenv("VERIF_REPO"); alt != "" && alt != "/repo" {
		gm, err := os.ReadFile(filepath.Join(harness, "go.mod"))
		if err != nil {
			return "", err
		}
		mod := strings.Replace(string(gm), "=> /repo", "=> "+alt, 1)
		tag := fmt.Sprintf("%016x", mon.HashStr(alt))
		bin = filepath.Join(bdir, strings.ToLower(id)+"."+tag+".test")
		args[len(args)-1] = bin
		mf := filepath.Join(bdir, "go."+tag+".mod")
		os.WriteFile(mf, []byte(mod), 0o644)
		if gs, err := os.ReadFile(filepath.Join(harness, "go.sum")); err == nil {
			os.WriteFile(filepath.Join(bdir, "go."+tag+".sum"), gs, 0o644)
		}
		args = append(args, "-modfile="+mf)
	}
	if cfg.Race {
		args = append(args, "-race")
	}
	args = append(args, "./checks/"+strings.ToLower(id))
	cmd := exec.Command("go", args...)
	cmd.Dir = harness
	cmd.Env = goEnv()
	out, err := cmd.CombinedOutput()
	if err != nil {
		return "", fmt.Errorf("%v\n%s", err, out)
	}
	return bin, nil
}

type shardResult struct {
	idx      int
	rep      *mon.ShardReport
	exit     int
	log      string
	lastCase string
	outPath  string
}

func run(id, tier string, cfg checkCfg, replay string, buildOnly bool) int {
	t0 := time.Now()
	seed := uint64(1)
	if v := os.Getenv("VERIF_SEED"); v != "" {
		if n, err := strconv.ParseInt(v, 10, 64); err == nil {
			seed = uint64(n)
		}
	}
	bin, err := build(id, cfg)
	if err != nil {
		fmt.Printf("BUILD-FAILED property=%s\n%s\n", id, err)
		return 2
	}
	if buildOnly {
		return 0
	}
	shards := cfg.ShardsQuick
	timeout := cfg.TimeoutQuick
	if tier == "thorough" {
		shards, timeout = cfg.ShardsThorough, cfg.TimeoutThor
	}
	if v := os.Getenv("VERIF_SHARDS"); v != "" {
		if n, err := strconv.Atoi(v); err == nil && n > 0 {
			shards = n
		}
	}
	var rp *replayFile
	if replay != "" {
		b, err := os.ReadFile(replay)
		if err != nil {
			fmt.Fprintf(os.Stderr, "cannot read replay file: %v\n", err)
			return 2
		}
		rp = &replayFile{}
		if err := json.Unmarshal(b, rp); err != nil {
			fmt.Fprintf(os.Stderr, "bad replay file: %v\n", err)
			return 2
		}
		seed, tier, shards = rp.Case.Seed, rp.Case.Tier, rp.Case.Shards
	}
	outdir := filepath.Join(root, "build", fmt.Sprintf("run-%s-%s", strings.ToLower(id), tier))
	altRepo := ""
	if alt := os.Getenv("VERIF_REPO"); alt != "" && alt != "/repo" {
		altRepo = alt
		outdir += fmt.Sprintf("-%016x", mon.HashStr(alt))
	}
	os.RemoveAll(outdir)
	os.MkdirAll(outdir, 0o755)

	results := make([]*shardResult, shards)
	var wg sync.WaitGroup
	sem := make(chan struct{}, 16)
	for i := 0; i < shards; i++ {
		if rp != nil && i != rp.Case.Shard {
			continue
		}
		wg.Add(1)
		go func(i int) {
			defer wg.Done()
			sem <- struct{}{}
			defer func() { <-sem }()
			out := filepath.Join(outdir, fmt.Sprintf("shard%d.json", i))
			logp := filepath.Join(outdir, fmt.Sprintf("shard%d.log", i))
			lf, _ := os.Create(logp)
			cmd := exec.Command("timeout", "-s", "QUIT", "-k", "20", strconv.Itoa(timeout), bin,
				"-test.run", "^TestCheck$", "-test.timeout", "0", "-test.count", "1", "-test.v")
			cmd.Dir = outdir
			cmd.Stdout, cmd.Stderr = lf, lf
			env := append(os.Environ(),
				"VERIF_SEED="+strconv.FormatUint(seed, 10),
				"VERIF_TIER="+tier,
				fmt.Sprintf("VERIF_SHARD=%d/%d", i, shards),
				"VERIF_OUT="+out,
				"GOTRACEBACK=all",
			)
			if rp != nil {
				env = append(env, "VERIF_REPLAY_CASE="+strconv.FormatInt(rp.Case.Index, 10))
			}
			if cfg.Race {
				env = append(env, fmt.Sprintf("GORACE=halt_on_error=0 log_path=%s/race.%d", outdir, i))
			}
			env = append(env, cfg.Env...)
			cmd.Env = env
			err := cmd.Run()
			lf.Close()
			res := &shardResult{idx: i, outPath: out}
			if err != nil {
				if ee, ok := err.(*exec.ExitError); ok {
					res.exit = ee.ExitCode()
				} else {
					res.exit = -1
				}
			}
			if b, err := os.ReadFile(out); err == nil {
				var rep mon.ShardReport
				if json.Unmarshal(b, &rep) == nil {
					res.rep = &rep
				}
			}
			if b, err := os.ReadFile(logp); err == nil {
				res.log = string(b)
			}
			if b, err := os.ReadFile(out + ".cases"); err == nil {
				lines := strings.Split(strings.TrimSpace(string(b)), "\n")
				res.lastCase = lines[len(lines)-1]
			}
			results[i] = res
		}(i)
	}
	wg.Wait()

	// ---- merge
	var (
		evals        int64
		counters     = map[string]int64{}
		required     = map[string]int64{}
		distinct     = map[string]map[uint64]struct{}{}
		violations   []mon.Violation
		samples      []any
		inconclusive []string
		harnessErrs  []string
		level, rule  string
		assumptions  []string
		minNT        int
		exhaustive   = true
		anyReport    bool
	)
	for _, res := range results {
		if res == nil {
			continue
		}
		if res.rep != nil && res.rep.Done {
			anyReport = true
			rep := res.rep
			evals += rep.Evaluations
			for k, v := range rep.Counters {
				counters[k] += v
			}
			for k, v := range rep.Required {
				required[k] = v
			}
			violations = append(violations, rep.Violations...)
			if len(samples) < 8 {
				for _, s := range rep.Samples {
					if len(samples) < 8 {
						samples = append(samples, s)
					}
				}
			}
			for _, s := range rep.Inconclusive {
				inconclusive = append(inconclusive, fmt.Sprintf("shard %d: %s", res.idx, s))
			}
			level, rule, assumptions, minNT = rep.Level, rep.Rule, rep.Assumptions, rep.MinNonTrivial
			if !rep.Exhaustive {
				exhaustive = false
			}
			for _, k := range rep.DistinctKeys {
				b, err := os.ReadFile(res.outPath + ".distinct." + k)
				if err != nil {
					continue
				}
				m := distinct[k]
				if m == nil {
					m = map[uint64]struct{}{}
					distinct[k] = m
				}
				for o := 0; o+8 <= len(b); o += 8 {
					m[binary.LittleEndian.Uint64(b[o:])] = struct{}{}
				}
			}
			if res.exit != 0 {
				// report written but the test binary failed afterwards (t.Error in the check = harness problem)
				harnessErrs = append(harnessErrs, fmt.Sprintf("shard %d exited %d after writing its report: %s", res.idx, res.exit, tail(res.log, 1500)))
			}
			continue
		}
		// child died without a report
		exhaustive = false
		caseIdx := int64(-1)
		if f := strings.Fields(res.lastCase); len(f) >= 2 {
			caseIdx, _ = strconv.ParseInt(f[1], 10, 64)
		}
		ref := mon.CaseRef{Seed: seed, Tier: tier, Shard: res.idx, Shards: shards, Index: caseIdx}
		switch {
		case res.exit == 124 || res.exit == 137 || strings.Contains(res.log, "SIGQUIT: quit"):
			inconclusive = append(inconclusive, fmt.Sprintf("shard %d: wall-clock watchdog (%ds) fired at case %d; goroutine dump in %s/shard%d.log", res.idx, timeout, caseIdx, outdir, res.idx))
		default:
			sig, isEino := crashSignature(res.log)
			if !isEino {
				harnessErrs = append(harnessErrs, fmt.Sprintf("shard %d died (exit %d) at case %d without an eino frame in the crash: %s", res.idx, res.exit, caseIdx, tail(res.log, 3000)))
			} else {
				violations = append(violations, mon.Violation{Signature: sig, Detail: "process-fatal event in child:\n" + crashExcerpt(res.log), Case: ref})
			}
		}
	}

	// ---- race reports
	races := 0
	if cfg.Race {
		files, _ := filepath.Glob(filepath.Join(outdir, "race.*"))
		sort.Strings(files)
		for _, f := range files {
			b, err := os.ReadFile(f)
			if err != nil {
				continue
			}
			shard := -1
			if parts := strings.Split(filepath.Base(f), "."); len(parts) >= 2 {
				shard, _ = strconv.Atoi(parts[1])
			}
			for _, blk := range strings.Split(string(b), "==================") {
				if !strings.Contains(blk, "WARNING: DATA RACE") {
					continue
				}
				races++
				sig, isEino := raceSignature(blk)
				if !isEino {
					harnessErrs = append(harnessErrs, "data race without any eino frame (harness bug):\n"+tail(blk, 3000))
					continue
				}
				violations = append(violations, mon.Violation{Signature: sig, Detail: strings.TrimSpace(blk),
					Case: mon.CaseRef{Seed: seed, Tier: tier, Shard: shard, Shards: shards, Index: -1}})
			}
		}
		counters["race_reports"] = int64(races)
	}

	// ---- known findings
	var findings []finding
	if b, err := os.ReadFile(filepath.Join(root, "known_findings.json")); err == nil {
		var kf struct {
			Findings []finding `json:"findings"`
		}
		if err := json.Unmarshal(b, &kf); err != nil {
			harnessErrs = append(harnessErrs, "known_findings.json does not parse: "+err.Error())
		}
		findings = kf.Findings
	}
	type group struct {
		first mon.Violation
		n     int
	}
	groups := map[string]*group{}
	var order []string
	for _, v := range violations {
		g := groups[v.Signature]
		if g == nil {
			g = &group{first: v}
			groups[v.Signature] = g
			order = append(order, v.Signature)
		}
		g.n++
	}
	sort.Strings(order)
	unknown := 0
	var knownHit []string
	os.MkdirAll(filepath.Join(root, "replays"), 0o755)
	for _, sig := range order {
		g := groups[sig]
		var kf *finding
		for i := range findings {
			if findings[i].Property == id && findings[i].Status == "open" && findings[i].Signature == sig {
				kf = &findings[i]
			}
		}
		if kf != nil {
			fmt.Printf("KNOWN-FINDING: property=%s %s [signature %s, %d occurrence(s) in this run]\n", id, kf.What, sig, g.n)
			knownHit = append(knownHit, sig)
			continue
		}
		unknown++
		rpath := filepath.Join(root, "replays", fmt.Sprintf("%s-%016x.json", id, mon.HashStr(sig)))
		if altRepo != "" {
			rpath = filepath.Join(outdir, fmt.Sprintf("replay-%s-%016x.json", id, mon.HashStr(sig)))
		}
		rf := replayFile{Property: id, Signature: sig, Detail: g.first.Detail, Case: g.first.Case, Witness: g.first.Witness, Count: g.n,
			HowTo: fmt.Sprintf("bin/check %s %s --replay %s", id, tier, rpath)}
		b, _ := json.MarshalIndent(rf, "", " ")
		os.WriteFile(rpath, b, 0o644)
		fmt.Printf("VIOLATION property=%s replay=%s\n", id, rpath)
		fmt.Printf("  signature: %s (%d occurrence(s))\n  %s\n", sig, g.n, indent(firstLines(g.first.Detail, 30)))
	}

	// ---- inconclusive conditions
	nt := int64(len(distinct["_nontrivial"]))
	if rp == nil {
		if !anyReport {
			inconclusive = append(inconclusive, "no child produced a report")
		}
		if nt < int64(minNT) {
			inconclusive = append(inconclusive, fmt.Sprintf("only %d distinct non-trivial cases observed, %d required", nt, minNT))
		}
		for k, min := range required {
			if counters[k] < min {
				inconclusive = append(inconclusive, fmt.Sprintf("monitor observation %q = %d, below the required minimum %d (hook never reached / too few events)", k, counters[k], min))
			}
		}
	}

	// ---- evidence
	if rp == nil && altRepo == "" {
		cov := map[string]any{
			"evaluations":         evals,
			"distinct_nontrivial": nt,
			"rule":                rule,
			"samples":             samples,
			"exhaustive":          exhaustive && anyReport,
			"shards":              shards,
			"observations":        counters,
		}
		for k, m := range distinct {
			if k != "_nontrivial" {
				cov["distinct_"+k] = len(m)
			}
		}
		if len(knownHit) > 0 {
			cov["known_findings_reproduced"] = knownHit
		}
		if len(inconclusive) > 0 {
			cov["inconclusive"] = inconclusive
		}
		if samples == nil {
			cov["samples"] = []any{}
		}
		if level == "" {
			level = "exploration"
		}
		ev := map[string]any{
			"property_id": id, "tier": tier, "seed": seed, "level": level, "coverage": cov,
			"assumptions": assumptions, "wall_s": time.Since(t0).Seconds(), "violations": unknown,
		}
		if assumptions == nil {
			ev["assumptions"] = []string{}
		}
		b, _ := json.MarshalIndent(ev, "", " ")
		os.MkdirAll(filepath.Join(root, "evidence"), 0o755)
		os.WriteFile(filepath.Join(root, "evidence", id+".json"), b, 0o644)
	}

	fmt.Printf("SUMMARY property=%s tier=%s seed=%d evaluations=%d distinct_nontrivial=%d violations=%d known=%d races=%d wall=%.1fs\n",
		id, tier, seed, evals, nt, unknown, len(knownHit), races, time.Since(t0).Seconds())
	if unknown > 0 {
		return 1
	}
	if len(harnessErrs) > 0 {
		for _, h := range harnessErrs {
			fmt.Printf("HARNESS-ERROR property=%s %s\n", id, h)
		}
		return 2
	}
	if len(inconclusive) > 0 {
		for _, s := range inconclusive {
			fmt.Printf("INCONCLUSIVE property=%s %s\n", id, s)
		}
		return 3
	}
	if rp != nil {
		fmt.Printf("replayed case did not reproduce a violation\n")
	}
	return 0
}

var frameRe = regexp.MustCompile(`(github\.com/cloudwego/eino/[^\s(]+(?:\([^)]*\))?[^\s(]*)\(`)

func einoFrames(s string) []string {
	var out []string
	for _, l := range strings.Split(s, "\n") {
		l = strings.TrimSpace(l)
		if !strings.HasPrefix(l, "github.com/cloudwego/eino/") {
			continue
		}
		// function line: pkg.func(args)
		if i := strings.LastIndexByte(l, '('); i > 0 {
			l = l[:i]
		}
		out = append(out, strings.TrimPrefix(l, "github.com/cloudwego/eino/"))
	}
	return out
}

func crashSignature(log string) (string, bool) {
	i := strings.Index(log, "\npanic: ")
	kind := "panic"
	if j := strings.Index(log, "fatal error: "); j >= 0 && (i < 0 || j < i) {
		i, kind = j, "fatal"
	}
	if i < 0 {
		return "", false
	}
	rest := log[i:]
	// only the first goroutine block (the crashing one)
	if k := strings.Index(rest, "\n\ngoroutine "); k >= 0 {
		if k2 := strings.Index(rest[k+2:], "\n\n"); k2 >= 0 {
			rest = rest[:k+2+k2]
		}
	}
	fr := einoFrames(rest)
	if len(fr) == 0 {
		return "", false
	}
	return "crash/" + kind + "/" + stripGeneric(fr[0]), true
}

func stripGeneric(f string) string {
	// drop instantiation brackets so that signatures are stable
	for {
		i := strings.IndexByte(f, '[')
		if i < 0 {
			return f
		}
		depth, j := 0, i
		for ; j < len(f); j++ {
			if f[j] == '[' {
				depth++
			} else if f[j] == ']' {
				depth--
				if depth == 0 {
					break
				}
			}
		}
		if j >= len(f) {
			return f[:i]
		}
		f = f[:i] + f[j+1:]
	}
}

func crashExcerpt(log string) string {
	i := strings.Index(log, "\npanic: ")
	if j := strings.Index(log, "fatal error: "); j >= 0 && (i < 0 || j < i) {
		i = j
	}
	if i < 0 {
		return tail(log, 3000)
	}
	e := log[i:]
	if len(e) > 5000 {
		e = e[:5000]
	}
	return e
}

// raceSignature: the innermost eino frame of each of the two access stacks.
func raceSignature(blk string) (string, bool) {
	secs := strings.Split(blk, "\n\n")
	var acc []string
	for _, s := range secs {
		t := strings.TrimSpace(s)
		if strings.HasPrefix(t, "WARNING: DATA RACE") {
			t = strings.TrimSpace(strings.TrimPrefix(t, "WARNING: DATA RACE"))
		}
		if strings.HasPrefix(t, "Read at") || strings.HasPrefix(t, "Write at") || strings.HasPrefix(t, "Previous ") ||
			strings.HasPrefix(t, "Atomic ") {
			acc = append(acc, t)
		}
	}
	// a race whose two access sites (innermost frames) both lie in harness code is a harness
	// bug, whoever called it: it is reported as HARNESS-ERROR, never as a property violation
	harnessSites := 0
	for _, a := range acc {
		if innermostIsHarness(a) {
			harnessSites++
		}
	}
	if len(acc) >= 2 && harnessSites == len(acc) {
		return "", false
	}
	var sigs []string
	any := false
	for _, a := range acc {
		fr := einoFrames(a)
		if len(fr) > 0 {
			any = true
			sigs = append(sigs, stripGeneric(fr[0]))
		} else {
			sigs = append(sigs, "-")
		}
	}
	if !any {
		// maybe the goroutine creation stacks have eino frames: still a framework-created race
		if fr := einoFrames(blk); len(fr) > 0 {
			return "race/created-by/" + stripGeneric(fr[0]), true
		}
		return "", false
	}
	sort.Strings(sigs)
	return "race/" + strings.Join(sigs, "|"), true
}

func innermostIsHarness(stack string) bool {
	for _, l := range strings.Split(stack, "\n")[1:] {
		t := strings.TrimSpace(l)
		if t == "" || strings.HasPrefix(t, "/") {
			continue
		}
		if strings.HasPrefix(t, "runtime.") || strings.HasPrefix(t, "sync.") || strings.HasPrefix(t, "sync/atomic.") {
			continue
		}
		return strings.HasPrefix(t, "verifharness/") || strings.HasPrefix(t, "testing.")
	}
	return false
}

func tail(s string, n int) string {
	if len(s) <= n {
		return s
	}
	return "…" + s[len(s)-n:]
}

func firstLines(s string, n int) string {
	lines := strings.Split(s, "\n")
	if len(lines) > n {
		lines = append(lines[:n], "…")
	}
	return strings.Join(lines, "\n")
}

func indent(s string) string { return strings.ReplaceAll(s, "\n", "\n  ") }

var _ = bytes.NewReader
var _ = frameRe
