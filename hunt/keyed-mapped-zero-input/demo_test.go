// Place at: compose/hunt_keyed_mapped_zero_input_test.go (package compose; only the public API is used).
//
// Commits concerned: ad6a7a0 "fix: a field-mapped node whose data predecessors were all skipped runs on the
// zero value" and dc7a09f "fix: a node added with WithInputKey can be resumed from a checkpoint in value form"
// (incompleteness / interaction).
//
// A Workflow node that becomes ready although all of its data predecessors were skipped must run on the zero
// value (C02). dc7a09f made the placeholder input of a node with WithInputKey carry the key, so the node
// `plain` below (whole output of the skipped predecessor) runs on "". For a node whose input is assembled by
// field mappings ad6a7a0 replaces that placeholder by an empty map: the node `mapped`, which differs from
// `plain` only in naming the key in a field mapping, fails with "cannot find input key: k" in Invoke and
// with "stream reader is empty" in Stream.
package compose

import (
	"context"
	"fmt"
	"io"
	"testing"
)

func huntKeyedZeroWorkflow(t *testing.T, mapped bool) Runnable[string, string] {
	wf := NewWorkflow[string, string]()

	wf.AddLambdaNode("a", InvokableLambda(func(ctx context.Context, in string) (string, error) {
		return in, nil
	})).AddInput(START)

	// the branch of a never selects skippedPred
	wf.AddLambdaNode("skippedPred", InvokableLambda(func(ctx context.Context, in string) (map[string]any, error) {
		return map[string]any{"k": "from skippedPred: " + in}, nil
	})).AddInputWithOptions("a", nil, WithNoDirectDependency())
	wf.AddLambdaNode("taken", InvokableLambda(func(ctx context.Context, in string) (string, error) {
		return "taken " + in, nil
	})).AddInputWithOptions("a", nil, WithNoDirectDependency())
	wf.AddBranch("a", NewGraphBranch(func(ctx context.Context, in string) (string, error) {
		return "taken", nil
	}, map[string]bool{"skippedPred": true, "taken": true}))

	// consumer: data only from skippedPred, triggered by taken
	consumer := wf.AddLambdaNode("consumer", InvokableLambda(func(ctx context.Context, in string) (string, error) {
		return fmt.Sprintf("consumer ran on %q", in), nil
	}), WithInputKey("k"))
	if mapped {
		consumer.AddInputWithOptions("skippedPred", []*FieldMapping{MapFields("k", "k")}, WithNoDirectDependency())
	} else {
		consumer.AddInputWithOptions("skippedPred", nil, WithNoDirectDependency())
	}
	consumer.AddDependency("taken")

	wf.End().AddInput("consumer")

	r, err := wf.Compile(context.Background())
	if err != nil {
		t.Fatalf("compile (mapped=%v): %v", mapped, err)
	}
	return r
}

func TestHuntKeyedMappedZeroInputInvoke(t *testing.T) {
	ctx := context.Background()

	want, err := huntKeyedZeroWorkflow(t, false).Invoke(ctx, "x")
	if err != nil {
		t.Fatalf("whole-output twin: %v", err)
	}
	if want != `consumer ran on ""` {
		t.Fatalf("whole-output twin: unexpected result %q", want)
	}

	got, err := huntKeyedZeroWorkflow(t, true).Invoke(ctx, "x")
	if err != nil {
		t.Fatalf("field-mapped node with input key did not run on the zero value: %v", err)
	}
	if got != want {
		t.Fatalf("got %q, want %q", got, want)
	}
}

func TestHuntKeyedMappedZeroInputStream(t *testing.T) {
	ctx := context.Background()

	sr, err := huntKeyedZeroWorkflow(t, true).Stream(ctx, "x")
	if err != nil {
		t.Fatalf("field-mapped node with input key did not run on the zero value: %v", err)
	}
	defer sr.Close()
	var got string
	for {
		chunk, err := sr.Recv()
		if err == io.EOF {
			break
		}
		if err != nil {
			t.Fatalf("field-mapped node with input key did not run on the zero value: %v", err)
		}
		got += chunk
	}
	if got != `consumer ran on ""` {
		t.Fatalf("got %q", got)
	}
}
