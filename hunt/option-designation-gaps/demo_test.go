package compose_test

import (
	"context"
	"sync"
	"testing"

	"github.com/cloudwego/eino/compose"
)

// place as compose/hunt_option_designation_test.go

type desigOptA struct{ v string }
type desigOptB struct{ v string }

type desigRecorder struct {
	mu  sync.Mutex
	got map[string][]string
}

func (r *desigRecorder) add(node string, vs ...string) {
	r.mu.Lock()
	defer r.mu.Unlock()
	r.got[node] = append(r.got[node], vs...)
}

// START -> a (lambda taking desigOptA) -> b (lambda taking desigOptB) -> p (pass-through) -> END
func buildDesigGraph(t *testing.T, rec *desigRecorder) compose.Runnable[string, string] {
	g := compose.NewGraph[string, string]()
	_ = g.AddLambdaNode("a", compose.InvokableLambdaWithOption(func(ctx context.Context, in string, opts ...desigOptA) (string, error) {
		for _, o := range opts {
			rec.add("a", o.v)
		}
		return in, nil
	}))
	_ = g.AddLambdaNode("b", compose.InvokableLambdaWithOption(func(ctx context.Context, in string, opts ...desigOptB) (string, error) {
		for _, o := range opts {
			rec.add("b", o.v)
		}
		return in, nil
	}))
	_ = g.AddPassthroughNode("p")
	_ = g.AddEdge(compose.START, "a")
	_ = g.AddEdge("a", "b")
	_ = g.AddEdge("b", "p")
	_ = g.AddEdge("p", compose.END)
	r, err := g.Compile(context.Background())
	if err != nil {
		t.Fatal(err)
	}
	return r
}

// A component option designated to a pass-through node: no node takes it, the call must fail like every
// other wrong designation (a path BELOW a pass-through node is refused since fix 9e7dee0).
func TestHuntOptionDesignatedToPassthrough(t *testing.T) {
	rec := &desigRecorder{got: map[string][]string{}}
	r := buildDesigGraph(t, rec)
	_, err := r.Invoke(context.Background(), "x", compose.WithLambdaOption(desigOptA{"1"}).DesignateNode("p"))
	if err == nil {
		t.Fatalf("an option of type desigOptA designated to the pass-through node p was accepted and silently dropped (received: %v); expected an error", rec.got)
	}
}

// A run-time step limit is an option for graphs; designated to a lambda it is the wrong kind of option.
func TestHuntStepLimitDesignatedToComponent(t *testing.T) {
	rec := &desigRecorder{got: map[string][]string{}}
	r := buildDesigGraph(t, rec)
	_, err := r.Invoke(context.Background(), "x", compose.WithRuntimeMaxSteps(3).DesignateNode("a"))
	if err == nil {
		t.Fatal("WithRuntimeMaxSteps designated to the lambda node a was accepted and silently dropped; expected an error")
	}
}

// One undesignated Option carrying an option for a and an option for b (WithLambdaOption takes ...any):
// each must reach the node of its type and no other node.
func TestHuntUndesignatedOptionsOfTwoTypes(t *testing.T) {
	rec := &desigRecorder{got: map[string][]string{}}
	r := buildDesigGraph(t, rec)
	_, err := r.Invoke(context.Background(), "x", compose.WithLambdaOption(desigOptA{"forA"}, desigOptB{"forB"}))
	if err != nil {
		t.Fatalf("undesignated options of two lambda option types: the option meant for b was handed to a: %v", err)
	}
	if len(rec.got["a"]) != 1 || rec.got["a"][0] != "forA" || len(rec.got["b"]) != 1 || rec.got["b"][0] != "forB" {
		t.Fatalf("want a=[forA] b=[forB], got %v", rec.got)
	}
}
