package compose

// place as compose/hunt_toolsnode_stream_leak_demo_test.go

import (
	"context"
	"errors"
	"fmt"
	"testing"
	"time"

	"github.com/cloudwego/eino/components/tool"
	"github.com/cloudwego/eino/schema"
)

type leakDemoStreamTool struct {
	released chan struct{}
}

func (t *leakDemoStreamTool) Info(context.Context) (*schema.ToolInfo, error) {
	return &schema.ToolInfo{Name: "a"}, nil
}
func (t *leakDemoStreamTool) StreamableRun(context.Context, string, ...tool.Option) (*schema.StreamReader[string], error) {
	sr, sw := schema.Pipe[string](0)
	go func() {
		defer close(t.released)
		defer sw.Close()
		for i := 0; i < 5; i++ {
			if sw.Send(fmt.Sprint(i), nil) {
				return
			}
		}
	}()
	return sr, nil
}

var errLeakDemo = errors.New("tool b failed")

type leakDemoFailTool struct{}

func (leakDemoFailTool) Info(context.Context) (*schema.ToolInfo, error) {
	return &schema.ToolInfo{Name: "b"}, nil
}
func (leakDemoFailTool) InvokableRun(context.Context, string, ...tool.Option) (string, error) {
	return "", errLeakDemo
}

// Two calls in stream form: tool a starts streaming, tool b fails. The call fails with b's error (fine), but the
// stream a returned is dropped without being closed: a's producer stays blocked in Send for ever.
func TestHuntToolsNodeStreamErrorLeavesProducerBlocked(t *testing.T) {
	ctx := context.Background()
	a := &leakDemoStreamTool{released: make(chan struct{})}
	tn, err := NewToolNode(ctx, &ToolsNodeConfig{Tools: []tool.BaseTool{a, leakDemoFailTool{}}})
	if err != nil {
		t.Fatal(err)
	}
	g := NewGraph[*schema.Message, []*schema.Message]()
	_ = g.AddToolsNode("tools", tn)
	_ = g.AddEdge(START, "tools")
	_ = g.AddEdge("tools", END)
	r, err := g.Compile(ctx)
	if err != nil {
		t.Fatal(err)
	}
	_, err = r.Stream(ctx, &schema.Message{Role: schema.Assistant, ToolCalls: []schema.ToolCall{
		{ID: "1", Function: schema.FunctionCall{Name: "a"}}, {ID: "2", Function: schema.FunctionCall{Name: "b"}}}})
	if !errors.Is(err, errLeakDemo) {
		t.Fatalf("expected the run to fail with tool b's error, got %v", err)
	}
	select {
	case <-a.released:
	case <-time.After(3 * time.Second):
		t.Fatalf("the run has failed and returned, nobody holds a reader any more, yet 3s later the producer of " +
			"tool a's stream is still blocked in Send: ToolsNode.Stream dropped the stream without closing it")
	}
}
