package compose

// Place as compose/hunt_graph_in_lambda_test.go and run
//   go test -mod=mod -vet=off -count=1 -run TestHuntGraphInLambda ./compose/

import (
	"context"
	"fmt"
	"testing"
)

type gilStore struct{ m map[string][]byte }

func (s *gilStore) Get(_ context.Context, id string) ([]byte, bool, error) {
	v, ok := s.m[id]
	return v, ok, nil
}
func (s *gilStore) Set(_ context.Context, id string, b []byte) error {
	s.m[id] = append([]byte(nil), b...)
	return nil
}

// A compiled graph with its own checkpoint store is run, with a checkpoint id supplied by the caller,
// from inside a Lambda node of another graph (the usual way to embed an agent/graph whose interrupts the
// node wants to handle itself). The caller (the Lambda) must get an error it can extract the interrupt
// info from, the checkpoint must be written under the id, and a second call must resume.
func TestHuntGraphInLambda(t *testing.T) {
	ctx := context.Background()
	inner := NewGraph[string, string]()
	_ = inner.AddLambdaNode("i1", InvokableLambda(func(ctx context.Context, in string) (string, error) { return in + "-i1", nil }))
	_ = inner.AddLambdaNode("i2", InvokableLambda(func(ctx context.Context, in string) (string, error) { return in + "-i2", nil }))
	_ = inner.AddEdge(START, "i1")
	_ = inner.AddEdge("i1", "i2")
	_ = inner.AddEdge("i2", END)
	innerStore := &gilStore{m: map[string][]byte{}}
	ir, err := inner.Compile(ctx, WithCheckPointStore(innerStore), WithInterruptBeforeNodes([]string{"i2"}))
	if err != nil {
		t.Fatal(err)
	}

	// reference: the same calls made outside of any graph
	_, err = ir.Invoke(ctx, "in", WithCheckPointID("ref"))
	if info, ok := ExtractInterruptInfo(err); !ok || fmt.Sprint(info.BeforeNodes) != "[i2]" || innerStore.m["ref"] == nil {
		t.Fatalf("reference run: expected an extractable interrupt and a checkpoint, got %v", err)
	}
	if out, err := ir.Invoke(ctx, "in", WithCheckPointID("ref")); err != nil || out != "in-i1-i2" {
		t.Fatalf("reference resume: (%q, %v)", out, err)
	}

	var problems []string
	outer := NewGraph[string, string]()
	_ = outer.AddLambdaNode("L", InvokableLambda(func(ctx context.Context, in string) (string, error) {
		_, err := ir.Invoke(ctx, in, WithCheckPointID("inner"))
		info, ok := ExtractInterruptInfo(err)
		if !ok {
			problems = append(problems, fmt.Sprintf("first call: ExtractInterruptInfo fails on the returned error (%T: %v)", err, err))
		} else if fmt.Sprint(info.BeforeNodes) != "[i2]" {
			problems = append(problems, fmt.Sprintf("first call: BeforeNodes=%v", info.BeforeNodes))
		}
		if _, wrote := innerStore.m["inner"]; !wrote {
			problems = append(problems, "first call: an interrupt was returned but no checkpoint was written under the supplied id \"inner\"")
		}
		out, err := ir.Invoke(ctx, in, WithCheckPointID("inner"))
		if err != nil || out != "in-i1-i2" {
			problems = append(problems, fmt.Sprintf("second call (resume): (%q, %v), expected \"in-i1-i2\"", out, err))
		}
		return "handled", nil
	}))
	_ = outer.AddEdge(START, "L")
	_ = outer.AddEdge("L", END)
	or, err := outer.Compile(ctx)
	if err != nil {
		t.Fatal(err)
	}
	if _, err = or.Invoke(ctx, "in"); err != nil {
		t.Fatal(err)
	}
	for _, p := range problems {
		t.Error(p)
	}
}
