package compose

// Place as compose/hunt_end_reached_drops_sibling_streams_test.go.

import (
	"context"
	"fmt"
	"io"
	"runtime"
	"strings"
	"testing"
	"time"

	"github.com/cloudwego/eino/schema"
)

type huntEProducers struct {
	exited chan string
}

// a streaming node: its goroutine sends n chunks through an unbuffered pipe and reports when it has returned
func (p *huntEProducers) node(name string, n int) *Lambda {
	return StreamableLambda(func(ctx context.Context, in string) (*schema.StreamReader[string], error) {
		sr, sw := schema.Pipe[string](0)
		go func() {
			defer func() { p.exited <- name }()
			defer sw.Close()
			for i := 0; i < n; i++ {
				if sw.Send(fmt.Sprintf("%s%d ", name, i), nil) {
					return // every reader has gone
				}
			}
		}()
		return sr, nil
	})
}

func huntESuffix(s string) *Lambda {
	return TransformableLambda(func(ctx context.Context, in *schema.StreamReader[string]) (*schema.StreamReader[string], error) {
		return schema.StreamReaderWithConvert(in, func(c string) (string, error) { return c + s, nil }), nil
	})
}

// All-predecessor graphs in which a node becomes ready in the same round as END (it hangs off a node that also
// feeds END), or is still waiting for another predecessor when END is reached. Every produced value has a
// consumer. The caller reads a prefix of the output stream and closes it.
func TestHuntEndReachedDropsSiblingStreams(t *testing.T) {
	ctx := context.Background()
	p := &huntEProducers{exited: make(chan string, 16)}

	shapes := map[string]func() (Runnable[string, string], int, error){
		// START -> a -> END ; a -> x          (x ready together with END)
		"graph(AllPredecessor): x ready with END": func() (Runnable[string, string], int, error) {
			g := NewGraph[string, string]()
			_ = g.AddLambdaNode("a", p.node("a", 50))
			_ = g.AddLambdaNode("x", huntESuffix("x"))
			_ = g.AddEdge(START, "a")
			_ = g.AddEdge("a", END)
			_ = g.AddEdge("a", "x")
			r, err := g.Compile(ctx, WithNodeTriggerMode(AllPredecessor))
			return r, 1, err
		},
		"workflow: x ready with END": func() (Runnable[string, string], int, error) {
			wf := NewWorkflow[string, string]()
			wf.AddLambdaNode("a", p.node("a", 50)).AddInput(START)
			wf.AddLambdaNode("x", huntESuffix("x")).AddInput("a")
			wf.End().AddInput("a")
			r, err := wf.Compile(ctx)
			return r, 1, err
		},
		// START -> a -> END ; a -> y ; START -> b -> c -> y   (a's value is parked in y's channel, y still waits for c)
		"workflow: value parked for a node that is still waiting": func() (Runnable[string, string], int, error) {
			wf := NewWorkflow[string, string]()
			wf.AddLambdaNode("a", p.node("a", 50)).AddInput(START)
			wf.AddLambdaNode("b", huntESuffix("b")).AddInput(START)
			wf.AddLambdaNode("c", huntESuffix("c")).AddInput("b")
			wf.AddLambdaNode("y", InvokableLambda(func(ctx context.Context, in map[string]any) (string, error) {
				return fmt.Sprint(in["A"], in["C"]), nil
			})).AddInput("a", ToField("A")).AddInput("c", ToField("C"))
			wf.End().AddInput("a")
			r, err := wf.Compile(ctx)
			return r, 1, err
		},
	}

	// START -> a -> m -> END ; a -> x -> z   (eager: x is still running when END is reached; its output is never collected)
	var gateX chan struct{}
	shapes["workflow: node still running when END is reached"] = func() (Runnable[string, string], int, error) {
		wf := NewWorkflow[string, string]()
		wf.AddLambdaNode("a", p.node("a", 50)).AddInput(START)
		wf.AddLambdaNode("m", huntESuffix("m")).AddInput("a")
		wf.AddLambdaNode("x", TransformableLambda(func(ctx context.Context, in *schema.StreamReader[string]) (*schema.StreamReader[string], error) {
			<-gateX // x returns only after the run has returned
			return schema.StreamReaderWithConvert(in, func(c string) (string, error) { return c + "x", nil }), nil
		})).AddInput("a")
		wf.AddLambdaNode("z", huntESuffix("z")).AddInput("x")
		wf.End().AddInput("m")
		r, err := wf.Compile(ctx)
		return r, 1, err
	}

	for name, build := range shapes {
		r, producers, err := build()
		if err != nil {
			t.Fatalf("%s: %v", name, err)
		}
		for _, readN := range []int{0, 1, 5} {
			gateX = make(chan struct{})
			sr, err := r.Stream(ctx, "in")
			if err != nil {
				t.Fatalf("%s: %v", name, err)
			}
			close(gateX)
			for i := 0; i < readN; i++ {
				if _, err := sr.Recv(); err != nil {
					t.Fatalf("%s: recv: %v", name, err)
				}
			}
			sr.Close()
			for i := 0; i < producers; i++ {
				select {
				case <-p.exited:
				case <-time.After(5 * time.Second):
					t.Errorf("%s: the caller closed the output stream after %d chunks, but the producer goroutine of node a is still blocked in Send: "+
						"the copy of a's stream made for the node that was never started (END was reached first) was neither read nor closed", name, readN)
				}
			}
		}
	}
}

// Same defect, output stream read to the END: a fan-in node that becomes ready together with END gets its
// input merged (the merge starts one forwarding goroutine per source), is never started, and the merged
// stream is neither read nor closed: the forwarding goroutines stay blocked in send for good.
func TestHuntEndReachedLeavesForwardersBlocked(t *testing.T) {
	ctx := context.Background()
	many := func(name string) *Lambda {
		return StreamableLambda(func(ctx context.Context, in string) (*schema.StreamReader[string], error) {
			chunks := make([]string, 40)
			for i := range chunks {
				chunks[i] = fmt.Sprintf("%s%d ", name, i)
			}
			return schema.StreamReaderFromArray(chunks), nil
		})
	}
	// START -> a -> END ; a -> y ; START -> b -> y      (all-predecessor, batch: a and b finish in one round)
	g := NewGraph[string, map[string]any]()
	_ = g.AddLambdaNode("a", many("a"), WithOutputKey("a"))
	_ = g.AddLambdaNode("b", many("b"), WithOutputKey("b"))
	_ = g.AddLambdaNode("y", InvokableLambda(func(ctx context.Context, in map[string]any) (map[string]any, error) { return in, nil }))
	_ = g.AddEdge(START, "a")
	_ = g.AddEdge(START, "b")
	_ = g.AddEdge("a", "y")
	_ = g.AddEdge("b", "y")
	_ = g.AddEdge("a", END)
	r, err := g.Compile(ctx, WithNodeTriggerMode(AllPredecessor))
	if err != nil {
		t.Fatal(err)
	}

	blocked := func() int {
		buf := make([]byte, 1<<20)
		buf = buf[:runtime.Stack(buf, true)]
		n := 0
		for _, gr := range strings.Split(string(buf), "\n\n") {
			if strings.Contains(gr, ").toStream.func1") && strings.Contains(gr, "schema.(*stream") {
				n++
			}
		}
		return n
	}

	for i := 0; i < 3; i++ {
		sr, err := r.Stream(ctx, "in")
		if err != nil {
			t.Fatal(err)
		}
		for {
			if _, err := sr.Recv(); err == io.EOF {
				break
			} else if err != nil {
				t.Fatal(err)
			}
		}
		sr.Close()
	}
	deadline := time.Now().Add(5 * time.Second)
	n := blocked()
	for n > 0 && time.Now().Before(deadline) {
		time.Sleep(20 * time.Millisecond)
		n = blocked()
	}
	if n > 0 {
		t.Errorf("3 streaming runs completed and their output was read to the end; %d stream-forwarding goroutines of the framework are still blocked "+
			"(the merged input of node y, which became ready together with END and was never started, was neither read nor closed)", n)
	}
}
