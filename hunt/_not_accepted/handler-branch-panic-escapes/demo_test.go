package compose

// Place as compose/hunt_handler_branch_panic_test.go (package compose; only the public API is used).

import (
	"context"
	"fmt"
	"testing"
)

type huntHBState struct{}

// C13: "A panic inside a node body, a tool call or a stream-forwarding goroutine surfaces as an
// error of the run ...: it never kills the process". The code a user attaches to a node - its
// state pre/post handler and the branch condition evaluated on its output - runs on the
// goroutine of the run loop itself, outside every recover: a panic there leaves Invoke/Stream as
// a panic in the caller's goroutine. (The very same graph used as a nested graph node is
// protected by the parent's node executor, so the behaviour also differs between top-level and
// nested use.)
func TestHuntPanicInStateHandlerOrBranchEscapesRun(t *testing.T) {
	ctx := context.Background()

	build := func(where string) Runnable[string, string] {
		g := NewGraph[string, string](WithGenLocalState(func(ctx context.Context) *huntHBState { return &huntHBState{} }))
		var opts []GraphAddNodeOpt
		switch where {
		case "pre-handler":
			opts = append(opts, WithStatePreHandler(func(ctx context.Context, in string, s *huntHBState) (string, error) {
				panic("pre handler of node a panics")
			}))
		case "post-handler":
			opts = append(opts, WithStatePostHandler(func(ctx context.Context, out string, s *huntHBState) (string, error) {
				panic("post handler of node a panics")
			}))
		}
		_ = g.AddLambdaNode("a", InvokableLambda(func(ctx context.Context, in string) (string, error) { return in, nil }), opts...)
		_ = g.AddLambdaNode("b", InvokableLambda(func(ctx context.Context, in string) (string, error) { return in, nil }))
		_ = g.AddEdge(START, "a")
		_ = g.AddBranch("a", NewGraphBranch(func(ctx context.Context, in string) (string, error) {
			if where == "branch" {
				panic("branch condition after node a panics")
			}
			return "b", nil
		}, map[string]bool{"b": true, END: true}))
		_ = g.AddEdge("b", END)
		r, err := g.Compile(ctx)
		if err != nil {
			t.Fatal(err)
		}
		return r
	}

	for _, where := range []string{"pre-handler", "post-handler", "branch"} {
		r := build(where)

		// reference: run from inside a node of another graph the panic is contained by that node's executor
		g2 := NewGraph[string, string]()
		_ = g2.AddLambdaNode("r", InvokableLambda(func(ctx context.Context, in string) (string, error) { return r.Invoke(ctx, in) }))
		_ = g2.AddEdge(START, "r")
		_ = g2.AddEdge("r", END)
		nested, err := g2.Compile(ctx)
		if err != nil {
			t.Fatal(err)
		}
		if _, err = nested.Invoke(ctx, "x"); err == nil {
			t.Errorf("%s (nested): expected an error", where)
		}

		err = func() (err error) {
			defer func() {
				if p := recover(); p != nil {
					err = fmt.Errorf("PANIC escaped Invoke into the caller's goroutine: %v", p)
				}
			}()
			_, runErr := r.Invoke(ctx, "x")
			if runErr == nil {
				return fmt.Errorf("run succeeded")
			}
			return nil
		}()
		if err != nil {
			t.Errorf("%s (top level): expected Invoke to return an error of the run, got: %v", where, err)
		}
	}
}
