// Place as compose/hunt_input_key_never_seen_test.go (package compose: uses concatStreamReader).
// Run: go test -mod=mod -vet=off -count=1 -run TestHuntInputKeyNeverSeen ./compose/
//
// Node N has WithInputKey("k"); the input map has no key "k". Invoke fails with "cannot find input key: k";
// Stream (and Transform) hand N an empty stream and succeed.
package compose

import (
	"context"
	"io"
	"testing"

	"github.com/cloudwego/eino/schema"
)

func TestHuntInputKeyNeverSeen(t *testing.T) {
	g := NewGraph[map[string]any, string]()
	_ = g.AddLambdaNode("N", TransformableLambda(func(ctx context.Context, in *schema.StreamReader[string]) (*schema.StreamReader[string], error) {
		sr, sw := schema.Pipe[string](1)
		go func() {
			defer sw.Close()
			defer in.Close()
			for {
				c, err := in.Recv()
				if err == io.EOF {
					break
				}
				if err != nil {
					sw.Send("", err)
					return
				}
				if sw.Send(c, nil) {
					return
				}
			}
			sw.Send("!", nil)
		}()
		return sr, nil
	}), WithInputKey("k"))
	_ = g.AddEdge(START, "N")
	_ = g.AddEdge("N", END)
	r, err := g.Compile(context.Background())
	if err != nil {
		t.Fatal(err)
	}
	in := map[string]any{"other": "x"}
	out, ierr := r.Invoke(context.Background(), in)
	t.Logf("invoke: %q %v", out, ierr)
	sr, serr := r.Stream(context.Background(), in)
	var sout string
	if serr == nil {
		sout, serr = concatStreamReader(sr)
	}
	t.Logf("stream: %q %v", sout, serr)
	if (ierr == nil) != (serr == nil) {
		t.Errorf("invoke err=%v stream err=%v", ierr, serr)
	}
}
