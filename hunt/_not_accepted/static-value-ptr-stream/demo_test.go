// Place this file at compose/hunt_static_value_ptr_stream_test.go (package compose) and run
//
//	go test -mod=mod -vet=off -count=1 -run TestHuntStaticValue ./compose/
//
// Commits concerned: 7cd9af1 "a Workflow node whose input consists of static values only gets its input
// converter" and 555992d "a stream chunk that holds none of the mapped keys produces no item for the successor".
// A Workflow node with a pointer-to-struct input, a dependency and one static value works with Invoke and
// fails with Stream / Transform / Collect ("cannot concat multiple non-zero value of type *compose.huntSVIn").
package compose

import (
	"context"
	"io"
	"testing"

	"github.com/cloudwego/eino/schema"
)

type huntSVIn struct {
	X string
	Y string
}

func huntSVRun(t *testing.T, wf *Workflow[string, string], want string) {
	t.Helper()
	ctx := context.Background()
	r, err := wf.Compile(ctx)
	if err != nil {
		t.Fatal(err)
	}

	out, err := r.Invoke(ctx, "in")
	if err != nil || out != want {
		t.Fatalf("Invoke: got %q, %v; want %q", out, err, want)
	}

	readAll := func(sr *schema.StreamReader[string], err error) (string, error) {
		if err != nil {
			return "", err
		}
		defer sr.Close()
		var s string
		for {
			c, e := sr.Recv()
			if e == io.EOF {
				return s, nil
			}
			if e != nil {
				return "", e
			}
			s += c
		}
	}

	if out, err = readAll(r.Stream(ctx, "in")); err != nil || out != want {
		t.Errorf("Stream: got %q, %v; want %q as Invoke returns", out, err, want)
	}
	if out, err = readAll(r.Transform(ctx, schema.StreamReaderFromArray([]string{"i", "n"}))); err != nil || out != want {
		t.Errorf("Transform: got %q, %v; want %q as Invoke returns", out, err, want)
	}
	if out, err = r.Collect(ctx, schema.StreamReaderFromArray([]string{"i", "n"})); err != nil || out != want {
		t.Errorf("Collect: got %q, %v; want %q as Invoke returns", out, err, want)
	}
}

// the scenario of 7cd9af1 (a dependency and static values, no mapping) with a pointer-typed input
func TestHuntStaticValueOnlyPointerInput(t *testing.T) {
	wf := NewWorkflow[string, string]()
	wf.AddLambdaNode("P", InvokableLambda(func(ctx context.Context, in string) (string, error) { return in, nil })).AddInput(START)
	wf.AddLambdaNode("C", InvokableLambda(func(ctx context.Context, in *huntSVIn) (string, error) {
		return in.X + "/" + in.Y, nil
	})).AddDependency("P").SetStaticValue(FieldPath{"X"}, "static")
	wf.End().AddInput("C")

	huntSVRun(t, wf, "static/")
}

// one mapped field and one static value: same root cause
func TestHuntStaticValuePlusMappingPointerInput(t *testing.T) {
	wf := NewWorkflow[string, string]()
	wf.AddLambdaNode("P", InvokableLambda(func(ctx context.Context, in string) (string, error) { return in, nil })).AddInput(START)
	wf.AddLambdaNode("C", InvokableLambda(func(ctx context.Context, in *huntSVIn) (string, error) {
		return in.X + "/" + in.Y, nil
	})).AddInput("P", ToField("Y")).SetStaticValue(FieldPath{"X"}, "static")
	wf.End().AddInput("C")

	huntSVRun(t, wf, "static/in")
}

// control: the same workflow with a struct-typed (non-pointer) input agrees in all four paradigms
func TestHuntStaticValueOnlyStructInputControl(t *testing.T) {
	wf := NewWorkflow[string, string]()
	wf.AddLambdaNode("P", InvokableLambda(func(ctx context.Context, in string) (string, error) { return in, nil })).AddInput(START)
	wf.AddLambdaNode("C", InvokableLambda(func(ctx context.Context, in huntSVIn) (string, error) {
		return in.X + "/" + in.Y, nil
	})).AddDependency("P").SetStaticValue(FieldPath{"X"}, "static")
	wf.End().AddInput("C")

	huntSVRun(t, wf, "static/")
}

// the same at END: a workflow whose output (a pointer to a struct) consists of static values only streams two
// chunks, &Out{} and &Out{F: ...}, which the framework's own concatenation cannot put together to what Invoke returns
func TestHuntStaticValueOnlyPointerOutputAtEND(t *testing.T) {
	ctx := context.Background()
	wf := NewWorkflow[string, *huntSVIn]()
	wf.AddLambdaNode("P", InvokableLambda(func(ctx context.Context, in string) (string, error) { return in, nil })).AddInput(START)
	wf.End().AddDependency("P").SetStaticValue(FieldPath{"X"}, "static")
	r, err := wf.Compile(ctx)
	if err != nil {
		t.Fatal(err)
	}
	want, err := r.Invoke(ctx, "in")
	if err != nil || want == nil || want.X != "static" {
		t.Fatalf("Invoke: %v, %v", want, err)
	}
	sr, err := r.Stream(ctx, "in")
	if err != nil {
		t.Fatal(err)
	}
	got, err := concatStreamReader(sr)
	if err != nil {
		t.Fatalf("the chunks of Stream cannot be concatenated to what Invoke returns: %v", err)
	}
	if *got != *want {
		t.Fatalf("Stream concatenates to %+v, Invoke returns %+v", *got, *want)
	}
}
