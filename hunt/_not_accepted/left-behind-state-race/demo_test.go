// Place as compose/hunt_left_behind_state_race_test.go (package compose; public API only).
// Run WITH the race detector: go test -mod=mod -vet=off -race -count=1 -run TestHuntLeftBehindStateRace ./compose/
//
// A Workflow used as a node (no state of its own: it works on the parent's state) returns at END while its
// node S - whose only consumer a branch skipped - is still running and keeps updating the state through
// ProcessState. The parent goes on, hits interrupt-before N and serialises the state into the checkpoint
// without taking the state lock: data race between the framework (serialization.Marshal) and a
// ProcessState handler (a map: "concurrent map iteration and map write" kills the process without -race).
package compose

import (
	"context"
	"testing"
	"time"
)

type huntLBState struct{ M map[string]int }

func init() { RegisterSerializableType[huntLBState]("huntLBState") }

func TestHuntLeftBehindStateRace(t *testing.T) {
	sub := NewWorkflow[string, string]()
	sub.AddLambdaNode("A", InvokableLambda(func(ctx context.Context, in string) (string, error) { return in + "a", nil })).AddInput(START)
	sub.AddLambdaNode("Z", InvokableLambda(func(ctx context.Context, in string) (string, error) { return "z", nil })).
		AddInputWithOptions("S", nil, WithNoDirectDependency())
	sub.AddLambdaNode("S", InvokableLambda(func(ctx context.Context, in string) (string, error) {
		for i := 0; i < 200; i++ {
			_ = ProcessState(ctx, func(ctx context.Context, s *huntLBState) error { s.M[string(rune('a'+i%26))]++; return nil })
			time.Sleep(50 * time.Microsecond)
		}
		return "s", nil
	})).AddInput(START)
	sub.AddBranch(START, NewGraphBranch(func(ctx context.Context, in string) (string, error) { return "A", nil }, map[string]bool{"A": true, "Z": true}))
	sub.End().AddInput("A")

	g := NewGraph[string, string](WithGenLocalState(func(ctx context.Context) *huntLBState { return &huntLBState{M: map[string]int{}} }))
	_ = g.AddGraphNode("W", sub)
	_ = g.AddLambdaNode("N", InvokableLambda(func(ctx context.Context, in string) (string, error) { return in + "n", nil }))
	_ = g.AddEdge(START, "W")
	_ = g.AddEdge("W", "N")
	_ = g.AddEdge("N", END)
	r, err := g.Compile(context.Background(), WithCheckPointStore(&huntLBStore{m: map[string][]byte{}}), WithInterruptBeforeNodes([]string{"N"}))
	if err != nil {
		t.Fatal(err)
	}
	for i := 0; i < 5; i++ {
		_, err = r.Invoke(context.Background(), "x", WithCheckPointID(string(rune(65+i))))
		if _, ok := ExtractInterruptInfo(err); !ok {
			t.Fatalf("want interrupt, got %v", err)
		}
	}
	time.Sleep(50 * time.Millisecond)
}

type huntLBStore struct{ m map[string][]byte }

func (s *huntLBStore) Get(_ context.Context, id string) ([]byte, bool, error) {
	v, ok := s.m[id]
	return v, ok, nil
}
func (s *huntLBStore) Set(_ context.Context, id string, v []byte) error { s.m[id] = v; return nil }
