package compose

// Place as compose/hunt_self_nested_graph_test.go.

import (
	"context"
	"os"
	"os/exec"
	"strings"
	"testing"
)

// The construction is compiled in a child process: on the unrepaired tree Compile does not return, it kills
// the process with "fatal error: stack overflow", which no recover() can catch.
func TestHuntSelfNestedGraph(t *testing.T) {
	if which := os.Getenv("HUNT_SELF_NESTED_CHILD"); which != "" {
		ctx := context.Background()
		var err error
		switch which {
		case "direct":
			g := NewGraph[string, string]()
			_ = g.AddGraphNode("self", g)
			_ = g.AddEdge(START, "self")
			_ = g.AddEdge("self", END)
			_, err = g.Compile(ctx)
		case "indirect":
			a := NewGraph[string, string]()
			b := NewChain[string, string]()
			b.AppendGraph(a)
			_ = a.AddGraphNode("b", b)
			_ = a.AddEdge(START, "b")
			_ = a.AddEdge("b", END)
			_, err = a.Compile(ctx)
		case "workflow":
			wf := NewWorkflow[string, string]()
			wf.AddGraphNode("self", wf).AddInput(START)
			wf.End().AddInput("self")
			_, err = wf.Compile(ctx)
		}
		if err == nil {
			t.Fatalf("child %s: Compile accepted a graph that contains itself", which)
		}
		t.Logf("child %s: Compile returned error: %v", which, err)
		return
	}

	for _, which := range []string{"direct", "indirect", "workflow"} {
		cmd := exec.Command(os.Args[0], "-test.run", "^TestHuntSelfNestedGraph$", "-test.v")
		cmd.Env = append(os.Environ(), "HUNT_SELF_NESTED_CHILD="+which)
		out, err := cmd.CombinedOutput()
		if err != nil {
			msg := string(out)
			if i := strings.Index(msg, "fatal error"); i >= 0 {
				end := i + 200
				if end > len(msg) {
					end = len(msg)
				}
				msg = msg[i:end]
			} else if len(msg) > 600 {
				msg = msg[:600]
			}
			t.Errorf("%s: Compile of a graph that is a node of itself must return an error; the process died instead (%v):\n%s", which, err, msg)
		}
	}
}
