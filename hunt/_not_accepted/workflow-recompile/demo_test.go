package compose

// place as compose/hunt_workflow_recompile_test.go

import (
	"context"
	"testing"
)

func wrcLambda(suffix string) *Lambda {
	return InvokableLambda(func(ctx context.Context, in string) (string, error) { return in + suffix, nil })
}

// A Compile that fails (here: an option a Workflow does not support) is followed by a plain Compile.
// Either the first error sticks, or the second Compile yields the runnable that a single Compile would
// have yielded: with the branch declared once, its condition evaluated once per run.
func TestHuntWorkflowRecompileBranch(t *testing.T) {
	calls := 0
	wf := NewWorkflow[string, map[string]any]()
	wf.AddLambdaNode("a", wrcLambda("a")).AddInput(START)
	wf.AddLambdaNode("b", wrcLambda("b")).AddInputWithOptions(START, nil, WithNoDirectDependency())
	wf.AddLambdaNode("c", wrcLambda("c")).AddInputWithOptions(START, nil, WithNoDirectDependency())
	wf.AddBranch("a", NewGraphBranch(func(ctx context.Context, in string) (string, error) {
		calls++
		return "b", nil
	}, map[string]bool{"b": true, "c": true}))
	wf.End().AddInput("b", ToField("B")).AddInput("c", ToField("C"))

	_, err1 := wf.Compile(context.Background(), WithNodeTriggerMode(AnyPredecessor))
	if err1 == nil {
		t.Skip("first Compile was expected to fail")
	}
	r, err2 := wf.Compile(context.Background())
	if err2 != nil {
		t.Logf("the error sticks: %v", err2)
		return
	}
	out, err := r.Invoke(context.Background(), "x")
	if err != nil || out["B"] != "xb" {
		t.Fatalf("out=%v err=%v", out, err)
	}
	if calls != 1 {
		t.Fatalf("after a failed Compile attempt the workflow compiles into a runnable that holds the branch %d times "+
			"(its condition ran %d times in one Invoke); expected 1", calls, calls)
	}
}

type wrcIn struct{ A, S string }

// the same with a static value: the failed attempt makes the next Compile fail with a bogus conflict
func TestHuntWorkflowRecompileStaticValue(t *testing.T) {
	wf := NewWorkflow[string, wrcIn]()
	wf.End().AddInput(START, ToField("A")).SetStaticValue(FieldPath{"S"}, "s")

	_, err1 := wf.Compile(context.Background(), WithNodeTriggerMode(AnyPredecessor))
	if err1 == nil {
		t.Skip("first Compile was expected to fail")
	}
	r, err2 := wf.Compile(context.Background())
	if err2 != nil {
		if err2.Error() == err1.Error() {
			t.Logf("the error sticks: %v", err2)
			return
		}
		t.Fatalf("first Compile: %v\nsecond Compile fails with a different, bogus error: %v", err1, err2)
	}
	out, err := r.Invoke(context.Background(), "x")
	if err != nil || out != (wrcIn{A: "x", S: "s"}) {
		t.Fatalf("out=%+v err=%v", out, err)
	}
}
