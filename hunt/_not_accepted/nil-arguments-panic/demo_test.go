package compose_test

import (
	"context"
	"testing"

	"github.com/cloudwego/eino/compose"
)

// place as compose/hunt_nil_args_test.go

func nilArgsTry(t *testing.T, name string, f func() error) {
	t.Helper()
	defer func() {
		if p := recover(); p != nil {
			t.Errorf("%s: expected an error, got a PANIC: %v", name, p)
		}
	}()
	if err := f(); err == nil {
		t.Errorf("%s: expected an error, got nil", name)
	}
}

// compose.Chain reports a nil branch / parallel as an error ("append branch invalid, branch is nil").
// The Graph and Workflow front ends panic on the corresponding ill-formed calls.
func TestHuntNilArgumentsPanic(t *testing.T) {
	ctx := context.Background()
	id := compose.InvokableLambda(func(ctx context.Context, in string) (string, error) { return in, nil })

	nilArgsTry(t, "Graph.AddBranch(START, nil)", func() error {
		g := compose.NewGraph[string, string]()
		return g.AddBranch(compose.START, nil)
	})
	nilArgsTry(t, "Graph.AddLambdaNode(key, nil)", func() error {
		g := compose.NewGraph[string, string]()
		return g.AddLambdaNode("a", nil)
	})
	nilArgsTry(t, "Graph.AddGraphNode(key, nil)", func() error {
		g := compose.NewGraph[string, string]()
		return g.AddGraphNode("a", nil)
	})
	nilArgsTry(t, "Graph.AddChatModelNode(key, nil)", func() error {
		g := compose.NewGraph[string, string]()
		return g.AddChatModelNode("a", nil)
	})
	nilArgsTry(t, "Workflow.AddBranch(key, nil) + Compile", func() error {
		wf := compose.NewWorkflow[string, string]()
		wf.AddLambdaNode("a", id).AddInput(compose.START)
		wf.End().AddInput("a")
		wf.AddBranch("a", nil)
		_, err := wf.Compile(ctx)
		return err
	})
	nilArgsTry(t, "WorkflowNode.AddInput(key, nil mapping) + Compile", func() error {
		wf := compose.NewWorkflow[string, string]()
		wf.AddLambdaNode("a", id).AddInput(compose.START, nil)
		wf.End().AddInput("a")
		_, err := wf.Compile(ctx)
		return err
	})
}
