package compose

// Place as compose/hunt_demo_test.go (package compose, public API only).

import (
	"context"
	"reflect"
	"testing"
)

// A multi-branch condition answers with a map[string]bool. Returning {"b": true, "c": false}
// says: b receives the value, c does not. The library only ranges over the keys of the map and
// never looks at the bool: c runs as well (in both trigger modes; in all-predecessor mode c is
// not marked as skipped either).
func TestHuntMultiBranchFalseEntry(t *testing.T) {
	ctx := context.Background()
	for _, mode := range []NodeTriggerMode{AnyPredecessor, AllPredecessor} {
		g := NewGraph[string, map[string]any]()
		_ = g.AddLambdaNode("b", InvokableLambda(func(ctx context.Context, in string) (string, error) { return "b ran", nil }), WithOutputKey("b"))
		_ = g.AddLambdaNode("c", InvokableLambda(func(ctx context.Context, in string) (string, error) { return "c ran", nil }), WithOutputKey("c"))
		_ = g.AddBranch(START, NewGraphMultiBranch(func(ctx context.Context, in string) (map[string]bool, error) {
			return map[string]bool{"b": true, "c": false}, nil
		}, map[string]bool{"b": true, "c": true}))
		_ = g.AddEdge("b", END)
		_ = g.AddEdge("c", END)
		r, err := g.Compile(ctx, WithNodeTriggerMode(mode))
		if err != nil {
			t.Fatal(err)
		}
		out, err := r.Invoke(ctx, "x")
		want := map[string]any{"b": "b ran"}
		if err != nil || !reflect.DeepEqual(out, want) {
			t.Errorf("[%s] condition returned {b:true, c:false}: got (%v, %v), want %v", mode, out, err, want)
		}
	}
}
