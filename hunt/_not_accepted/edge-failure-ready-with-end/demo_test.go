// Place as compose/hunt_edge_failure_ready_with_end_test.go (package compose: uses concatStreamReader).
// Run: go test -mod=mod -vet=off -count=1 -run TestHuntEdgeFailureReadyWithEnd ./compose/
//
// A (output type any) feeds END and X (input string, run-time checked edge). END and X become ready in the
// same step, the run returns at END and X never starts. Stream returns 5; Invoke fails with the run-time type
// check of the edge A->X although X never gets to read the value.
package compose

import (
	"context"
	"testing"
)

func TestHuntEdgeFailureReadyWithEnd(t *testing.T) {
	for _, mode := range []string{"workflow", "graph"} {
		var r Runnable[string, any]
		var err error
		a := InvokableLambda(func(ctx context.Context, in string) (any, error) { return 5, nil })
		x := InvokableLambda(func(ctx context.Context, in string) (string, error) { t.Error("X ran"); return in, nil })
		if mode == "workflow" {
			wf := NewWorkflow[string, any]()
			wf.AddLambdaNode("A", a).AddInput(START)
			wf.AddLambdaNode("X", x).AddInput("A")
			wf.End().AddInput("A")
			r, err = wf.Compile(context.Background())
		} else {
			g := NewGraph[string, any]()
			_ = g.AddLambdaNode("A", a)
			_ = g.AddLambdaNode("X", x)
			_ = g.AddLambdaNode("Y", InvokableLambda(func(ctx context.Context, in string) (any, error) { return in, nil }))
			_ = g.AddEdge(START, "A")
			_ = g.AddEdge("A", "X")
			_ = g.AddEdge("A", END)
			_ = g.AddEdge("X", "Y")
			_ = g.AddEdge("Y", END)
			r, err = g.Compile(context.Background(), WithNodeTriggerMode(AnyPredecessor))
		}
		if err != nil {
			t.Fatal(mode, err)
		}
		out, ierr := r.Invoke(context.Background(), "in")
		t.Logf("%s invoke: %v %v", mode, out, ierr)
		sr, serr := r.Stream(context.Background(), "in")
		var sout any
		if serr == nil {
			sout, serr = concatStreamReader(sr)
		}
		t.Logf("%s stream: %v %v", mode, sout, serr)
		if (ierr == nil) != (serr == nil) {
			t.Errorf("%s: invoke err=%v stream err=%v", mode, ierr, serr)
		}
	}
}
