package schema

// Place as schema/hunt_convert_nil_iface_test.go (package schema; only the public API is used).

import (
	"errors"
	"fmt"
	"io"
	"testing"
)

// C08: "a converted stream maps item-wise". An item whose value is the nil value of an interface
// chunk type (StreamReader[any], StreamReader[error], StreamReader[fmt.Stringer] ...) is a
// perfectly valid item: Pipe, array readers, Copy and Merge deliver it. A converted stream
// panics on it inside Recv instead of mapping it.
func TestHuntConvertNilInterfaceChunk(t *testing.T) {
	recvAll := func(name string, sr *StreamReader[string]) (out []string, err error) {
		defer func() {
			if p := recover(); p != nil {
				err = fmt.Errorf("%s: Recv panicked: %v", name, p)
			}
		}()
		for {
			s, e := sr.Recv()
			if errors.Is(e, io.EOF) {
				return out, nil
			}
			if e != nil {
				return out, e
			}
			out = append(out, s)
		}
	}

	// chunk type any
	src := StreamReaderFromArray([]any{1, nil, "x"})
	conv := StreamReaderWithConvert(src, func(v any) (string, error) { return fmt.Sprint(v), nil })
	got, err := recvAll("StreamReader[any]", conv)
	if err != nil {
		t.Errorf("expected the three items [1 <nil> x] mapped item-wise, got %v and %v", got, err)
	} else if fmt.Sprint(got) != "[1 <nil> x]" {
		t.Errorf("expected [1 <nil> x], got %v", got)
	}

	// chunk type error, through a pipe
	sr, sw := Pipe[error](3)
	sw.Send(errors.New("e1"), nil)
	sw.Send(nil, nil) // a nil error *value* (not an error item)
	sw.Close()
	conv2 := StreamReaderWithConvert(sr, func(v error) (string, error) { return fmt.Sprint(v), nil })
	got, err = recvAll("StreamReader[error]", conv2)
	if err != nil {
		t.Errorf("expected [e1 <nil>], got %v and %v", got, err)
	} else if fmt.Sprint(got) != "[e1 <nil>]" {
		t.Errorf("expected [e1 <nil>], got %v", got)
	}
}
