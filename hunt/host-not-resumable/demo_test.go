package host

// place as flow/agent/multiagent/host/hunt_host_resume_demo_test.go

import (
	"context"
	"sync"
	"testing"

	"github.com/cloudwego/eino/components/model"
	"github.com/cloudwego/eino/compose"
	"github.com/cloudwego/eino/schema"
)

type hostResumeModel struct {
	f func(in []*schema.Message) *schema.Message
}

func (m *hostResumeModel) WithTools([]*schema.ToolInfo) (model.ToolCallingChatModel, error) {
	return m, nil
}
func (m *hostResumeModel) Generate(_ context.Context, in []*schema.Message, _ ...model.Option) (*schema.Message, error) {
	return m.f(in), nil
}
func (m *hostResumeModel) Stream(_ context.Context, in []*schema.Message, _ ...model.Option) (*schema.StreamReader[*schema.Message], error) {
	return schema.StreamReaderFromArray([]*schema.Message{m.f(in)}), nil
}

type hostResumeStore struct {
	mu sync.Mutex
	m  map[string][]byte
}

func (s *hostResumeStore) Get(_ context.Context, id string) ([]byte, bool, error) {
	s.mu.Lock()
	defer s.mu.Unlock()
	b, ok := s.m[id]
	return b, ok, nil
}
func (s *hostResumeStore) Set(_ context.Context, id string, b []byte) error {
	s.mu.Lock()
	defer s.mu.Unlock()
	s.m[id] = append([]byte(nil), b...)
	return nil
}

// The multi-agent's graph (MultiAgent.ExportGraph) nested in a graph with a checkpoint store, with an interrupt
// point before the specialist ("let a human approve the hand-off"). Expected: the run is reported as an interrupt
// and the resumed run gives the answer of the uninterrupted run.
func TestHuntHostMultiAgentInterruptResume(t *testing.T) {
	ctx := context.Background()
	build := func(interrupt bool) compose.Runnable[[]*schema.Message, *schema.Message] {
		hostM := &hostResumeModel{f: func(in []*schema.Message) *schema.Message {
			return &schema.Message{Role: schema.Assistant, ToolCalls: []schema.ToolCall{
				{ID: "1", Function: schema.FunctionCall{Name: "spec", Arguments: "{}"}}}}
		}}
		specM := &hostResumeModel{f: func(in []*schema.Message) *schema.Message {
			s := ""
			for _, x := range in {
				s += string(x.Role) + ":" + x.Content + "|"
			}
			return &schema.Message{Role: schema.Assistant, Content: "specialist saw " + s}
		}}
		ma, err := NewMultiAgent(ctx, &MultiAgentConfig{
			Host: Host{ToolCallingModel: hostM},
			Specialists: []*Specialist{
				{AgentMeta: AgentMeta{Name: "spec", IntendedUse: "x"}, ChatModel: specM},
				{AgentMeta: AgentMeta{Name: "spec2", IntendedUse: "x"}, ChatModel: specM}},
		})
		if err != nil {
			t.Fatal(err)
		}
		g, _ := ma.ExportGraph()
		copts := []compose.GraphCompileOption{compose.WithNodeTriggerMode(compose.AnyPredecessor), compose.WithGraphName("h")}
		if interrupt {
			copts = append(copts, compose.WithInterruptBeforeNodes([]string{"spec"}))
		}
		parent := compose.NewGraph[[]*schema.Message, *schema.Message]()
		if err = parent.AddGraphNode("ma", g, compose.WithGraphCompileOptions(copts...)); err != nil {
			t.Fatal(err)
		}
		_ = parent.AddEdge(compose.START, "ma")
		_ = parent.AddEdge("ma", compose.END)
		r, err := parent.Compile(ctx, compose.WithCheckPointStore(&hostResumeStore{m: map[string][]byte{}}))
		if err != nil {
			t.Fatal(err)
		}
		return r
	}
	in := []*schema.Message{schema.UserMessage("hi")}
	want, err := build(false).Invoke(ctx, in, compose.WithCheckPointID("c"))
	if err != nil {
		t.Fatal(err)
	}
	r := build(true)
	_, err = r.Invoke(ctx, in, compose.WithCheckPointID("c"))
	if _, ok := compose.ExtractInterruptInfo(err); !ok {
		t.Fatalf("the specialist is an interrupt-before node; expected an interrupt error carrying InterruptInfo "+
			"(and a checkpoint under the given id), got: %.300v", err)
	}
	got, err := r.Invoke(ctx, in, compose.WithCheckPointID("c"))
	if err != nil {
		t.Fatalf("resume failed: %.300v", err)
	}
	if got.Content != want.Content {
		t.Fatalf("resumed run answered %q, uninterrupted run %q", got.Content, want.Content)
	}
}
