package compose

// Place as compose/hunt_unknown_tool_callbacks_test.go (package compose; only the public API is used).

import (
	"context"
	"fmt"
	"sort"
	"sync"
	"testing"

	"github.com/cloudwego/eino/callbacks"
	"github.com/cloudwego/eino/components"
	"github.com/cloudwego/eino/components/tool"
	"github.com/cloudwego/eino/schema"
)

type huntEchoTool struct{ name string }

func (e *huntEchoTool) Info(context.Context) (*schema.ToolInfo, error) {
	return &schema.ToolInfo{Name: e.name}, nil
}

func (e *huntEchoTool) InvokableRun(_ context.Context, args string, _ ...tool.Option) (string, error) {
	return e.name + ":" + args, nil
}

// C10: every handler that applies to an execution unit - "the graph itself, each node execution,
// each tool call" - fires exactly once at its start and once at its end. A tool call that is
// answered by the configured UnknownToolsHandler is a tool call like any other (it gets its own
// tool message in the answer), but no callback at all fires for it, in either paradigm.
func TestHuntUnknownToolCallHasNoCallbacks(t *testing.T) {
	ctx := context.Background()

	tn, err := NewToolNode(ctx, &ToolsNodeConfig{
		Tools: []tool.BaseTool{&huntEchoTool{name: "known"}},
		UnknownToolsHandler: func(ctx context.Context, name, input string) (string, error) {
			return "no such tool: " + name, nil
		},
	})
	if err != nil {
		t.Fatal(err)
	}

	g := NewGraph[*schema.Message, []*schema.Message]()
	if err = g.AddToolsNode("tools", tn); err != nil {
		t.Fatal(err)
	}
	_ = g.AddEdge(START, "tools")
	_ = g.AddEdge("tools", END)
	r, err := g.Compile(ctx)
	if err != nil {
		t.Fatal(err)
	}

	in := schema.AssistantMessage("", []schema.ToolCall{
		{ID: "1", Function: schema.FunctionCall{Name: "known", Arguments: "a"}},
		{ID: "2", Function: schema.FunctionCall{Name: "hallucinated", Arguments: "b"}},
	})

	for _, mode := range []string{"invoke", "stream"} {
		var mu sync.Mutex
		starts, ends := map[string]int{}, map[string]int{}
		count := func(m map[string]int) func(info *callbacks.RunInfo) {
			return func(info *callbacks.RunInfo) {
				if info.Component != components.ComponentOfTool {
					return
				}
				mu.Lock()
				m[info.Name]++
				mu.Unlock()
			}
		}
		onStart, onEnd := count(starts), count(ends)
		h := callbacks.NewHandlerBuilder().
			OnStartFn(func(ctx context.Context, info *callbacks.RunInfo, _ callbacks.CallbackInput) context.Context {
				onStart(info)
				return ctx
			}).
			OnEndFn(func(ctx context.Context, info *callbacks.RunInfo, _ callbacks.CallbackOutput) context.Context {
				onEnd(info)
				return ctx
			}).
			OnEndWithStreamOutputFn(func(ctx context.Context, info *callbacks.RunInfo, out *schema.StreamReader[callbacks.CallbackOutput]) context.Context {
				out.Close()
				onEnd(info)
				return ctx
			}).Build()

		var out []*schema.Message
		if mode == "invoke" {
			out, err = r.Invoke(ctx, in, WithCallbacks(h))
		} else {
			var sr *schema.StreamReader[[]*schema.Message]
			if sr, err = r.Stream(ctx, in, WithCallbacks(h)); err == nil {
				out, err = concatStreamReader(sr)
			}
		}
		if err != nil {
			t.Fatal(err)
		}
		if len(out) != 2 || out[1].Content != "no such tool: hallucinated" {
			t.Fatalf("%s: unexpected answer %v", mode, out)
		}

		show := func(m map[string]int) string {
			var ks []string
			for k, v := range m {
				ks = append(ks, fmt.Sprintf("%s=%d", k, v))
			}
			sort.Strings(ks)
			return fmt.Sprint(ks)
		}
		if starts["known"] != 1 || ends["known"] != 1 || starts["hallucinated"] != 1 || ends["hallucinated"] != 1 {
			t.Errorf("%s: expected exactly one start and one end callback for each of the two tool calls "+
				"(known, hallucinated); got starts %s, ends %s", mode, show(starts), show(ends))
		}
	}
}
