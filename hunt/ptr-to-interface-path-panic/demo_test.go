// Place at compose/hunt_ptr_to_iface_path_test.go (package-internal test of package compose).
//
// checkAndExtractFieldType (the compile-time check of a field path) dereferences a pointer and then accepts
// whatever it finds below it that is a struct OR an interface. The request-time walks (takeOne for the
// source, assignOne for the target) only follow a pointer to a struct. A path through a field of type *any
// (or a pointer to any other interface type) therefore compiles - commit 4ebf868 closed this gap for **T
// only - and then every run panics: the source walk panics out of Invoke, the target walk panics with
// "convertTo failed when must succeed".
package compose

import (
	"context"
	"fmt"
	"strings"
	"testing"
)

type huntPtrIfaceSrc struct {
	PA *any
}

type huntPtrIfaceTgt struct {
	PA *any
	S  string
}

func huntPtrIfaceRun[I, O any](t *testing.T, name string, r Runnable[I, O], in I) {
	ctx := context.Background()
	func() {
		defer func() {
			if e := recover(); e != nil {
				t.Errorf("%s: Invoke PANICS: %.200v", name, e)
			}
		}()
		out, err := r.Invoke(ctx, in)
		if err != nil && strings.Contains(err.Error(), "panic") {
			t.Errorf("%s: Invoke: error is a recovered panic: %.200v", name, err)
		}
		t.Logf("%s: Invoke: %v, %.100v", name, out, err)
	}()
	func() {
		defer func() {
			if e := recover(); e != nil {
				t.Errorf("%s: Stream PANICS: %.200v", name, e)
			}
		}()
		sr, err := r.Stream(ctx, in)
		var out O
		if err == nil {
			out, err = sr.Recv()
			sr.Close()
		}
		if err != nil && strings.Contains(err.Error(), "panic") {
			t.Errorf("%s: Stream: error is a recovered panic: %.200v", name, err)
		}
		t.Logf("%s: Stream: %v, %.100v", name, out, err)
	}()
}

func TestHuntPtrToInterfaceSourcePath(t *testing.T) {
	ctx := context.Background()
	wf := NewWorkflow[huntPtrIfaceSrc, string]()
	wf.End().AddInput(START, FromFieldPath(FieldPath{"PA", "x"}))
	r, err := wf.Compile(ctx)
	if err != nil {
		t.Logf("rejected at compile time (fine): %v", err)
		return
	}
	var a any = map[string]any{"x": "v"}
	huntPtrIfaceRun(t, "source PA.x", r, huntPtrIfaceSrc{PA: &a})
}

func TestHuntPtrToInterfaceTargetPath(t *testing.T) {
	ctx := context.Background()
	wf := NewWorkflow[string, string]()
	wf.AddLambdaNode("n", InvokableLambda(func(ctx context.Context, in huntPtrIfaceTgt) (string, error) {
		return fmt.Sprintf("%v %v", in.PA, in.S), nil
	})).AddInput(START, ToFieldPath(FieldPath{"PA", "x"}))
	wf.End().AddInput("n")
	r, err := wf.Compile(ctx)
	if err != nil {
		t.Logf("rejected at compile time (fine): %v", err)
		return
	}
	huntPtrIfaceRun(t, "target PA.x", r, "v")
}

func TestHuntPtrToInterfaceStaticValue(t *testing.T) {
	ctx := context.Background()
	wf := NewWorkflow[string, string]()
	wf.AddLambdaNode("n", InvokableLambda(func(ctx context.Context, in huntPtrIfaceTgt) (string, error) {
		return fmt.Sprintf("%v %v", in.PA, in.S), nil
	})).AddInput(START, ToField("S")).SetStaticValue(FieldPath{"PA", "x"}, 1)
	wf.End().AddInput("n")
	r, err := wf.Compile(ctx)
	if err != nil {
		t.Logf("rejected at compile time (fine): %v", err)
		return
	}
	huntPtrIfaceRun(t, "static PA.x", r, "v")
}
