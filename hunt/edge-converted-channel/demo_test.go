package compose

// Place as compose/hunt_edge_converted_channel_test.go and run
//   go test -mod=mod -vet=off -count=1 -run TestHuntEdgeConverted ./compose/

import (
	"context"
	"fmt"
	"testing"
)

type eccStore struct{ m map[string][]byte }

func (s *eccStore) Get(_ context.Context, id string) ([]byte, bool, error) {
	v, ok := s.m[id]
	return v, ok, nil
}
func (s *eccStore) Set(_ context.Context, id string, b []byte) error {
	s.m[id] = append([]byte(nil), b...)
	return nil
}

type eccAOut struct{ F string }
type eccBOut struct{ G string }

func eccStream[O any](t *testing.T, r Runnable[string, O], opts ...Option) (O, error) {
	sr, err := r.Stream(context.Background(), "in", opts...)
	if err != nil {
		var o O
		return o, err
	}
	return concatStreamReader(sr)
}

// Workflow (all-predecessor, eager):  START -> A --F:X--> C,  START -> B0 -> B --G:Y--> C,  C -> END
// interrupt-before B: when the interrupt is taken, A's (field-mapped) output already sits in C's channel.
func TestHuntEdgeConvertedFieldMapping(t *testing.T) {
	build := func(interrupt bool) Runnable[string, string] {
		wf := NewWorkflow[string, string]()
		wf.AddLambdaNode("A", InvokableLambda(func(ctx context.Context, in string) (eccAOut, error) { return eccAOut{F: in + "a"}, nil })).AddInput(START)
		wf.AddLambdaNode("B0", InvokableLambda(func(ctx context.Context, in string) (string, error) { return in + "b0", nil })).AddInput(START)
		wf.AddLambdaNode("B", InvokableLambda(func(ctx context.Context, in string) (eccBOut, error) { return eccBOut{G: in + "b"}, nil })).AddInput("B0")
		wf.AddLambdaNode("C", InvokableLambda(func(ctx context.Context, in map[string]any) (string, error) {
			return fmt.Sprint(in["X"], "|", in["Y"]), nil
		})).
			AddInput("A", MapFields("F", "X")).AddInput("B", MapFields("G", "Y"))
		wf.End().AddInput("C")
		opts := []GraphCompileOption{WithCheckPointStore(&eccStore{m: map[string][]byte{}})}
		if interrupt {
			opts = append(opts, WithInterruptBeforeNodes([]string{"B"}))
		}
		r, err := wf.Compile(context.Background(), opts...)
		if err != nil {
			t.Fatal(err)
		}
		return r
	}
	want, err := eccStream(t, build(false))
	if err != nil {
		t.Fatalf("uninterrupted Stream run failed: %v", err)
	}

	r := build(true)
	_, err = eccStream(t, r, WithCheckPointID("cp"))
	info, ok := ExtractInterruptInfo(err)
	if !ok {
		t.Fatalf("Stream run with interrupt-before B: expected an error carrying the interrupt info (BeforeNodes=[B]) and a checkpoint, got: %v", err)
	}
	if fmt.Sprint(info.BeforeNodes) != "[B]" {
		t.Fatalf("BeforeNodes = %v, expected [B]", info.BeforeNodes)
	}
	got, err := eccStream(t, r, WithCheckPointID("cp"))
	if err != nil || got != want {
		t.Fatalf("resumed Stream run: (%q, %v), expected the output of the uninterrupted run %q", got, err, want)
	}
}

// Same workflow, interrupted with Invoke and resumed with Stream (mixing paradigms).
func TestHuntEdgeConvertedFieldMappingMixed(t *testing.T) {
	wf := NewWorkflow[string, string]()
	wf.AddLambdaNode("A", InvokableLambda(func(ctx context.Context, in string) (eccAOut, error) { return eccAOut{F: in + "a"}, nil })).AddInput(START)
	wf.AddLambdaNode("B0", InvokableLambda(func(ctx context.Context, in string) (string, error) { return in + "b0", nil })).AddInput(START)
	wf.AddLambdaNode("B", InvokableLambda(func(ctx context.Context, in string) (eccBOut, error) { return eccBOut{G: in + "b"}, nil })).AddInput("B0")
	wf.AddLambdaNode("C", InvokableLambda(func(ctx context.Context, in map[string]any) (string, error) {
		return fmt.Sprint(in["X"], "|", in["Y"]), nil
	})).
		AddInput("A", MapFields("F", "X")).AddInput("B", MapFields("G", "Y"))
	wf.End().AddInput("C")
	r, err := wf.Compile(context.Background(), WithCheckPointStore(&eccStore{m: map[string][]byte{}}), WithInterruptBeforeNodes([]string{"B"}))
	if err != nil {
		t.Fatal(err)
	}
	_, err = r.Invoke(context.Background(), "in", WithCheckPointID("cp"))
	if _, ok := ExtractInterruptInfo(err); !ok {
		t.Fatalf("expected an interrupt, got %v", err)
	}
	got, err := eccStream(t, r, WithCheckPointID("cp"))
	if err != nil || got != "ina|inb0b" {
		t.Fatalf("run interrupted with Invoke and resumed with Stream: (%q, %v), expected %q", got, err, "ina|inb0b")
	}
}

// Pregel graph:  START -> A(any) -> C(string) -> END   and   START -> R -> R2 -> END
// the edge A->C needs a runtime type check (any -> string). R asks to be re-run in the first step, so
// A's completed output is parked in C's channel when the checkpoint is taken.
func TestHuntEdgeConvertedRuntimeCheckedEdge(t *testing.T) {
	build := func(interrupt bool) Runnable[string, map[string]any] {
		first := interrupt
		g := NewGraph[string, map[string]any]()
		_ = g.AddLambdaNode("A", InvokableLambda(func(ctx context.Context, in string) (any, error) { return in + "a", nil }))
		_ = g.AddLambdaNode("R", InvokableLambda(func(ctx context.Context, in string) (string, error) {
			if first {
				first = false
				return "", InterruptAndRerun
			}
			return "r", nil
		}))
		_ = g.AddLambdaNode("C", InvokableLambda(func(ctx context.Context, in string) (string, error) { return in + "c", nil }), WithOutputKey("c"))
		_ = g.AddLambdaNode("R2", InvokableLambda(func(ctx context.Context, in string) (string, error) { return in + "r2", nil }), WithOutputKey("r"))
		_ = g.AddEdge(START, "A")
		_ = g.AddEdge(START, "R")
		_ = g.AddEdge("A", "C")
		_ = g.AddEdge("R", "R2")
		_ = g.AddEdge("C", END)
		_ = g.AddEdge("R2", END)
		r, err := g.Compile(context.Background(), WithCheckPointStore(&eccStore{m: map[string][]byte{}}))
		if err != nil {
			t.Fatal(err)
		}
		return r
	}
	want, err := eccStream(t, build(false))
	if err != nil {
		t.Fatalf("uninterrupted Stream run failed: %v", err)
	}
	r := build(true)
	_, err = eccStream(t, r, WithCheckPointID("cp"))
	if info, ok := ExtractInterruptInfo(err); !ok || fmt.Sprint(info.RerunNodes) != "[R]" {
		t.Fatalf("expected an interrupt with RerunNodes=[R], got %v", err)
	}
	got, err := eccStream(t, r, WithCheckPointID("cp"))
	if err != nil || fmt.Sprint(got) != fmt.Sprint(want) {
		t.Fatalf("resumed Stream run: (%v, %v)\n  expected the output of the uninterrupted run %v", got, err, want)
	}
}
