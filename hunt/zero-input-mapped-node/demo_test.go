package compose

// Place as compose/hunt_demo_test.go (package compose, public API only).

import (
	"context"
	"io"
	"testing"
)

type huntZeroIn struct{ F string }

func huntZeroCall(f func() error) (err error, panicked any) {
	defer func() {
		if p := recover(); p != nil {
			panicked = p
		}
	}()
	return f(), nil
}

// Workflow:   START -> p -branch-> {d | c}     (the branch always picks c, so d is skipped)
//
//	b: struct input, field F mapped from d (data + control), plus a control-only dependency on c
//	END <- b
//
// b's control predecessors are {d: skipped, c: finished}: one of them routed to b, so b must run.
// None of its data predecessors ran, so its input is the zero value huntZeroIn{}.
// The all-predecessor channel indeed hands out the zero value - of the node's declared input type,
// while the node's pre-handler (the field-mapping converter) expects the map[string]any that field
// mappings produce: a panic on the run loop, i.e. on the caller's goroutine.
func TestHuntZeroInputOfMappedNode(t *testing.T) {
	ctx := context.Background()
	id := func(suffix string) *Lambda {
		return InvokableLambda(func(ctx context.Context, in string) (string, error) { return in + suffix, nil })
	}
	wf := NewWorkflow[string, string]()
	wf.AddLambdaNode("p", id("p")).AddInput(START)
	wf.AddLambdaNode("d", id("d")).AddInputWithOptions("p", nil, WithNoDirectDependency())
	wf.AddLambdaNode("c", id("c")).AddInputWithOptions("p", nil, WithNoDirectDependency())
	wf.AddBranch("p", NewGraphBranch(func(ctx context.Context, in string) (string, error) { return "c", nil },
		map[string]bool{"d": true, "c": true}))
	wf.AddLambdaNode("b", InvokableLambda(func(ctx context.Context, in huntZeroIn) (string, error) {
		return "b ran with F=" + in.F, nil
	})).AddInput("d", ToField("F")).AddDependency("c")
	wf.End().AddInput("b")
	r, err := wf.Compile(ctx)
	if err != nil {
		t.Fatal(err)
	}
	const want = "b ran with F="

	var out string
	err, p := huntZeroCall(func() error {
		var e error
		out, e = r.Invoke(ctx, "s")
		return e
	})
	if p != nil {
		t.Errorf("Invoke panicked on the caller's goroutine: %v (want %q: b runs on the zero value)", p, want)
	} else if err != nil {
		t.Errorf("Invoke failed: %.200v (want %q)", err, want)
	} else if out != want {
		t.Errorf("Invoke = %q, want %q", out, want)
	}

	out = ""
	err, p = huntZeroCall(func() error {
		sr, e := r.Stream(ctx, "s")
		if e != nil {
			return e
		}
		defer sr.Close()
		for {
			c, e := sr.Recv()
			if e == io.EOF {
				return nil
			}
			if e != nil {
				return e
			}
			out += c
		}
	})
	if p != nil {
		t.Errorf("Stream panicked on the caller's goroutine: %v (want %q)", p, want)
	} else if err != nil {
		t.Errorf("Stream failed: %.200v (want %q)", err, want)
	} else if out != want {
		t.Errorf("Stream = %q, want %q", out, want)
	}
}

// The same for END: the workflow's output is a struct assembled by field mappings, and the only
// data predecessor of END was skipped while a control-only predecessor finished.
func TestHuntZeroInputOfMappedEnd(t *testing.T) {
	ctx := context.Background()
	id := func(suffix string) *Lambda {
		return InvokableLambda(func(ctx context.Context, in string) (string, error) { return in + suffix, nil })
	}
	wf := NewWorkflow[string, huntZeroIn]()
	wf.AddLambdaNode("p", id("p")).AddInput(START)
	wf.AddLambdaNode("d", id("d")).AddInputWithOptions("p", nil, WithNoDirectDependency())
	wf.AddLambdaNode("c", id("c")).AddInputWithOptions("p", nil, WithNoDirectDependency())
	wf.AddBranch("p", NewGraphBranch(func(ctx context.Context, in string) (string, error) { return "c", nil },
		map[string]bool{"d": true, "c": true}))
	wf.End().AddInput("d", ToField("F")).AddDependency("c")
	r, err := wf.Compile(ctx)
	if err != nil {
		t.Fatal(err)
	}
	var out huntZeroIn
	err, p := huntZeroCall(func() error {
		var e error
		out, e = r.Invoke(ctx, "s")
		return e
	})
	if p != nil {
		t.Errorf("Invoke panicked on the caller's goroutine: %v (want the zero value of the output)", p)
	} else if err != nil {
		t.Errorf("Invoke failed: %.200v (want the zero value of the output)", err)
	} else if out != (huntZeroIn{}) {
		t.Errorf("Invoke = %v", out)
	}
}
