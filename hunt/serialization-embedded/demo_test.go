package compose

// Place as compose/hunt_demo_embedded_state_test.go (package compose, public API only).

import (
	"context"
	"fmt"
	"strings"
	"testing"
)

// the state embeds a small helper struct of an unexported type; its exported fields Steps and Owner
// are promoted: they are exported fields of embDemoState (encoding/json, for one, writes them)
type embDemoTrail struct {
	Steps []string
	Owner string
}

type embDemoState struct {
	embDemoTrail
	Count int
}

type embDemoStore struct{ m map[string][]byte }

func (s *embDemoStore) Get(_ context.Context, id string) ([]byte, bool, error) {
	v, ok := s.m[id]
	return v, ok, nil
}
func (s *embDemoStore) Set(_ context.Context, id string, b []byte) error {
	s.m[id] = append([]byte(nil), b...)
	return nil
}

func TestDemoPromotedFieldsLostInCheckpoint(t *testing.T) {
	_ = RegisterSerializableType[embDemoState]("hunt_emb_demo_state")
	build := func(opts ...GraphCompileOption) Runnable[string, string] {
		g := NewGraph[string, string](WithGenLocalState(func(ctx context.Context) *embDemoState {
			return &embDemoState{embDemoTrail: embDemoTrail{Owner: "alice"}}
		}))
		step := func(name string) *Lambda {
			return InvokableLambda(func(ctx context.Context, in string) (string, error) {
				err := ProcessState(ctx, func(ctx context.Context, s *embDemoState) error {
					s.Steps = append(s.Steps, name)
					s.Count++
					return nil
				})
				return in + name, err
			})
		}
		_ = g.AddLambdaNode("a", step("a"))
		_ = g.AddLambdaNode("b", step("b"))
		_ = g.AddLambdaNode("report", InvokableLambda(func(ctx context.Context, in string) (out string, err error) {
			err = ProcessState(ctx, func(ctx context.Context, s *embDemoState) error {
				out = fmt.Sprintf("%s owner=%s steps=%s count=%d", in, s.Owner, strings.Join(s.Steps, ","), s.Count)
				return nil
			})
			return out, err
		}))
		_ = g.AddEdge(START, "a")
		_ = g.AddEdge("a", "b")
		_ = g.AddEdge("b", "report")
		_ = g.AddEdge("report", END)
		r, err := g.Compile(context.Background(), opts...)
		if err != nil {
			t.Fatal(err)
		}
		return r
	}
	ctx := context.Background()
	want, err := build().Invoke(ctx, "_")
	if err != nil {
		t.Fatal(err)
	}

	r := build(WithCheckPointStore(&embDemoStore{m: map[string][]byte{}}), WithInterruptAfterNodes([]string{"a"}))
	_, err = r.Invoke(ctx, "_", WithCheckPointID("x"))
	if _, ok := ExtractInterruptInfo(err); !ok {
		// refusing the state loudly would be acceptable for C12
		t.Logf("the interrupt failed loudly: %v", err)
		return
	}
	got, err := r.Invoke(ctx, "_", WithCheckPointID("x"))
	if err != nil {
		t.Fatal(err)
	}
	if got != want {
		t.Fatalf("C12/C11/C05: the state did not survive the checkpoint: the exported fields promoted from the embedded struct came back empty, without any error\n got: %q\nwant: %q", got, want)
	}
}
