package compose

// Place as compose/hunt_nil_interface_chunk_test.go and run
//   go test -mod=mod -vet=off -count=1 -run TestHuntNilInterfaceChunk ./compose/

import (
	"context"
	"fmt"
	"testing"
)

type nicStore struct{ m map[string][]byte }

func (s *nicStore) Get(_ context.Context, id string) ([]byte, bool, error) {
	v, ok := s.m[id]
	return v, ok, nil
}
func (s *nicStore) Set(_ context.Context, id string, b []byte) error {
	s.m[id] = append([]byte(nil), b...)
	return nil
}

// START -> A -> B -> END, streaming run. A's output type is an interface (any) and the value it
// produces is nil; B is written to cope with that. Interrupt-before B and resume must hand B the
// same input as the uninterrupted run does.
func TestHuntNilInterfaceChunk(t *testing.T) {
	build := func(interrupt bool) Runnable[string, string] {
		g := NewGraph[string, string]()
		_ = g.AddLambdaNode("A", InvokableLambda(func(ctx context.Context, in string) (any, error) { return nil, nil }))
		_ = g.AddLambdaNode("B", InvokableLambda(func(ctx context.Context, in any) (string, error) { return fmt.Sprintf("B got %v", in), nil }))
		_ = g.AddEdge(START, "A")
		_ = g.AddEdge("A", "B")
		_ = g.AddEdge("B", END)
		opts := []GraphCompileOption{WithCheckPointStore(&nicStore{m: map[string][]byte{}})}
		if interrupt {
			opts = append(opts, WithInterruptBeforeNodes([]string{"B"}))
		}
		r, err := g.Compile(context.Background(), opts...)
		if err != nil {
			t.Fatal(err)
		}
		return r
	}
	stream := func(r Runnable[string, string], opts ...Option) (string, error) {
		sr, err := r.Stream(context.Background(), "in", opts...)
		if err != nil {
			return "", err
		}
		return concatStreamReader(sr)
	}
	want, err := stream(build(false))
	if err != nil {
		t.Fatalf("uninterrupted Stream run failed: %v", err)
	}

	r := build(true)
	_, err = stream(r, WithCheckPointID("cp"))
	if info, ok := ExtractInterruptInfo(err); !ok || fmt.Sprint(info.BeforeNodes) != "[B]" {
		t.Fatalf("expected an interrupt before B, got %v", err)
	}
	got, err := stream(r, WithCheckPointID("cp"))
	if err != nil || got != want {
		t.Fatalf("resumed Stream run: (%q, %v)\n  expected the output of the uninterrupted Stream run: %q\n  (B's pending input, a stream holding one nil chunk, came back from the checkpoint as an empty stream)", got, err, want)
	}
}
