package react

// place as flow/agent/react/hunt_future_nested_demo_test.go

import (
	"context"
	"testing"

	"github.com/cloudwego/eino/components/model"
	"github.com/cloudwego/eino/components/tool"
	"github.com/cloudwego/eino/compose"
	"github.com/cloudwego/eino/schema"
)

type futNestedModel struct{}

func (m *futNestedModel) WithTools([]*schema.ToolInfo) (model.ToolCallingChatModel, error) {
	return m, nil
}
func (m *futNestedModel) answer(in []*schema.Message) *schema.Message {
	last := in[len(in)-1]
	if last.Role == schema.User {
		return &schema.Message{Role: schema.Assistant, ToolCalls: []schema.ToolCall{
			{ID: "1", Function: schema.FunctionCall{Name: "sub", Arguments: "x"}}}}
	}
	return &schema.Message{Role: schema.Assistant, Content: "final:" + last.Content}
}
func (m *futNestedModel) Generate(_ context.Context, in []*schema.Message, _ ...model.Option) (*schema.Message, error) {
	return m.answer(in), nil
}
func (m *futNestedModel) Stream(_ context.Context, in []*schema.Message, _ ...model.Option) (*schema.StreamReader[*schema.Message], error) {
	return schema.StreamReaderFromArray([]*schema.Message{m.answer(in)}), nil
}

// a tool implemented by a compiled graph, run with the context the tool is given (as any tool built on eino does)
type futNestedTool struct {
	r compose.Runnable[string, string]
}

func (t *futNestedTool) Info(context.Context) (*schema.ToolInfo, error) {
	return &schema.ToolInfo{Name: "sub", Desc: "sub"}, nil
}
func (t *futNestedTool) InvokableRun(ctx context.Context, args string, _ ...tool.Option) (string, error) {
	return t.r.Invoke(ctx, args)
}

func TestHuntMessageFutureWithToolThatRunsAGraph(t *testing.T) {
	ctx := context.Background()
	inner := compose.NewGraph[string, string]()
	_ = inner.AddLambdaNode("l", compose.InvokableLambda(func(_ context.Context, s string) (string, error) { return "inner:" + s, nil }))
	_ = inner.AddEdge(compose.START, "l")
	_ = inner.AddEdge("l", compose.END)
	innerR, err := inner.Compile(ctx)
	if err != nil {
		t.Fatal(err)
	}
	newAgent := func() *Agent {
		ag, err := NewAgent(ctx, &AgentConfig{ToolCallingModel: &futNestedModel{},
			ToolsConfig: compose.ToolsNodeConfig{Tools: []tool.BaseTool{&futNestedTool{r: innerR}}}})
		if err != nil {
			t.Fatal(err)
		}
		return ag
	}
	in := []*schema.Message{schema.UserMessage("hi")}

	want, err := newAgent().Generate(ctx, in)
	if err != nil {
		t.Fatalf("without the option: %v", err)
	}

	// Generate
	opt, fut := WithMessageFuture()
	got, err := newAgent().Generate(ctx, in, opt)
	if err != nil {
		t.Fatalf("Generate with WithMessageFuture failed (without the option it answers %q): %.300v", want.Content, err)
	}
	if got.Content != want.Content {
		t.Fatalf("Generate with WithMessageFuture answered %q, without %q", got.Content, want.Content)
	}
	var roles []schema.RoleType
	for it := fut.GetMessages(); ; {
		m, ok, e := it.Next()
		if !ok {
			break
		}
		if e != nil {
			t.Fatalf("future: %v", e)
		}
		roles = append(roles, m.Role)
	}
	if len(roles) != 3 || roles[0] != schema.Assistant || roles[1] != schema.Tool || roles[2] != schema.Assistant {
		t.Fatalf("future delivered %v, expected [assistant tool assistant]", roles)
	}

	// Stream
	opt, fut = WithMessageFuture()
	sr, err := newAgent().Stream(ctx, in, opt)
	if err != nil {
		t.Fatalf("Stream with WithMessageFuture failed: %.300v", err)
	}
	m, err := schema.ConcatMessageStream(sr)
	if err != nil {
		t.Fatalf("Stream with WithMessageFuture failed: %.300v", err)
	}
	if m.Content != want.Content {
		t.Fatalf("Stream with WithMessageFuture answered %q, without %q", m.Content, want.Content)
	}
	n := 0
	for it := fut.GetMessageStreams(); ; {
		s, ok, e := it.Next()
		if !ok {
			break
		}
		if e != nil {
			t.Fatalf("future: %v", e)
		}
		s.Close()
		n++
	}
	if n != 3 {
		t.Fatalf("future delivered %d streams, expected 3", n)
	}
}
