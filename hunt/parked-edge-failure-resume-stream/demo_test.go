// Place as compose/hunt_edge_failure_resume_test.go (package compose).
// TestHuntEdgeFailureCheckpointStream and TestHuntStreamParkedUnreadable fail on the current tree; TestHuntEdgeFailureCheckpointStreamSelected
// (the control case: the target is selected, every variant has to fail) passes before and after the fix.
package compose

import (
	"context"
	"sync"
	"testing"
)

type huntEFStore struct {
	mu sync.Mutex
	m  map[string][]byte
}

func (s *huntEFStore) Get(ctx context.Context, id string) ([]byte, bool, error) {
	s.mu.Lock()
	defer s.mu.Unlock()
	v, ok := s.m[id]
	return v, ok, nil
}
func (s *huntEFStore) Set(ctx context.Context, id string, cp []byte) error {
	s.mu.Lock()
	defer s.mu.Unlock()
	s.m[id] = cp
	return nil
}
func newHuntEFStore() *huntEFStore { return &huntEFStore{m: map[string][]byte{}} }

func buildEdgeFailureWF(t *testing.T, store CheckPointStore, interrupt bool, pick ...string) Runnable[string, map[string]any] {
	sel := "U"
	if len(pick) > 0 {
		sel = pick[0]
	}
	wf := NewWorkflow[string, map[string]any]()
	wf.AddLambdaNode("A", InvokableLambda(func(ctx context.Context, in string) (any, error) { return "not-an-int", nil })).AddInput(START)
	wf.AddLambdaNode("B", InvokableLambda(func(ctx context.Context, in any) (string, error) { return "B", nil })).AddInput("A")
	// T gets A's output through a data-only input (run-time checked: any -> int), its control comes from the branch
	wf.AddLambdaNode("T", InvokableLambda(func(ctx context.Context, in int) (string, error) { return "T", nil })).
		AddInputWithOptions("A", nil, WithNoDirectDependency())
	wf.AddLambdaNode("U", InvokableLambda(func(ctx context.Context, in string) (string, error) { return "U" + in, nil })).
		AddInputWithOptions("B", nil, WithNoDirectDependency())
	wf.AddBranch("B", NewGraphBranch(func(ctx context.Context, in string) (string, error) { return sel, nil }, map[string]bool{"T": true, "U": true}))
	wf.End().AddInput("U", ToField("u")).AddInput("T2", ToField("t"))
	wf.AddLambdaNode("T2", InvokableLambda(func(ctx context.Context, in string) (string, error) { return in, nil })).AddInput("T")
	_ = wf
	opts := []GraphCompileOption{WithCheckPointStore(store)}
	if interrupt {
		opts = append(opts, WithInterruptAfterNodes([]string{"A"}))
	}
	r, err := wf.Compile(context.Background(), opts...)
	if err != nil {
		t.Fatal(err)
	}
	return r
}

func TestHuntEdgeFailureCheckpointStream(t *testing.T) {
	ctx := context.Background()
	// uninterrupted, both forms
	plain := buildEdgeFailureWF(t, newHuntEFStore(), false)
	out, err := plain.Invoke(ctx, "x")
	if err != nil {
		t.Fatalf("uninterrupted invoke: %v", err)
	}
	sr, err := plain.Stream(ctx, "x")
	if err != nil {
		t.Fatalf("uninterrupted stream: %v", err)
	}
	out2, err := concatStreamReader(sr)
	if err != nil || out2["u"] != out["u"] {
		t.Fatalf("uninterrupted stream: %v %v", err, out2)
	}
	t.Logf("uninterrupted: %v", out)

	for _, resumeStream := range []bool{false, true} {
		store := newHuntEFStore()
		r := buildEdgeFailureWF(t, store, true)
		_, err = r.Invoke(ctx, "x", WithCheckPointID("1"))
		if _, ok := ExtractInterruptInfo(err); !ok {
			t.Fatalf("expected interrupt, got %v", err)
		}
		var got map[string]any
		if resumeStream {
			sr, err = r.Stream(ctx, "", WithCheckPointID("1"))
			if err == nil {
				got, err = concatStreamReader(sr)
			}
		} else {
			got, err = r.Invoke(ctx, "", WithCheckPointID("1"))
		}
		if err != nil {
			t.Errorf("resumeStream=%v: resumed run fails although the uninterrupted run succeeds: %v", resumeStream, err)
			continue
		}
		if got["u"] != out["u"] || len(got) != len(out) {
			t.Errorf("resumeStream=%v: got %v want %v", resumeStream, got, out)
		}
	}
}

// the branch selects T: every variant has to fail with an ordinary error
func TestHuntEdgeFailureCheckpointStreamSelected(t *testing.T) {
	ctx := context.Background()
	plain := buildEdgeFailureWF(t, newHuntEFStore(), false, "T")
	if _, err := plain.Invoke(ctx, "x"); err == nil {
		t.Fatalf("uninterrupted invoke succeeds")
	}
	for _, resumeStream := range []bool{false, true} {
		store := newHuntEFStore()
		r := buildEdgeFailureWF(t, store, true, "T")
		_, err := r.Invoke(ctx, "x", WithCheckPointID("1"))
		if _, ok := ExtractInterruptInfo(err); !ok {
			t.Fatalf("expected interrupt, got %v", err)
		}
		if resumeStream {
			var sr interface{ Close() }
			s, e := r.Stream(ctx, "", WithCheckPointID("1"))
			err = e
			if e == nil {
				_, err = concatStreamReader(s)
			}
			_ = sr
		} else {
			_, err = r.Invoke(ctx, "", WithCheckPointID("1"))
		}
		if err == nil {
			t.Errorf("resumeStream=%v: resumed run succeeds", resumeStream)
		} else {
			t.Logf("resumeStream=%v: %v", resumeStream, err)
		}
	}
}

func buildStreamParked(t *testing.T, store CheckPointStore, interrupt bool) Runnable[any, any] {
	wf := NewWorkflow[any, any]()
	wf.AddLambdaNode("n1", InvokableLambda(func(ctx context.Context, in any) (any, error) { return 7, nil })).AddInput(START)
	wf.AddLambdaNode("n2", InvokableLambda(func(ctx context.Context, in int) (any, error) { return in + 1, nil })).
		AddInputWithOptions(START, nil, WithNoDirectDependency())
	wf.AddLambdaNode("n3", InvokableLambda(func(ctx context.Context, in any) (any, error) { return "n3", nil })).
		AddInputWithOptions(START, nil, WithNoDirectDependency())
	wf.AddBranch("n1", NewGraphBranch(func(ctx context.Context, in any) (string, error) { return "n3", nil }, map[string]bool{"n2": true, "n3": true}))
	wf.End().AddInput("n3").AddDependency("n2")
	opts := []GraphCompileOption{WithCheckPointStore(store)}
	if interrupt {
		opts = append(opts, WithInterruptBeforeNodes([]string{"n1"}))
	}
	r, err := wf.Compile(context.Background(), opts...)
	if err != nil {
		t.Fatal(err)
	}
	return r
}

func TestHuntStreamParkedUnreadable(t *testing.T) {
	ctx := context.Background()
	plain := buildStreamParked(t, newHuntEFStore(), false)
	o1, err := plain.Invoke(ctx, "in")
	if err != nil {
		t.Fatal(err)
	}
	sr, err := plain.Stream(ctx, "in")
	if err != nil {
		t.Fatal(err)
	}
	o2, err := concatStreamReader(sr)
	if err != nil || o1 != o2 {
		t.Fatal(err, o1, o2)
	}
	for _, stream := range []bool{false, true} {
		r := buildStreamParked(t, newHuntEFStore(), true)
		var err error
		if stream {
			_, err = r.Stream(ctx, "in", WithCheckPointID("1"))
		} else {
			_, err = r.Invoke(ctx, "in", WithCheckPointID("1"))
		}
		if _, ok := ExtractInterruptInfo(err); !ok {
			t.Errorf("stream=%v: expected the interrupt before n1, got: %v", stream, err)
			continue
		}
		out, err := r.Invoke(ctx, nil, WithCheckPointID("1"))
		if err != nil || out != o1 {
			t.Errorf("stream=%v: resume: %v %v", stream, out, err)
		}
	}
}
