package compose

// Place as compose/hunt_demo_test.go (package compose, public API only).

import (
	"context"
	"io"
	"reflect"
	"testing"
)

func huntFanInAnyCall(f func() error) (err error, panicked any) {
	defer func() {
		if p := recover(); p != nil {
			panicked = p
		}
	}()
	return f(), nil
}

func huntFanInAnyGraph(t *testing.T, a, b any) Runnable[string, any] {
	g := NewGraph[string, any]()
	_ = g.AddLambdaNode("a", InvokableLambda(func(ctx context.Context, in string) (any, error) { return a, nil }))
	_ = g.AddLambdaNode("b", InvokableLambda(func(ctx context.Context, in string) (any, error) { return b, nil }))
	_ = g.AddEdge(START, "a")
	_ = g.AddEdge(START, "b")
	_ = g.AddEdge("a", END)
	_ = g.AddEdge("b", END)
	r, err := g.Compile(context.Background())
	if err != nil {
		t.Fatal(err)
	}
	return r
}

// Fan-in of two nodes whose declared output type is `any` (the values are maps).
// Invoke merges by the dynamic type (mergeValues looks at reflect.TypeOf(value)) and succeeds;
// Stream/Transform merge by the static chunk type of the stream and fail with
// "(mergeValues | stream type) unsupported chunk type: interface {}".
func TestHuntFanInAnyTyped(t *testing.T) {
	ctx := context.Background()
	r := huntFanInAnyGraph(t, map[string]any{"a": 1}, map[string]any{"b": 2})
	want := map[string]any{"a": 1, "b": 2}
	out, err := r.Invoke(ctx, "x")
	if err != nil || !reflect.DeepEqual(out, want) {
		t.Fatalf("Invoke = (%v, %v)", out, err)
	}
	sr, err := r.Stream(ctx, "x")
	if err != nil {
		t.Errorf("Invoke returns %v but Stream of the same graph and input fails: %.200v", want, err)
		return
	}
	defer sr.Close()
	for {
		_, e := sr.Recv()
		if e == io.EOF {
			break
		}
		if e != nil {
			t.Errorf("Invoke returns %v but Stream fails: %.200v", want, e)
			return
		}
	}
}

// Same fan-in, both values nil: both paradigms must fail (nothing to merge), but Invoke does so by
// a reflect panic on the caller's goroutine (mergeValues: reflect.ValueOf(nil).Type()).
func TestHuntFanInAnyNilPanics(t *testing.T) {
	ctx := context.Background()
	r := huntFanInAnyGraph(t, nil, nil)
	_, streamErr := r.Stream(ctx, "x")
	if streamErr == nil {
		t.Skip("Stream unexpectedly succeeded")
	}
	_, p := huntFanInAnyCall(func() error {
		_, e := r.Invoke(ctx, "x")
		return e
	})
	if p != nil {
		t.Errorf("Invoke panicked on the caller's goroutine (%v); Stream reports the failure as an error: %.160v", p, streamErr)
	}
}
