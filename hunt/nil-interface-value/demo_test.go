package compose

// place as compose/hunt_nil_interface_value_test.go

import (
	"context"
	"fmt"
	"strings"
	"testing"
)

type nivStringer struct{ s string }

func (n *nivStringer) String() string { return n.s }

// a nil value flows over an edge any -> any (both ends declare the same interface type)
func TestHuntNilInterfaceValueSameType(t *testing.T) {
	g := NewGraph[string, string]()
	_ = g.AddLambdaNode("a", InvokableLambda(func(ctx context.Context, in string) (any, error) { return nil, nil }))
	_ = g.AddLambdaNode("b", InvokableLambda(func(ctx context.Context, in any) (string, error) { return fmt.Sprintf("got %v", in), nil }))
	_ = g.AddEdge(START, "a")
	_ = g.AddEdge("a", "b")
	_ = g.AddEdge("b", END)
	r, err := g.Compile(context.Background())
	if err != nil {
		t.Fatal(err)
	}
	out, err := r.Invoke(context.Background(), "x")
	if err != nil {
		t.Fatalf("nil is a value of type any, node b takes any: expected \"got <nil>\", got an error:\n%.300s", err.Error())
	}
	if out != "got <nil>" {
		t.Fatalf("out=%q", out)
	}
}

// upstream any, downstream fmt.Stringer: the dynamic value is checked at run time; nil is assignable
func TestHuntNilInterfaceValueChecked(t *testing.T) {
	g := NewGraph[string, string]()
	_ = g.AddLambdaNode("a", InvokableLambda(func(ctx context.Context, in string) (any, error) {
		if in == "nil" {
			return nil, nil
		}
		if in == "int" {
			return 1, nil
		}
		return &nivStringer{s: in}, nil
	}))
	_ = g.AddLambdaNode("b", InvokableLambda(func(ctx context.Context, in fmt.Stringer) (string, error) {
		if in == nil {
			return "got nil", nil
		}
		return "got " + in.String(), nil
	}))
	_ = g.AddEdge(START, "a")
	if err := g.AddEdge("a", "b"); err != nil {
		t.Fatal(err)
	}
	_ = g.AddEdge("b", END)
	r, err := g.Compile(context.Background())
	if err != nil {
		t.Fatal(err)
	}
	if out, err := r.Invoke(context.Background(), "s"); err != nil || out != "got s" {
		t.Fatalf("sanity: out=%q err=%v", out, err)
	}
	if _, err := r.Invoke(context.Background(), "int"); err == nil || !strings.Contains(err.Error(), "runtime type check fail") {
		t.Fatalf("sanity: an int is not assignable to fmt.Stringer: err=%v", err)
	}
	out, err := r.Invoke(context.Background(), "nil")
	if err != nil {
		t.Fatalf("a nil value is assignable to fmt.Stringer: the run-time check must report an error exactly for "+
			"values that are not assignable, got:\n%.300s", err.Error())
	}
	if out != "got nil" {
		t.Fatalf("out=%q", out)
	}
}

// a nil value reaches END of a graph whose output type is an interface type
func TestHuntNilInterfaceValueResult(t *testing.T) {
	g := NewGraph[string, any]()
	_ = g.AddLambdaNode("a", InvokableLambda(func(ctx context.Context, in string) (any, error) { return nil, nil }))
	_ = g.AddEdge(START, "a")
	_ = g.AddEdge("a", END)
	r, err := g.Compile(context.Background())
	if err != nil {
		t.Fatal(err)
	}
	defer func() {
		if p := recover(); p != nil {
			t.Fatalf("Invoke panicked: %v", p)
		}
	}()
	out, err := r.Invoke(context.Background(), "x")
	if err != nil || out != nil {
		t.Fatalf("expected the result nil, got out=%v err=%v", out, err)
	}
}
