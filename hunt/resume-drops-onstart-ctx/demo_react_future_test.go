// Place as flow/agent/react/hunt_future_resume_test.go (package react). Self-contained.
//
// In-repo victim of the same defect: react.WithMessageFuture marks the nesting depth in the context its graph
// OnStart handler returns. After interrupt + resume of the (exported, nested) agent graph the restored "tools"
// node runs under the context from before that handler: its tool messages never reach the future.
package react

import (
	"context"
	"fmt"
	"strings"
	"sync"
	"testing"

	"github.com/cloudwego/eino/components/model"

	"github.com/cloudwego/eino/components/tool"
	"github.com/cloudwego/eino/compose"
	"github.com/cloudwego/eino/flow/agent"
	"github.com/cloudwego/eino/schema"
)

type huntStore struct {
	mu sync.Mutex
	m  map[string][]byte
}

func (s *huntStore) Get(_ context.Context, id string) ([]byte, bool, error) {
	s.mu.Lock()
	defer s.mu.Unlock()
	v, ok := s.m[id]
	return v, ok, nil
}
func (s *huntStore) Set(_ context.Context, id string, v []byte) error {
	s.mu.Lock()
	defer s.mu.Unlock()
	s.m[id] = v
	return nil
}

func TestHuntFutureOnResume(t *testing.T) {
	ctx := context.Background()
	build := func(interrupt bool) compose.Runnable[[]*schema.Message, *schema.Message] {
		ag, err := NewAgent(ctx, &AgentConfig{
			ToolCallingModel: &huntModel{},
			ToolsConfig:      compose.ToolsNodeConfig{Tools: []tool.BaseTool{&huntTool{name: "echo"}, &huntTool{name: "direct"}}},
			MaxStep:          40,
		})
		if err != nil {
			t.Fatal(err)
		}
		g, addOpts := ag.ExportGraph()
		parent := compose.NewGraph[[]*schema.Message, *schema.Message]()
		if interrupt {
			addOpts = append(addOpts, compose.WithGraphCompileOptions(compose.WithInterruptBeforeNodes([]string{"tools"}), compose.WithMaxRunSteps(40), compose.WithGraphName(GraphName)))
		}
		if err := parent.AddGraphNode("agent", g, addOpts...); err != nil {
			t.Fatal(err)
		}
		_ = parent.AddEdge(compose.START, "agent")
		_ = parent.AddEdge("agent", compose.END)
		r, err := parent.Compile(ctx, compose.WithCheckPointStore(&huntStore{m: map[string][]byte{}}))
		if err != nil {
			t.Fatal(err)
		}
		return r
	}
	collect := func(r compose.Runnable[[]*schema.Message, *schema.Message]) []string {
		var all []string
		for i := 0; i < 10; i++ {
			opt, future := WithMessageFuture()
			copts := agent.GetComposeOptions(opt)
			for j := range copts {
				copts[j] = copts[j].DesignateNode("agent")
			}
			copts = append(copts, compose.WithCheckPointID("id"))
			done := make(chan []string)
			go func() {
				var got []string
				it := future.GetMessages()
				for {
					m, ok, err := it.Next()
					if !ok {
						break
					}
					if err != nil {
						got = append(got, "ERR")
						break
					}
					got = append(got, string(m.Role)+":"+m.Content)
				}
				done <- got
			}()
			_, err := r.Invoke(ctx, []*schema.Message{schema.UserMessage("k:1:plain")}, copts...)
			all = append(all, <-done...)
			if err == nil {
				return all
			}
			if _, ok := compose.ExtractInterruptInfo(err); !ok {
				t.Fatal(err)
			}
		}
		t.Fatal("too many interrupts")
		return nil
	}
	want := collect(build(false))
	got := collect(build(true))
	t.Logf("uninterrupted: %q", want)
	t.Logf("interrupted+resumed: %q", got)
	nTool := func(xs []string) int {
		n := 0
		for _, x := range xs {
			if len(x) > 5 && x[:5] == "tool:" {
				n++
			}
		}
		return n
	}
	if nTool(got) != nTool(want) {
		t.Errorf("tool messages delivered to the future: %d uninterrupted, %d across interrupt+resume", nTool(want), nTool(got))
	}
}

type huntModel struct{}

func (m *huntModel) decide(input []*schema.Message) *schema.Message {
	// count tool messages
	nTool := 0
	user := ""
	for _, msg := range input {
		if msg.Role == schema.Tool {
			nTool++
		}
		if msg.Role == schema.User {
			user = msg.Content
		}
	}
	// user "k:N:direct?" -> N rounds of tool calls
	parts := strings.Split(user, ":")
	var rounds int
	fmt.Sscan(parts[1], &rounds)
	if nTool < rounds*2 {
		name := "echo"
		if parts[2] == "direct" && nTool == (rounds-1)*2 {
			name = "direct"
		}
		return &schema.Message{Role: schema.Assistant, ToolCalls: []schema.ToolCall{
			{ID: fmt.Sprintf("%s-%d-a", parts[0], nTool), Function: schema.FunctionCall{Name: "echo", Arguments: fmt.Sprintf("%s/%d/a", parts[0], nTool)}},
			{ID: fmt.Sprintf("%s-%d-b", parts[0], nTool), Function: schema.FunctionCall{Name: name, Arguments: fmt.Sprintf("%s/%d/b", parts[0], nTool)}},
		}}
	}
	var sb strings.Builder
	for _, msg := range input {
		sb.WriteString(string(msg.Role) + "=" + msg.Content + ";")
	}
	return &schema.Message{Role: schema.Assistant, Content: "final[" + sb.String() + "]"}
}

func (m *huntModel) Generate(ctx context.Context, input []*schema.Message, opts ...model.Option) (*schema.Message, error) {
	return m.decide(input), nil
}

func (m *huntModel) Stream(ctx context.Context, input []*schema.Message, opts ...model.Option) (*schema.StreamReader[*schema.Message], error) {
	msg := m.decide(input)
	if len(msg.ToolCalls) > 0 {
		idx0, idx1 := 0, 1
		var chunks []*schema.Message
		for i, tc := range msg.ToolCalls {
			idx := idx0
			if i == 1 {
				idx = idx1
			}
			ix := idx
			a := tc.Function.Arguments
			chunks = append(chunks, &schema.Message{Role: schema.Assistant, ToolCalls: []schema.ToolCall{{Index: &ix, ID: tc.ID, Function: schema.FunctionCall{Name: tc.Function.Name, Arguments: a[:len(a)/2]}}}})
			ix2 := idx
			chunks = append(chunks, &schema.Message{Role: schema.Assistant, ToolCalls: []schema.ToolCall{{Index: &ix2, Function: schema.FunctionCall{Arguments: a[len(a)/2:]}}}})
		}
		sr, sw := schema.Pipe[*schema.Message](0)
		go func() {
			defer sw.Close()
			for _, c := range chunks {
				if sw.Send(c, nil) {
					return
				}
			}
		}()
		return sr, nil
	}
	sr, sw := schema.Pipe[*schema.Message](0)
	go func() {
		defer sw.Close()
		c := msg.Content
		for len(c) > 0 {
			n := 7
			if n > len(c) {
				n = len(c)
			}
			if sw.Send(&schema.Message{Role: schema.Assistant, Content: c[:n]}, nil) {
				return
			}
			c = c[n:]
		}
	}()
	return sr, nil
}

func (m *huntModel) WithTools(tools []*schema.ToolInfo) (model.ToolCallingChatModel, error) {
	return m, nil
}

type huntTool struct{ name string }

func (t *huntTool) Info(ctx context.Context) (*schema.ToolInfo, error) {
	return &schema.ToolInfo{Name: t.name, Desc: t.name}, nil
}
func (t *huntTool) InvokableRun(ctx context.Context, args string, opts ...tool.Option) (string, error) {
	return t.name + "(" + args + ")", nil
}
func (t *huntTool) StreamableRun(ctx context.Context, args string, opts ...tool.Option) (*schema.StreamReader[string], error) {
	s := t.name + "(" + args + ")"
	return schema.StreamReaderFromArray([]string{s[:3], s[3:]}), nil
}
