// Place as compose/hunt_resume_ctx_test.go (package compose).
//
// A callback handler may derive the context in OnStart (that is what its return value is for: trace spans,
// request-scoped values). In an uninterrupted run every node of the graph runs under the context the graph's
// own OnStart handlers handed back. In a resumed run the tasks restored from the checkpoint are built
// (runner.restoreTasks) BEFORE the graph's OnStart handlers run, from the context as it was before them: the
// restored nodes (and the nested graphs among them) do not see what the graph-level handler put into the
// context, while the nodes scheduled later in the same resumed run do.
package compose

import (
	"context"
	"sync"
	"testing"

	"github.com/cloudwego/eino/callbacks"
)

type huntSpanKey struct{}

type huntMemStore struct {
	mu sync.Mutex
	m  map[string][]byte
}

func (s *huntMemStore) Get(_ context.Context, id string) ([]byte, bool, error) {
	s.mu.Lock()
	defer s.mu.Unlock()
	v, ok := s.m[id]
	return v, ok, nil
}

func (s *huntMemStore) Set(_ context.Context, id string, v []byte) error {
	s.mu.Lock()
	defer s.mu.Unlock()
	s.m[id] = v
	return nil
}

func huntSpanNode(name string) *Lambda {
	return InvokableLambda(func(ctx context.Context, in string) (string, error) {
		span, _ := ctx.Value(huntSpanKey{}).(string)
		return in + "|" + name + "@" + span, nil
	})
}

// the handler opens a "span" per graph and nests it in the span found in the context
func huntSpanHandler(seen *sync.Map) callbacks.Handler {
	return callbacks.NewHandlerBuilder().OnStartFn(func(ctx context.Context, info *callbacks.RunInfo, _ callbacks.CallbackInput) context.Context {
		parent, _ := ctx.Value(huntSpanKey{}).(string)
		if info.Component == ComponentOfGraph {
			return context.WithValue(ctx, huntSpanKey{}, parent+"/"+info.Name)
		}
		seen.Store(info.Name, parent)
		return ctx
	}).Build()
}

func huntSpanGraph(t *testing.T, interrupt bool) Runnable[string, string] {
	sub := NewGraph[string, string]()
	if err := sub.AddLambdaNode("s1", huntSpanNode("s1"), WithNodeName("s1")); err != nil {
		t.Fatal(err)
	}
	_ = sub.AddEdge(START, "s1")
	_ = sub.AddEdge("s1", END)

	g := NewGraph[string, string]()
	_ = g.AddLambdaNode("a", huntSpanNode("a"), WithNodeName("a"))
	_ = g.AddLambdaNode("b", huntSpanNode("b"), WithNodeName("b"))
	_ = g.AddGraphNode("sub", sub, WithNodeName("sub"))
	_ = g.AddLambdaNode("c", huntSpanNode("c"), WithNodeName("c"))
	_ = g.AddEdge(START, "a")
	_ = g.AddEdge("a", "b")
	_ = g.AddEdge("b", "sub")
	_ = g.AddEdge("sub", "c")
	_ = g.AddEdge("c", END)
	opts := []GraphCompileOption{WithGraphName("top"), WithCheckPointStore(&huntMemStore{m: map[string][]byte{}})}
	if interrupt {
		opts = append(opts, WithInterruptBeforeNodes([]string{"b", "sub"}))
	}
	r, err := g.Compile(context.Background(), opts...)
	if err != nil {
		t.Fatal(err)
	}
	return r
}

func TestHuntResumeDropsGraphOnStartContext(t *testing.T) {
	ctx := context.Background()

	var seenPlain sync.Map
	want, err := huntSpanGraph(t, false).Invoke(ctx, "in", WithCheckPointID("x"), WithCallbacks(huntSpanHandler(&seenPlain)))
	if err != nil {
		t.Fatal(err)
	}

	var seen sync.Map
	r := huntSpanGraph(t, true)
	var got string
	interrupts := 0
	for {
		got, err = r.Invoke(ctx, "in", WithCheckPointID("x"), WithCallbacks(huntSpanHandler(&seen)))
		if err == nil {
			break
		}
		if _, ok := ExtractInterruptInfo(err); !ok {
			t.Fatal(err)
		}
		interrupts++
		if interrupts > 5 {
			t.Fatal("too many interrupts")
		}
	}
	if interrupts != 2 {
		t.Fatalf("expected 2 interrupts, got %d", interrupts)
	}

	// C05: same final output as the uninterrupted run
	if got != want {
		t.Errorf("resumed run: %q\nuninterrupted: %q", got, want)
	}
	// what the node-level handlers saw as their enclosing span
	for _, n := range []string{"a", "b", "s1", "c"} {
		p, _ := seenPlain.Load(n)
		s, _ := seen.Load(n)
		if p != s {
			t.Errorf("OnStart of node %s: enclosing span %q in the uninterrupted run, %q in the resumed run", n, p, s)
		}
	}
}
