package compose

// Place at: compose/hunt_chain_append_test.go   (package compose; run: go test -run TestHuntChainAppend ./compose/)
//
// Commit concerned: bd3542c "fix: a Chain reports errors recorded after an earlier failed Compile" (incomplete).
// A Chain whose first Compile failed after END had been connected (hasEnd == true) silently drops
// every stage that is appended afterwards: the next Compile succeeds and the new stage never runs.

import (
	"context"
	"testing"
)

func TestHuntChainAppendAfterFailedCompile(t *testing.T) {
	ctx := context.Background()
	c := NewChain[string, string]()
	c.AppendLambda(InvokableLambda(func(ctx context.Context, in string) (string, error) { return in + "a", nil }))

	// fails inside graph.compile, i.e. after addEndIfNeeded has connected END
	if _, err := c.Compile(ctx, WithNodeTriggerMode(AllPredecessor)); err == nil {
		t.Fatal("expected the first Compile to fail")
	}

	c.AppendLambda(InvokableLambda(func(ctx context.Context, in string) (string, error) { return in + "b", nil }))

	r, err := c.Compile(ctx)
	if err != nil {
		t.Logf("second Compile refused (acceptable): %v", err)
		return
	}
	out, err := r.Invoke(ctx, "x")
	if err != nil {
		t.Fatalf("invoke: %v", err)
	}
	if out != "xab" {
		t.Fatalf("chain compiled, but is not the composition of its stages: got %q, want %q", out, "xab")
	}
}
