package compose

// place as compose/hunt_workflow_data_cycle_test.go

import (
	"context"
	"testing"
	"time"
)

func TestHuntWorkflowDataCycle(t *testing.T) {
	l := func(ctx context.Context, in map[string]any) (map[string]any, error) { return map[string]any{"o": 1}, nil }

	wf := NewWorkflow[map[string]any, map[string]any]()
	// a waits for START and takes data from b; b waits for a: a -> b -> a
	wf.AddLambdaNode("a", InvokableLambda(l)).
		AddInput(START, ToField("s")).
		AddInputWithOptions("b", []*FieldMapping{MapFields("o", "fromb")}, WithNoDirectDependency())
	wf.AddLambdaNode("b", InvokableLambda(l)).AddInput("a", ToField("froma"))
	wf.End().AddInput("b")

	r, err := wf.Compile(context.Background())
	if err != nil {
		t.Logf("compile rejected the cycle, as it must: %v", err)
		return
	}
	ctx, cancel := context.WithTimeout(context.Background(), 10*time.Second)
	defer cancel()
	out, err := r.Invoke(ctx, map[string]any{})
	t.Fatalf("Compile accepted a workflow (all-predecessor mode) with the cycle a -> b -> a; Invoke then gives out=%v err=%v", out, err)
}
