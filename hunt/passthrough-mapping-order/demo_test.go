package compose

// place as compose/hunt_passthrough_mapping_order_test.go

import (
	"context"
	"fmt"
	"testing"
)

type pmoIn struct{ A string }

type pmoOut struct{ X string }

func TestHuntPassthroughMappingOrder(t *testing.T) {
	outcomes := map[string]int{}
	for i := 0; i < 80; i++ {
		wf := NewWorkflow[pmoIn, pmoOut]()
		wf.AddPassthroughNode("p").AddInput(START, MapFields("A", "X"))
		wf.End().AddInput("p")
		r, err := wf.Compile(context.Background())
		if err != nil {
			outcomes["compile error: "+err.Error()]++
			continue
		}
		out, err := r.Invoke(context.Background(), pmoIn{A: "a"})
		outcomes[fmt.Sprintf("compiled; Invoke -> out=%+v err=%v", out, err)]++
	}
	if len(outcomes) != 1 {
		t.Fatalf("the same construction sequence must give the same outcome on every attempt; 80 attempts gave: %v", outcomes)
	}
	t.Logf("%v", outcomes)
}
