package compose

// Place as compose/hunt_demo_test.go (package compose, public API only).

import (
	"context"
	"io"
	"testing"

	"github.com/cloudwego/eino/schema"
)

// A graph whose output type is an interface (here `any`) and whose last node returns a nil value.
// END receives a value in step 1, so the run must return it (nil) - Stream does:
// its output stream carries one nil chunk. Invoke instead fails with "no tasks to execute".
func TestHuntNilEndValue(t *testing.T) {
	ctx := context.Background()
	for _, mode := range []NodeTriggerMode{AnyPredecessor, AllPredecessor} {
		g := NewGraph[string, any]()
		_ = g.AddLambdaNode("a", InvokableLambda(func(ctx context.Context, in string) (any, error) { return nil, nil }))
		_ = g.AddEdge(START, "a")
		_ = g.AddEdge("a", END)
		r, err := g.Compile(ctx, WithNodeTriggerMode(mode))
		if err != nil {
			t.Fatal(err)
		}

		// reference: the streaming paradigm
		sr, err := r.Stream(ctx, "x")
		if err != nil {
			t.Fatalf("[%s] Stream failed: %v", mode, err)
		}
		var chunks []any
		for {
			c, e := sr.Recv()
			if e == io.EOF {
				break
			}
			if e != nil {
				t.Fatalf("[%s] Stream chunk error: %v", mode, e)
			}
			chunks = append(chunks, c)
		}
		if len(chunks) != 1 || chunks[0] != nil {
			t.Fatalf("[%s] Stream: want one nil chunk, got %v", mode, chunks)
		}

		func() {
			defer func() {
				if p := recover(); p != nil {
					t.Errorf("[%s] Invoke panicked: %v; want the nil value END received (Stream delivers it)", mode, p)
				}
			}()
			out, err := r.Invoke(ctx, "x")
			if err != nil {
				t.Errorf("[%s] Invoke failed although END received a value in step 1 and Stream succeeds: %v", mode, err)
			} else if out != nil {
				t.Errorf("[%s] Invoke = %v, want nil", mode, out)
			}
		}()
		func() {
			defer func() {
				if p := recover(); p != nil {
					t.Errorf("[%s] Collect panicked: %v", mode, p)
				}
			}()
			out, err := r.Collect(ctx, schema.StreamReaderFromArray([]string{"x"}))
			if err != nil {
				t.Errorf("[%s] Collect failed although Stream succeeds: %v", mode, err)
			} else if out != nil {
				t.Errorf("[%s] Collect = %v, want nil", mode, out)
			}
		}()
	}
}
