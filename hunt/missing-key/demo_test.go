package compose

// Place as compose/hunt_demo_test.go (package compose, public API only).

import (
	"context"
	"io"
	"testing"

	"github.com/cloudwego/eino/schema"
)

type huntMissingIn struct{ F string }

func huntMissingStream[I, O any](r Runnable[I, O], in I) (chunks []O, err error) {
	sr, err := r.Stream(context.Background(), in)
	if err != nil {
		return nil, err
	}
	defer sr.Close()
	for {
		c, e := sr.Recv()
		if e == io.EOF {
			return chunks, nil
		}
		if e != nil {
			return chunks, e
		}
		chunks = append(chunks, c)
	}
}

// (1) Field mapping from a map key that the predecessor's output does not contain.
// Invoke: "field mapping from a map key, but key not found in input. key=missing".
// Stream: the stream form of the mapping is built with allowMapKeyNotFound=true (a chunk may lack
// a key), nothing checks at the end of the stream that the key ever showed up, and the successor
// silently runs on the zero value.
func TestHuntMissingMapKeyFieldMapping(t *testing.T) {
	ctx := context.Background()
	wf := NewWorkflow[map[string]any, string]()
	wf.AddLambdaNode("b", InvokableLambda(func(ctx context.Context, in huntMissingIn) (string, error) { return "b got F=" + in.F, nil })).
		AddInput(START, MapFields("missing", "F"))
	wf.End().AddInput("b")
	r, err := wf.Compile(ctx)
	if err != nil {
		t.Fatal(err)
	}
	in := map[string]any{"present": "1"}
	_, invokeErr := r.Invoke(ctx, in)
	if invokeErr == nil {
		t.Fatal("Invoke: expected the key-not-found error")
	}
	chunks, streamErr := huntMissingStream[map[string]any, string](r, in)
	if streamErr == nil {
		t.Errorf("Invoke fails (%.140v) but Stream of the same workflow and input reports no failure and delivers %q", invokeErr, chunks)
	}
}

// (2) WithInputKey on a key that the input map does not contain.
// Invoke: "cannot find input key: k". Stream: every chunk is filtered out (schema.ErrNoValue), the
// node receives an empty stream and the run ends without any failure report (here with an empty
// output stream, because the node is a lazy Transform).
func TestHuntMissingInputKey(t *testing.T) {
	ctx := context.Background()
	g := NewGraph[map[string]any, string]()
	_ = g.AddLambdaNode("a", TransformableLambda(func(ctx context.Context, in *schema.StreamReader[string]) (*schema.StreamReader[string], error) {
		return in, nil
	}), WithInputKey("k"))
	_ = g.AddEdge(START, "a")
	_ = g.AddEdge("a", END)
	r, err := g.Compile(ctx)
	if err != nil {
		t.Fatal(err)
	}
	in := map[string]any{"other": "v"}
	_, invokeErr := r.Invoke(ctx, in)
	if invokeErr == nil {
		t.Fatal("Invoke: expected the cannot-find-input-key error")
	}
	chunks, streamErr := huntMissingStream[map[string]any, string](r, in)
	if streamErr == nil {
		t.Errorf("Invoke fails (%.140v) but Stream of the same graph and input reports no failure and delivers %d chunk(s) %q", invokeErr, len(chunks), chunks)
	}
}
