package react

// Place as flow/agent/react/hunt_return_directly_noid_test.go (package react; only the public API is used).

import (
	"context"
	"sync"
	"testing"

	"github.com/cloudwego/eino/components/model"
	"github.com/cloudwego/eino/components/tool"
	"github.com/cloudwego/eino/compose"
	"github.com/cloudwego/eino/schema"
)

type huntRDModel struct {
	mu     sync.Mutex
	script []*schema.Message
	calls  int
}

func (m *huntRDModel) next() *schema.Message {
	m.mu.Lock()
	defer m.mu.Unlock()
	r := m.script[m.calls%len(m.script)]
	m.calls++
	return r
}

func (m *huntRDModel) Generate(_ context.Context, _ []*schema.Message, _ ...model.Option) (*schema.Message, error) {
	return m.next(), nil
}

func (m *huntRDModel) Stream(_ context.Context, _ []*schema.Message, _ ...model.Option) (*schema.StreamReader[*schema.Message], error) {
	return schema.StreamReaderFromArray([]*schema.Message{m.next()}), nil
}

func (m *huntRDModel) WithTools(_ []*schema.ToolInfo) (model.ToolCallingChatModel, error) {
	return m, nil
}

type huntRDTool struct{ name string }

func (t *huntRDTool) Info(context.Context) (*schema.ToolInfo, error) {
	return &schema.ToolInfo{Name: t.name, Desc: t.name}, nil
}

func (t *huntRDTool) InvokableRun(_ context.Context, args string, _ ...tool.Option) (string, error) {
	return t.name + "(" + args + ")", nil
}

// C18: "the agent returns the first assistant message that has no tool calls, or the result of a
// tool marked return-directly". Whether the marked tool's result is returned must not depend on
// the tool call carrying an id: ids are optional in schema.ToolCall, and ToolsNode answers calls
// without id just as well.
func TestHuntReturnDirectlyIgnoredWithoutToolCallID(t *testing.T) {
	ctx := context.Background()

	for _, id := range []string{"call_1", ""} {
		m := &huntRDModel{script: []*schema.Message{
			schema.AssistantMessage("", []schema.ToolCall{{ID: id, Function: schema.FunctionCall{Name: "final_answer", Arguments: "42"}}}),
			schema.AssistantMessage("model speaks again", nil),
		}}
		ag, err := NewAgent(ctx, &AgentConfig{
			ToolCallingModel:   m,
			ToolsConfig:        compose.ToolsNodeConfig{Tools: []tool.BaseTool{&huntRDTool{name: "final_answer"}}},
			ToolReturnDirectly: map[string]struct{}{"final_answer": {}},
			MaxStep:            10,
		})
		if err != nil {
			t.Fatal(err)
		}

		out, err := ag.Generate(ctx, []*schema.Message{schema.UserMessage("q")})
		if err != nil {
			t.Fatalf("id=%q Generate: %v", id, err)
		}
		if out.Role != schema.Tool || out.Content != "final_answer(42)" || m.calls != 1 {
			t.Errorf("id=%q Generate: expected the result of the return-directly tool (tool message 'final_answer(42)') after 1 model call, "+
				"got role=%s content=%q after %d model calls", id, out.Role, out.Content, m.calls)
		}

		m.calls = 0
		sr, err := ag.Stream(ctx, []*schema.Message{schema.UserMessage("q")})
		if err != nil {
			t.Fatalf("id=%q Stream: %v", id, err)
		}
		sout, err := schema.ConcatMessageStream(sr)
		if err != nil {
			t.Fatalf("id=%q Stream concat: %v", id, err)
		}
		if sout.Role != schema.Tool || sout.Content != "final_answer(42)" || m.calls != 1 {
			t.Errorf("id=%q Stream: expected the result of the return-directly tool after 1 model call, "+
				"got role=%s content=%q after %d model calls", id, sout.Role, sout.Content, m.calls)
		}
	}
}
