// Place at: internal/serialization/hunt_nil_iface_map_key_test.go (package serialization).
//
// Commit concerned: 41d7c6e "fix: checkpoint serialisation keeps the dynamic type of interface-typed map keys"
//
// A map with an interface-typed key type may hold the nil key (map[any]V{nil: v}). Since 41d7c6e the key
// is written as the JSON of its internalStruct, which is "null" for the nil key; the decoder turns "null"
// into an empty internalStruct and fails with "unknown type: ". Marshal succeeds, Unmarshal of its own
// output fails: the checkpoint that was written cannot be read back. Before 41d7c6e the value round-tripped.
package serialization

import (
	"reflect"
	"testing"
)

type huntNilKeyState struct {
	Seen map[any]int
}

func init() {
	_ = GenericRegister[huntNilKeyState]("hunt_nil_key_state")
}

func TestHuntNilInterfaceMapKey(t *testing.T) {
	in := map[any]int{nil: 1, "a": 2, 3: 3}

	data, err := Marshal(in)
	if err != nil {
		// refusing the value would be acceptable (fail loudly when writing); accepting it and then
		// being unable to read it back is not
		t.Skipf("Marshal refuses the value: %v", err)
	}

	out, err := Unmarshal(data)
	if err != nil {
		t.Fatalf("Marshal accepted map[any]int with a nil key, Unmarshal of its output fails: %v\n%s", err, data)
	}
	if !reflect.DeepEqual(in, out) {
		t.Fatalf("round trip changed the value: in=%#v out=%#v", in, out)
	}
}

// the same inside a registered struct, as a graph state would carry it
func TestHuntNilInterfaceMapKeyInState(t *testing.T) {
	in := &huntNilKeyState{Seen: map[any]int{nil: 7}}

	data, err := Marshal(in)
	if err != nil {
		t.Skipf("Marshal refuses the value: %v", err)
	}

	out, err := Unmarshal(data)
	if err != nil {
		t.Fatalf("state written by Marshal cannot be read back: %v", err)
	}
	if !reflect.DeepEqual(in, out) {
		t.Fatalf("round trip changed the value: in=%#v out=%#v", in, out)
	}
}
