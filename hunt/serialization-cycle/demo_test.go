package compose

// Place as compose/hunt_demo_cycle_test.go (package compose, public API only).
// The violation kills the process (fatal error: stack overflow cannot be recovered), so the
// interrupting run is executed in a child process (the test binary re-executes itself).

import (
	"context"
	"os"
	"os/exec"
	"strings"
	"testing"
)

// a state that keeps a small tree whose nodes know their parent: every type is registered, every
// field is exported, but the value refers to itself
type cycDemoNode struct {
	Name     string
	Parent   *cycDemoNode
	Children []*cycDemoNode
}

type cycDemoState struct {
	Root *cycDemoNode
}

type cycDemoStore struct{ m map[string][]byte }

func (s *cycDemoStore) Get(_ context.Context, id string) ([]byte, bool, error) {
	v, ok := s.m[id]
	return v, ok, nil
}
func (s *cycDemoStore) Set(_ context.Context, id string, b []byte) error {
	s.m[id] = append([]byte(nil), b...)
	return nil
}

func cycDemoRun() error {
	_ = RegisterSerializableType[cycDemoNode]("hunt_cyc_demo_node")
	_ = RegisterSerializableType[cycDemoState]("hunt_cyc_demo_state")
	g := NewGraph[string, string](WithGenLocalState(func(ctx context.Context) *cycDemoState {
		root := &cycDemoNode{Name: "root"}
		child := &cycDemoNode{Name: "child", Parent: root}
		root.Children = []*cycDemoNode{child}
		return &cycDemoState{Root: root}
	}))
	_ = g.AddLambdaNode("a", InvokableLambda(func(ctx context.Context, in string) (string, error) { return in + "a", nil }))
	_ = g.AddLambdaNode("b", InvokableLambda(func(ctx context.Context, in string) (string, error) { return in + "b", nil }))
	_ = g.AddEdge(START, "a")
	_ = g.AddEdge("a", "b")
	_ = g.AddEdge("b", END)
	r, err := g.Compile(context.Background(), WithCheckPointStore(&cycDemoStore{m: map[string][]byte{}}), WithInterruptBeforeNodes([]string{"b"}))
	if err != nil {
		return err
	}
	_, err = r.Invoke(context.Background(), "_", WithCheckPointID("x"))
	return err
}

func TestDemoCyclicStateChild(t *testing.T) {
	if os.Getenv("HUNT_CYCLE_CHILD") != "1" {
		t.Skip("helper of TestDemoCyclicStateKillsProcess")
	}
	err := cycDemoRun()
	// an ordinary error ("cannot be serialised") is what C12 asks for
	t.Logf("the interrupting run returned: %v", err)
	if err == nil {
		t.Fatal("expected an interrupt or an error")
	}
}

func TestDemoCyclicStateKillsProcess(t *testing.T) {
	cmd := exec.Command(os.Args[0], "-test.run", "^TestDemoCyclicStateChild$", "-test.v")
	cmd.Env = append(os.Environ(), "HUNT_CYCLE_CHILD=1")
	out, err := cmd.CombinedOutput()
	s := string(out)
	if i := strings.Index(s, "\n\nruntime stack:"); i > 0 {
		s = s[:i]
	}
	if len(s) > 1500 {
		s = s[:1500]
	}
	if err != nil {
		t.Fatalf("C12/C13: writing the checkpoint of a run whose state refers to itself must fail with an error; "+
			"instead the process died (%v):\n%s", err, s)
	}
}
