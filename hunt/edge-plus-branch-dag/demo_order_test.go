package compose

// Place as compose/hunt_demo_order_test.go (package compose, public API only).

import (
	"context"
	"reflect"
	"testing"
)

// Workflow (eager execution):
//
//	START -> a, START -> p                          (a and p run concurrently)
//	a -> x  (x.AddInput("a"): plain dependency)     and   a -branch-> {x | y}, always picks y
//	p -branch-> {o | z}, always picks z             (o is skipped)
//	o -> x  (x.AddInput("o"))
//	END <- x, y, z
//
// All node functions are deterministic. Whether x runs depends only on whether a or p finishes
// first: the "skipped by a" mark that a's branch puts on x is overwritten by the "ready" report of
// the plain edge a->x unless x's channel is already completely skipped at that moment, which is the
// case exactly when o's skip (caused by p) was recorded before.
func TestHuntEdgePlusBranchOrderDependence(t *testing.T) {
	ctx := context.Background()

	run := func(aFirst bool) map[string]any {
		yStarted := make(chan struct{})
		zStarted := make(chan struct{})
		node := func(name string, before <-chan struct{}, started chan<- struct{}) *Lambda {
			return InvokableLambda(func(ctx context.Context, in map[string]any) (map[string]any, error) {
				if started != nil {
					close(started)
				}
				if before != nil {
					<-before
				}
				return map[string]any{name: "ran"}, nil
			})
		}
		var aWaits, pWaits <-chan struct{}
		if aFirst {
			pWaits = yStarted // p finishes only after a's completion has been processed (y was started)
		} else {
			aWaits = zStarted // a finishes only after p's completion has been processed (z was started)
		}

		wf := NewWorkflow[map[string]any, map[string]any]()
		wf.AddLambdaNode("a", node("a", aWaits, nil)).AddInput(START)
		wf.AddLambdaNode("p", node("p", pWaits, nil)).AddInput(START)
		wf.AddLambdaNode("y", node("y", nil, yStarted)).AddInputWithOptions("a", nil, WithNoDirectDependency())
		wf.AddLambdaNode("z", node("z", nil, zStarted)).AddInputWithOptions("p", nil, WithNoDirectDependency())
		wf.AddLambdaNode("o", node("o", nil, nil)).AddInputWithOptions("p", nil, WithNoDirectDependency())
		wf.AddLambdaNode("x", node("x", nil, nil)).AddInput("a", ToField("fromA")).AddInput("o", ToField("fromO"))
		wf.AddBranch("a", NewGraphBranch(func(ctx context.Context, in map[string]any) (string, error) { return "y", nil },
			map[string]bool{"x": true, "y": true}))
		wf.AddBranch("p", NewGraphBranch(func(ctx context.Context, in map[string]any) (string, error) { return "z", nil },
			map[string]bool{"o": true, "z": true}))
		wf.End().AddInput("x", ToField("x")).AddInput("y", ToField("y")).AddInput("z", ToField("z"))
		r, err := wf.Compile(ctx)
		if err != nil {
			t.Fatal(err)
		}
		out, err := r.Invoke(ctx, map[string]any{})
		if err != nil {
			t.Fatalf("aFirst=%v: %v", aFirst, err)
		}
		return out
	}

	outAFirst := run(true)
	outPFirst := run(false)
	if !reflect.DeepEqual(outAFirst, outPFirst) {
		t.Errorf("the result depends on which of the concurrent nodes a and p finishes first:\n  a first: %v\n  p first: %v", outAFirst, outPFirst)
	}
}
