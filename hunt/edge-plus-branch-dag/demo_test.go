package compose

// Place as compose/hunt_demo_test.go (package compose, public API only).

import (
	"context"
	"reflect"
	"testing"
)

// all-predecessor graph:
//
//	START -> a ;  a -> x (plain edge) ;  a -branch-> {x | y} (the branch picks y) ;  x -> END ; y -> END
//	variant "extra": additionally  START -> o -> x
//
// a finished and its plain edge routes to x unconditionally, so x must run (the branch only adds y).
// The library reports "skipped by a" to x's channel because the branch did not pick x, which wins over
// the plain edge when a is x's only predecessor: x never runs. With the unrelated extra predecessor o
// the very same edge/branch pair DOES trigger x (the later "ready" report overwrites the "skipped"
// mark because the channel is not yet completely skipped) - the two cases cannot both be right.
func TestHuntEdgePlusBranchDAG(t *testing.T) {
	ctx := context.Background()
	build := func(extra bool) Runnable[string, map[string]any] {
		g := NewGraph[string, map[string]any]()
		_ = g.AddLambdaNode("a", InvokableLambda(func(ctx context.Context, in string) (map[string]any, error) {
			return map[string]any{"a": in}, nil
		}))
		_ = g.AddLambdaNode("x", InvokableLambda(func(ctx context.Context, in map[string]any) (string, error) { return "x ran", nil }), WithOutputKey("x"))
		_ = g.AddLambdaNode("y", InvokableLambda(func(ctx context.Context, in map[string]any) (string, error) { return "y ran", nil }), WithOutputKey("y"))
		_ = g.AddEdge(START, "a")
		_ = g.AddEdge("a", "x")
		if err := g.AddBranch("a", NewGraphBranch(func(ctx context.Context, in map[string]any) (string, error) { return "y", nil },
			map[string]bool{"x": true, "y": true})); err != nil {
			t.Fatal(err)
		}
		if extra {
			_ = g.AddLambdaNode("o", InvokableLambda(func(ctx context.Context, in string) (map[string]any, error) {
				return map[string]any{"o": in}, nil
			}))
			_ = g.AddEdge(START, "o")
			_ = g.AddEdge("o", "x")
		}
		_ = g.AddEdge("x", END)
		_ = g.AddEdge("y", END)
		r, err := g.Compile(ctx, WithNodeTriggerMode(AllPredecessor))
		if err != nil {
			t.Fatal(err)
		}
		return r
	}
	want := map[string]any{"x": "x ran", "y": "y ran"}

	out, err := build(true).Invoke(ctx, "in")
	if err != nil || !reflect.DeepEqual(out, want) {
		t.Errorf("with the extra predecessor: got (%v, %v), want %v", out, err, want)
	}
	out, err = build(false).Invoke(ctx, "in")
	if err != nil || !reflect.DeepEqual(out, want) {
		t.Errorf("a -> x is a plain edge and a finished, but x did not run: got (%v, %v), want %v "+
			"(with an additional unrelated predecessor of x the same edge does trigger x)", out, err, want)
	}
}
