package compose

// Place as compose/hunt_eager_dead_end_timing_test.go.

import (
	"context"
	"errors"
	"testing"
	"time"
)

// Workflow (eager execution):   START -> a -> END
//                               START -> d            (d has no successor; it always fails)
// Both nodes are deterministic functions. Only the order in which they FINISH is forced, without sleeps:
// the node that has to finish second is held on a gate that the test opens after Invoke has returned.
func TestHuntEagerResultDependsOnDeadEndTiming(t *testing.T) {
	ctx := context.Background()
	errD := errors.New("d failed")

	type outcome struct {
		out string
		err error
	}

	run := func(first string) outcome {
		gateA := make(chan struct{})
		gateD := make(chan struct{})
		switch first {
		case "a":
			close(gateA)
		case "d":
			close(gateD)
		}
		leftA := make(chan struct{})
		leftD := make(chan struct{})

		wf := NewWorkflow[string, string]()
		wf.AddLambdaNode("a", InvokableLambda(func(ctx context.Context, in string) (string, error) {
			defer close(leftA)
			<-gateA
			return in + "a", nil
		})).AddInput(START)
		wf.AddLambdaNode("d", InvokableLambda(func(ctx context.Context, in string) (string, error) {
			defer close(leftD)
			<-gateD
			return "", errD
		})).AddInput(START)
		wf.End().AddInput("a")
		r, err := wf.Compile(ctx)
		if err != nil {
			t.Fatal(err)
		}

		res := make(chan outcome, 1)
		go func() {
			out, err := r.Invoke(ctx, "x")
			res <- outcome{out, err}
		}()
		var o outcome
		select {
		case o = <-res:
		case <-time.After(30 * time.Second):
			t.Fatalf("first=%s: the run did not return although the node feeding its result (or a failure) is available", first)
		}
		// let the held node finish as well
		if first == "a" {
			close(gateD)
		} else {
			close(gateA)
		}
		<-leftA
		<-leftD
		return o
	}

	dFirst := run("d")
	aFirst := run("a")
	t.Logf("d finishes first: out=%q err=%v", dFirst.out, dFirst.err)
	t.Logf("a finishes first: out=%q err=%v", aFirst.out, aFirst.err)

	if (dFirst.err == nil) != (aFirst.err == nil) || dFirst.out != aFirst.out {
		t.Errorf("C03: the result of the run depends on which of two concurrently running nodes finishes first:\n"+
			"  d finishes first: out=%q err=%v\n  a finishes first: out=%q err=%v\n"+
			"(in the second order d was started, was never collected, and its failure is swallowed)",
			dFirst.out, dFirst.err, aFirst.out, aFirst.err)
	}
}
