package compose

// Place this file at compose/hunt_chain_append_after_compile_test.go and run
//   go test -vet=off -count=1 -run TestHuntChainAppendAfterCompile ./compose/
//
// Chain twin of round-1 findings 1 and 2: Append* on a chain that has been compiled successfully records
// ErrChainCompiled in c.err, but addEndIfNeeded (the function bd3542c repaired) only reports recorded errors
// while the chain is NOT compiled: the next Compile succeeds and silently returns a runnable without the stage,
// the recorded error is never reported (the chain API has no other way to report it).

import (
	"context"
	"testing"
)

func TestHuntChainAppendAfterCompile(t *testing.T) {
	ctx := context.Background()
	add := func(s string) *Lambda {
		return InvokableLambda(func(ctx context.Context, in string) (string, error) { return in + s, nil })
	}
	appends := map[string]func(c *Chain[string, string]){
		"AppendLambda":      func(c *Chain[string, string]) { c.AppendLambda(add("b")) },
		"AppendPassthrough": func(c *Chain[string, string]) { c.AppendPassthrough() },
		"AppendGraph": func(c *Chain[string, string]) {
			c.AppendGraph(NewChain[string, string]().AppendLambda(add("b")))
		},
		"AppendParallel": func(c *Chain[string, string]) {
			c.AppendParallel(NewParallel().AddLambda("x", add("x")).AddLambda("y", add("y")))
		},
		"AppendBranch": func(c *Chain[string, string]) {
			c.AppendBranch(NewChainBranch(func(ctx context.Context, in string) (string, error) { return "x", nil }).
				AddLambda("x", add("x")).AddLambda("y", add("y")))
		},
	}
	for name, app := range appends {
		t.Run(name, func(t *testing.T) {
			c := NewChain[string, string]()
			c.AppendLambda(add("a"))
			r1, err := c.Compile(ctx)
			if err != nil {
				t.Fatal(err)
			}
			app(c) // an attempt to modify a compiled chain
			r2, err := c.Compile(ctx)
			if err == nil {
				out, _ := r2.Invoke(ctx, "in")
				t.Errorf("the stage appended after Compile was silently swallowed: the next Compile succeeds (output %q), the recorded ErrChainCompiled is never reported", out)
			}
			if out, err := r1.Invoke(ctx, "in"); err != nil || out != "ina" {
				t.Errorf("the first runnable is affected: %q %v", out, err)
			}
		})
	}
}
