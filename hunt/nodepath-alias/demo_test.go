package compose

// Place as compose/hunt_nodepath_alias_test.go and run
//   go test -mod=mod -vet=off -count=1 -run TestHuntNodePathAlias ./compose/

import (
	"context"
	"fmt"
	"sort"
	"sync"
	"testing"
)

type npaStore struct{ m map[string][]byte }

func (s *npaStore) Get(_ context.Context, id string) ([]byte, bool, error) {
	v, ok := s.m[id]
	return v, ok, nil
}
func (s *npaStore) Set(_ context.Context, id string, b []byte) error {
	s.m[id] = append([]byte(nil), b...)
	return nil
}

type npaState struct{ V string }

func init() { _ = RegisterSerializableType[npaState]("hunt_npa_state") }

// Two stateful graphs run side by side at nesting depth 4 (top -> g1 -> g2 -> g3 -> leafA|leafB),
// both are interrupted and the run is resumed with a StateModifier. The modifier must be told, for
// each state, the path of the graph that owns it.
func TestHuntNodePathAlias(t *testing.T) {
	leaf := func(name string) *Graph[string, map[string]any] {
		g := NewGraph[string, map[string]any](WithGenLocalState(func(ctx context.Context) *npaState { return &npaState{V: "state-of-" + name} }))
		_ = g.AddLambdaNode("n1", InvokableLambda(func(ctx context.Context, in string) (string, error) { return in, nil }))
		_ = g.AddLambdaNode("n2", InvokableLambda(func(ctx context.Context, in string) (map[string]any, error) {
			var v string
			err := ProcessState[*npaState](ctx, func(ctx context.Context, s *npaState) error { v = s.V; return nil })
			return map[string]any{name: v}, err
		}))
		_ = g.AddEdge(START, "n1")
		_ = g.AddEdge("n1", "n2")
		_ = g.AddEdge("n2", END)
		return g
	}
	l3 := NewGraph[string, map[string]any]()
	_ = l3.AddGraphNode("leafA", leaf("leafA"), WithGraphCompileOptions(WithInterruptBeforeNodes([]string{"n2"})))
	_ = l3.AddGraphNode("leafB", leaf("leafB"), WithGraphCompileOptions(WithInterruptBeforeNodes([]string{"n2"})))
	_ = l3.AddEdge(START, "leafA")
	_ = l3.AddEdge(START, "leafB")
	_ = l3.AddEdge("leafA", END)
	_ = l3.AddEdge("leafB", END)
	wrap := func(key string, inner AnyGraph) *Graph[string, map[string]any] {
		g := NewGraph[string, map[string]any]()
		_ = g.AddGraphNode(key, inner)
		_ = g.AddEdge(START, key)
		_ = g.AddEdge(key, END)
		return g
	}
	top := wrap("g1", wrap("g2", wrap("g3", l3)))

	ctx := context.Background()
	store := &npaStore{m: map[string][]byte{}}
	r, err := top.Compile(ctx, WithCheckPointStore(store))
	if err != nil {
		t.Fatal(err)
	}
	_, err = r.Invoke(ctx, "in", WithCheckPointID("1"))
	if _, ok := ExtractInterruptInfo(err); !ok {
		t.Fatalf("expected an interrupt, got %v", err)
	}

	var mu sync.Mutex
	var seen []string
	out, err := r.Invoke(ctx, "in", WithCheckPointID("1"), WithStateModifier(func(ctx context.Context, path NodePath, state any) error {
		s, ok := state.(*npaState)
		if !ok {
			return nil
		}
		p := path.GetPath()
		mu.Lock()
		defer mu.Unlock()
		seen = append(seen, fmt.Sprintf("%v owns %q", p, s.V))
		// the caller-supplied modification, routed by the path it is given
		s.V = "modified-for-" + p[len(p)-1]
		return nil
	}))
	if err != nil {
		t.Fatal(err)
	}
	sort.Strings(seen)
	want := map[string]any{"leafA": "modified-for-leafA", "leafB": "modified-for-leafB"}
	if fmt.Sprint(out) != fmt.Sprint(want) {
		t.Fatalf("the state modifier was given a wrong node path for one of the two sibling graphs:\n  calls: %v\n  final output %v, expected %v", seen, out, want)
	}
}
