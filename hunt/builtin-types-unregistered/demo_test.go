package compose

// Place as compose/hunt_builtin_types_test.go and run
//   go test -mod=mod -vet=off -count=1 -run TestHuntBuiltinTypes ./compose/

import (
	"context"
	"encoding/json"
	"fmt"
	"testing"

	"github.com/cloudwego/eino/schema"
)

type butStore struct{ m map[string][]byte }

func (s *butStore) Get(_ context.Context, id string) ([]byte, bool, error) {
	v, ok := s.m[id]
	return v, ok, nil
}
func (s *butStore) Set(_ context.Context, id string, b []byte) error {
	s.m[id] = append([]byte(nil), b...)
	return nil
}

// START -> pre -> model -> END on []*schema.Message / *schema.Message, interrupt-before "model".
// Only eino's own schema types flow through the graph ("All built-in eino types are already registered",
// doc of RegisterSerializableType), so the interrupt must be reported and the pending input restored.
func TestHuntBuiltinTypes(t *testing.T) {
	inputs := map[string][]*schema.Message{
		"plain text message": {schema.UserMessage("hi")},
		"multi-modal message": {{Role: schema.User, MultiContent: []schema.ChatMessagePart{
			{Type: schema.ChatMessagePartTypeText, Text: "what is this?"},
			{Type: schema.ChatMessagePartTypeImageURL, ImageURL: &schema.ChatMessageImageURL{URL: "http://x/y.png", Detail: schema.ImageURLDetailAuto}},
		}}},
		"assistant message with log probs": {{Role: schema.Assistant, Content: "a", ResponseMeta: &schema.ResponseMeta{
			FinishReason: "stop",
			LogProbs:     &schema.LogProbs{Content: []schema.LogProb{{Token: "a", LogProb: -0.5, Bytes: []int64{97}, TopLogProbs: []schema.TopLogProb{{Token: "a", LogProb: -0.5}}}}},
		}}},
	}
	for name, in := range inputs {
		var seen []*schema.Message
		g := NewGraph[[]*schema.Message, *schema.Message]()
		_ = g.AddLambdaNode("pre", InvokableLambda(func(ctx context.Context, in []*schema.Message) ([]*schema.Message, error) { return in, nil }))
		_ = g.AddLambdaNode("model", InvokableLambda(func(ctx context.Context, in []*schema.Message) (*schema.Message, error) {
			seen = in
			return schema.AssistantMessage("ok", nil), nil
		}))
		_ = g.AddEdge(START, "pre")
		_ = g.AddEdge("pre", "model")
		_ = g.AddEdge("model", END)
		r, err := g.Compile(context.Background(), WithCheckPointStore(&butStore{m: map[string][]byte{}}), WithInterruptBeforeNodes([]string{"model"}))
		if err != nil {
			t.Fatal(err)
		}
		_, err = r.Invoke(context.Background(), in, WithCheckPointID("cp"))
		info, ok := ExtractInterruptInfo(err)
		if !ok || fmt.Sprint(info.BeforeNodes) != "[model]" {
			t.Errorf("%s: expected an interrupt before \"model\" (and a checkpoint), got: %v", name, err)
			continue
		}
		if _, err = r.Invoke(context.Background(), in, WithCheckPointID("cp")); err != nil {
			t.Errorf("%s: resume failed: %v", name, err)
			continue
		}
		// compare as JSON: nil and empty containers are the same
		wantJSON, _ := json.Marshal(in)
		gotJSON, _ := json.Marshal(seen)
		if string(wantJSON) != string(gotJSON) {
			t.Errorf("%s: the pending input of \"model\" changed across the checkpoint:\n  want %s\n  got  %s", name, wantJSON, gotJSON)
		}
	}
}
