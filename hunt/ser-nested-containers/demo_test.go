package serialization

// Place as internal/serialization/hunt_nested_containers_test.go and run
//   go test -mod=mod -vet=off -count=1 -run TestHuntNestedContainers ./internal/serialization/

import (
	"reflect"
	"testing"
)

type hnestState struct {
	History map[string][]string // e.g. messages per session
	Matrix  [][]float64
	Opt     *[]int          // optional list
	Index   *map[string]int // optional index
}

type hnestOpt struct {
	Opt   *[]int
	Index *map[string]int
}

// All values are built from registered types only (string, int, float64, one registered struct) with
// slices, maps and pointers - the universe the round-trip guarantee is stated for.
func TestHuntNestedContainers(t *testing.T) {
	if err := GenericRegister[hnestState]("hunt_hnest_state"); err != nil {
		t.Fatal(err)
	}
	if err := GenericRegister[hnestOpt]("hunt_hnest_opt"); err != nil {
		t.Fatal(err)
	}
	list := []int{1, 2}
	idx := map[string]int{"a": 1}
	cases := []struct {
		name string
		v    any
	}{
		{"slice of slices", [][]int{{1}, {2, 3}}},
		{"map of slices", map[string][]string{"s1": {"hi", "there"}}},
		{"slice of maps", []map[string]int{{"a": 1}}},
		{"map of maps", map[string]map[string]bool{"a": {"b": true}}},
		{"non-nil pointers to slice / map in struct fields (the only case that works today)", hnestOpt{Opt: &list, Index: &idx}},
		{"nil pointers to slice / map in the same struct fields", hnestOpt{}},
		{"nil pointer to slice", (*[]int)(nil)},
		{"nested containers in struct fields", &hnestState{History: map[string][]string{"s": {"m1"}}, Matrix: [][]float64{{1, 2}, {3, 4}}, Opt: &list, Index: &idx}},
		{"slice of pointers to slices", []*[]int{&list, nil}},
	}
	for _, c := range cases {
		b, err := Marshal(c.v)
		if err != nil {
			t.Errorf("%s: Marshal(%#v) failed: %v\n    expected a round trip: the value only consists of registered types, slices, maps and pointers", c.name, c.v, err)
			continue
		}
		out, err := Unmarshal(b)
		if err != nil {
			t.Errorf("%s: Unmarshal failed: %v", c.name, err)
			continue
		}
		if !equalNilEmpty(reflect.ValueOf(c.v), reflect.ValueOf(out)) {
			t.Errorf("%s: changed\n    in : %#v\n    out: %#v", c.name, c.v, out)
		}
	}
}

// deep equality that treats nil and empty maps/slices as equal
func equalNilEmpty(a, b reflect.Value) bool {
	if a.IsValid() != b.IsValid() {
		return false
	}
	if !a.IsValid() {
		return true
	}
	if a.Type() != b.Type() {
		return false
	}
	switch a.Kind() {
	case reflect.Ptr, reflect.Interface:
		if a.IsNil() || b.IsNil() {
			return a.IsNil() == b.IsNil()
		}
		return equalNilEmpty(a.Elem(), b.Elem())
	case reflect.Slice:
		if a.Len() != b.Len() {
			return false
		}
		for i := 0; i < a.Len(); i++ {
			if !equalNilEmpty(a.Index(i), b.Index(i)) {
				return false
			}
		}
		return true
	case reflect.Map:
		if a.Len() != b.Len() {
			return false
		}
		for _, k := range a.MapKeys() {
			bv := b.MapIndex(k)
			if !bv.IsValid() || !equalNilEmpty(a.MapIndex(k), bv) {
				return false
			}
		}
		return true
	case reflect.Struct:
		for i := 0; i < a.NumField(); i++ {
			if !equalNilEmpty(a.Field(i), b.Field(i)) {
				return false
			}
		}
		return true
	default:
		return a.Interface() == b.Interface()
	}
}
