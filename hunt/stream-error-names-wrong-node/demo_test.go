package compose

// Place as compose/hunt_stream_error_names_wrong_node_test.go.

import (
	"context"
	"errors"
	"io"
	"strings"
	"testing"

	"github.com/cloudwego/eino/schema"
)

// START -> producer -> consumer -> END. The producer streams one chunk and then fails.
// Its failure must be reported with the producer's node path, in every paradigm.
func TestHuntStreamErrorNamesWrongNode(t *testing.T) {
	ctx := context.Background()
	base := errors.New("base failure")

	build := func(withConsumer bool) Runnable[string, string] {
		g := NewGraph[string, string]()
		_ = g.AddLambdaNode("producer", StreamableLambda(func(ctx context.Context, in string) (*schema.StreamReader[string], error) {
			sr, sw := schema.Pipe[string](2)
			sw.Send("a", nil)
			sw.Send("", base)
			sw.Close()
			return sr, nil
		}))
		_ = g.AddEdge(START, "producer")
		if withConsumer {
			_ = g.AddLambdaNode("consumer", InvokableLambda(func(ctx context.Context, in string) (string, error) { return in, nil }))
			_ = g.AddEdge("producer", "consumer")
			_ = g.AddEdge("consumer", END)
		} else {
			_ = g.AddEdge("producer", END)
		}
		r, err := g.Compile(ctx)
		if err != nil {
			t.Fatal(err)
		}
		return r
	}

	streamErr := func(r Runnable[string, string]) error {
		sr, err := r.Stream(ctx, "x")
		if err != nil {
			return err
		}
		defer sr.Close()
		for {
			_, err = sr.Recv()
			if err == io.EOF {
				return nil
			}
			if err != nil {
				return err
			}
		}
	}

	// reference: Invoke names the producer
	_, err := build(true).Invoke(ctx, "x")
	if err == nil || !errors.Is(err, base) || !strings.Contains(err.Error(), "node path: [producer]") {
		t.Fatalf("Invoke: want an error naming node path [producer], got %v", err)
	}

	// Stream, with a healthy non-streaming node behind the producer
	err = streamErr(build(true))
	if err == nil || !errors.Is(err, base) {
		t.Fatalf("Stream: want the producer's failure, got %v", err)
	}
	if !strings.Contains(err.Error(), "producer") {
		t.Errorf("Stream: node 'producer' failed, but the run's error does not name it; it blames the healthy node behind it:\n%v", err)
	}
	if strings.Contains(err.Error(), "node path: [consumer]") && !strings.Contains(err.Error(), "producer") {
		t.Errorf("Stream: the node path of the error is [consumer], the node that failed is 'producer'")
	}

	// Stream, producer directly before END: the failure arrives as an error item without any node path
	err = streamErr(build(false))
	if err == nil || !errors.Is(err, base) {
		t.Fatalf("Stream (producer -> END): want the producer's failure, got %v", err)
	}
	if !strings.Contains(err.Error(), "producer") {
		t.Errorf("Stream (producer -> END): the error item on the output stream names no node at all: %q", err.Error())
	}
}
