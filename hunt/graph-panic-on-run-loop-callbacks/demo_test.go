package compose

// place as compose/hunt_runloop_panic_demo_test.go

import (
	"context"
	"fmt"
	"strings"
	"sync"
	"testing"

	"github.com/cloudwego/eino/callbacks"
	"github.com/cloudwego/eino/schema"
)

type runLoopPanicRec struct {
	mu  sync.Mutex
	evs []string
}

func (r *runLoopPanicRec) add(s string) { r.mu.Lock(); r.evs = append(r.evs, s); r.mu.Unlock() }
func (r *runLoopPanicRec) handler() callbacks.Handler {
	return callbacks.NewHandlerBuilder().
		OnStartFn(func(ctx context.Context, info *callbacks.RunInfo, in callbacks.CallbackInput) context.Context {
			r.add(fmt.Sprintf("start %s/%s", info.Component, info.Name))
			return ctx
		}).
		OnEndFn(func(ctx context.Context, info *callbacks.RunInfo, out callbacks.CallbackOutput) context.Context {
			r.add(fmt.Sprintf("end %s/%s output=%v", info.Component, info.Name, out))
			return ctx
		}).
		OnErrorFn(func(ctx context.Context, info *callbacks.RunInfo, err error) context.Context {
			r.add(fmt.Sprintf("error %s/%s", info.Component, info.Name))
			return ctx
		}).
		OnStartWithStreamInputFn(func(ctx context.Context, info *callbacks.RunInfo, in *schema.StreamReader[callbacks.CallbackInput]) context.Context {
			in.Close()
			r.add(fmt.Sprintf("start %s/%s", info.Component, info.Name))
			return ctx
		}).
		OnEndWithStreamOutputFn(func(ctx context.Context, info *callbacks.RunInfo, out *schema.StreamReader[callbacks.CallbackOutput]) context.Context {
			out.Close()
			r.add(fmt.Sprintf("end %s/%s (stream)", info.Component, info.Name))
			return ctx
		}).Build()
}

// A nested graph whose branch condition panics. The panic is recovered by the executor of the enclosing graph and
// becomes the run's error; the nested graph is an execution unit with callbacks of its own and has to end for its
// handlers exactly once, with OnError (it did not produce anything).
func TestHuntNestedGraphPanicOnRunLoop(t *testing.T) {
	ctx := context.Background()
	sub := NewGraph[string, string]()
	_ = sub.AddLambdaNode("a", InvokableLambda(func(ctx context.Context, s string) (string, error) { return s + "a", nil }))
	_ = sub.AddLambdaNode("b", InvokableLambda(func(ctx context.Context, s string) (string, error) { return s + "b", nil }))
	_ = sub.AddLambdaNode("c", InvokableLambda(func(ctx context.Context, s string) (string, error) { return s + "c", nil }))
	_ = sub.AddEdge(START, "a")
	_ = sub.AddBranch("a", NewGraphBranch(func(ctx context.Context, s string) (string, error) {
		panic("boom")
	}, map[string]bool{"b": true, "c": true}))
	_ = sub.AddEdge("b", END)
	_ = sub.AddEdge("c", END)
	g := NewGraph[string, string]()
	_ = g.AddGraphNode("sub", sub, WithNodeName("sub"))
	_ = g.AddEdge(START, "sub")
	_ = g.AddEdge("sub", END)
	r, err := g.Compile(ctx, WithGraphName("top"))
	if err != nil {
		t.Fatal(err)
	}
	for _, stream := range []bool{false, true} {
		h := &runLoopPanicRec{}
		if stream {
			var sr *schema.StreamReader[string]
			sr, err = r.Stream(ctx, "x", WithCallbacks(h.handler()))
			if err == nil {
				_, err = concatStreamReader(sr)
			}
		} else {
			_, err = r.Invoke(ctx, "x", WithCallbacks(h.handler()))
		}
		if err == nil {
			t.Fatalf("stream=%v: expected the run to fail", stream)
		}
		if !strings.Contains(err.Error(), "boom") {
			t.Errorf("stream=%v: the run's error does not carry the panic of the branch condition any more: %.200v", stream, err)
		}
		var starts, ends, errs int
		for _, e := range h.evs {
			switch {
			case e == "start Graph/sub":
				starts++
			case strings.HasPrefix(e, "end Graph/sub"):
				ends++
			case e == "error Graph/sub":
				errs++
			}
		}
		if starts != 1 || ends != 0 || errs != 1 {
			t.Errorf("stream=%v: the handler saw for the nested graph %d start, %d end, %d error; expected 1 start and 1 error. events:\n  %s",
				stream, starts, ends, errs, strings.Join(h.evs, "\n  "))
		}
	}
}
