// Place as internal/serialization/hunt_named_pointer_elem_test.go (package serialization).
//
// e4209f6 made the encoder refuse a VALUE of an unregistered named pointer type (type Handle *Session)
// unless it sits in a struct field of exactly that type. The same type as the ELEMENT, KEY or POINTEE type
// of a container is still stripped to its pointer depth by the other pointer loops of the encoder:
//   - a registered struct with a field of type []Handle, map[string]Handle or *Handle - even when the
//     field is nil - marshals fine and PANICS in Unmarshal (reflect.Set: []*Session is not assignable ...);
//   - an empty []Handle / map[string]Handle / map[Handle]int / [0]Handle or a nil *Handle in an interface
//     slot comes back as []*Session / ... / **Session: the dynamic type changes silently.
package serialization

import (
	"reflect"
	"testing"
)

type huntNPSession struct{ ID int }
type huntNPHandle *huntNPSession

type huntNPSliceHolder struct{ Hs []huntNPHandle }
type huntNPMapHolder struct{ M map[string]huntNPHandle }
type huntNPPtrHolder struct{ PH *huntNPHandle }
type huntNPAny struct{ V any }

func init() {
	_ = GenericRegister[huntNPSession]("huntNPSession")
	_ = GenericRegister[huntNPSliceHolder]("huntNPSliceHolder")
	_ = GenericRegister[huntNPMapHolder]("huntNPMapHolder")
	_ = GenericRegister[huntNPPtrHolder]("huntNPPtrHolder")
	_ = GenericRegister[huntNPAny]("huntNPAny")
}

// roundTrip: Marshal may refuse the value (fine: "fails loudly"); if it accepts it, Unmarshal must
// neither panic nor fail, and must give back a value of the identical type.
func huntNPRoundTrip(t *testing.T, name string, v any, typeOf func(any) reflect.Type) {
	t.Helper()
	defer func() {
		if r := recover(); r != nil {
			t.Errorf("%s: Marshal accepted the value, Unmarshal panicked: %v", name, r)
		}
	}()
	b, err := Marshal(v)
	if err != nil {
		return
	}
	out, err := Unmarshal(b)
	if err != nil {
		t.Errorf("%s: Marshal accepted the value, Unmarshal failed: %v", name, err)
		return
	}
	if typeOf(out) != typeOf(v) {
		t.Errorf("%s: dynamic type changed in the round trip: %v -> %v", name, typeOf(v), typeOf(out))
	}
}

func TestHuntNamedPointerElemPanic(t *testing.T) {
	top := func(v any) reflect.Type { return reflect.TypeOf(v) }
	huntNPRoundTrip(t, "struct{Hs []Handle} zero value", huntNPSliceHolder{}, top)
	huntNPRoundTrip(t, "struct{Hs []Handle} empty slice", huntNPSliceHolder{Hs: []huntNPHandle{}}, top)
	huntNPRoundTrip(t, "struct{M map[string]Handle} zero value", huntNPMapHolder{}, top)
	huntNPRoundTrip(t, "struct{PH *Handle} zero value", huntNPPtrHolder{}, top)
}

func TestHuntNamedPointerElemTypeChange(t *testing.T) {
	inner := func(v any) reflect.Type { return reflect.TypeOf(v.(huntNPAny).V) }
	var nilPH *huntNPHandle
	huntNPRoundTrip(t, "any([]Handle{})", huntNPAny{V: []huntNPHandle{}}, inner)
	huntNPRoundTrip(t, "any(map[string]Handle{})", huntNPAny{V: map[string]huntNPHandle{}}, inner)
	huntNPRoundTrip(t, "any(map[Handle]int{})", huntNPAny{V: map[huntNPHandle]int{}}, inner)
	huntNPRoundTrip(t, "any([0]Handle{})", huntNPAny{V: [0]huntNPHandle{}}, inner)
	huntNPRoundTrip(t, "any((*Handle)(nil))", huntNPAny{V: nilPH}, inner)
}
