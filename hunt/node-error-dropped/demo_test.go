package compose_test

// Place as compose/hunt_demo_errwrap_test.go and run
//   go test -mod=mod -vet=off -count=1 -run TestHuntNodeErrorWrappingARunError ./compose/

import (
	"context"
	"errors"
	"strings"
	"testing"

	"github.com/cloudwego/eino/compose"
)

// the error type of the failing node: carries a code and the cause
type huntCodedError struct {
	Code  int
	cause error
}

func (e *huntCodedError) Error() string { return "coded error: " + e.cause.Error() }
func (e *huntCodedError) Unwrap() error { return e.cause }

func TestHuntNodeErrorWrappingARunError(t *testing.T) {
	ctx := context.Background()
	errBoom := errors.New("boom")

	// a helper runnable that some node uses internally (a tool that runs a chain, an agent used as a tool, ...)
	hg := compose.NewGraph[string, string]()
	_ = hg.AddLambdaNode("in", compose.InvokableLambda(func(ctx context.Context, in string) (string, error) { return "", errBoom }))
	_ = hg.AddEdge(compose.START, "in")
	_ = hg.AddEdge("in", compose.END)
	helper, err := hg.Compile(ctx)
	if err != nil {
		t.Fatal(err)
	}

	g := compose.NewGraph[string, string]()
	_ = g.AddLambdaNode("out", compose.InvokableLambda(func(ctx context.Context, in string) (string, error) {
		if _, err := helper.Invoke(ctx, in); err != nil {
			return "", &huntCodedError{Code: 42, cause: err} // the node's own error
		}
		return "ok", nil
	}))
	_ = g.AddEdge(compose.START, "out")
	_ = g.AddEdge("out", compose.END)
	r, err := g.Compile(ctx)
	if err != nil {
		t.Fatal(err)
	}

	for _, form := range []string{"invoke", "stream"} {
		var runErr error
		if form == "invoke" {
			_, runErr = r.Invoke(ctx, "x")
		} else {
			_, runErr = r.Stream(ctx, "x")
		}
		if runErr == nil {
			t.Fatalf("%s: expected an error", form)
		}
		var coded *huntCodedError
		if !errors.As(runErr, &coded) || coded.Code != 42 {
			t.Errorf("%s: node \"out\" failed with *huntCodedError{Code:42}; errors.As on the run's error cannot recover it "+
				"(errors.Is(boom)=%v). Run error: %s", form, errors.Is(runErr, errBoom), strings.ReplaceAll(runErr.Error(), "\n", " | "))
		}
		if !errors.Is(runErr, errBoom) {
			t.Errorf("%s: the cause is no longer matchable", form)
		}
		if !strings.Contains(runErr.Error(), "out") {
			t.Errorf("%s: the failing node is not named: %v", form, runErr)
		}
	}
}
