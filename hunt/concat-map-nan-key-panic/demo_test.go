package schema_test

// Place as schema/hunt_demo_nankey_test.go and run
//   go test -mod=mod -vet=off -count=1 -run TestHuntConcatMapNaNKey ./schema/

import (
	"math"
	"testing"

	"github.com/cloudwego/eino/schema"
)

func TestHuntConcatMapNaNKey(t *testing.T) {
	defer func() {
		if p := recover(); p != nil {
			t.Fatalf("concatenating two message chunks panicked: %v (expected a value or an error: chunk concatenation never panics)", p)
		}
	}()

	// a nested extra map keyed by float64 (e.g. a histogram by bucket bound) with one NaN key
	chunk := func(v string) *schema.Message {
		return &schema.Message{Role: schema.Assistant, Content: v, Extra: map[string]any{
			"buckets": map[float64]string{0.5: v, math.NaN(): v},
		}}
	}
	msg, err := schema.ConcatMessages([]*schema.Message{chunk("a"), chunk("b")})
	if err != nil {
		t.Logf("error (acceptable): %v", err)
		return
	}
	got := msg.Extra["buckets"].(map[float64]string)
	if got[0.5] != "ab" {
		t.Fatalf("buckets[0.5]: expected \"ab\", got %q", got[0.5])
	}
	if len(got) != 3 { // 0.5 and the two NaN entries, which are distinct keys in Go
		t.Fatalf("expected 3 entries (0.5 and two distinct NaN keys), got %d: %v", len(got), got)
	}
}
