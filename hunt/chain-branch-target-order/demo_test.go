package compose

import (
	"context"
	"testing"
)

// fails before /repo ceace10 (compile verdict e.g. map[false:9 true:31]), passes after
func TestDemoChainBranchPassthroughOrder(t *testing.T) {
	verdicts := map[bool]int{}
	for i := 0; i < 40; i++ {
		c := NewChain[string, int]()
		b := NewChainBranch(func(ctx context.Context, in string) (string, error) { return "x", nil })
		b.AddLambda("x", InvokableLambda(func(ctx context.Context, in string) (any, error) { return in, nil }))
		b.AddLambda("y", InvokableLambda(func(ctx context.Context, in string) (string, error) { return in, nil }))
		c.AppendBranch(b)
		c.AppendPassthrough()
		c.AppendLambda(InvokableLambda(func(ctx context.Context, in int) (int, error) { return in, nil }))
		_, err := c.Compile(context.Background())
		verdicts[err == nil]++
	}
	if len(verdicts) != 1 {
		t.Fatalf("compile verdict differs between identical builds: %v", verdicts)
	}
}
