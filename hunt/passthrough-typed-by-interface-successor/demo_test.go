package compose_test

import (
	"context"
	"testing"

	"github.com/cloudwego/eino/compose"
)

// place as compose/hunt_passthrough_successor_test.go

// s: string -> int, p: pass-through, a: any -> any, b: string -> string
// edges: START -> s, s -> p, p -> a, p -> b, a -> END     (int can never be handed to b)
func buildLaundered(t *testing.T, edgeOrder [][2]string) (compose.Runnable[string, any], error) {
	g := compose.NewGraph[string, any]()
	_ = g.AddLambdaNode("s", compose.InvokableLambda(func(ctx context.Context, in string) (int, error) { return len(in), nil }))
	_ = g.AddPassthroughNode("p")
	_ = g.AddLambdaNode("a", compose.InvokableLambda(func(ctx context.Context, in any) (any, error) { return in, nil }))
	_ = g.AddLambdaNode("b", compose.InvokableLambda(func(ctx context.Context, in string) (string, error) { return in, nil }))
	for _, e := range edgeOrder {
		if err := g.AddEdge(e[0], e[1]); err != nil {
			return nil, err
		}
	}
	return g.Compile(context.Background())
}

func TestHuntPassthroughTypedByInterfaceSuccessor(t *testing.T) {
	// predecessor first: p is int, p -> b is refused (as it must be)
	_, err := buildLaundered(t, [][2]string{{compose.START, "s"}, {"s", "p"}, {"p", "a"}, {"p", "b"}, {"a", compose.END}})
	if err == nil {
		t.Fatal("order 1: expected the int -> string connection to be refused")
	}
	t.Logf("order 1 (s->p first): rejected: %v", err)

	// the same edges, the interface-typed successor first: p becomes `any`, int -> any and any -> string both pass
	r, err := buildLaundered(t, [][2]string{{compose.START, "s"}, {"p", "a"}, {"s", "p"}, {"p", "b"}, {"a", compose.END}})
	if err != nil {
		t.Logf("order 2 (p->a first): rejected: %v", err)
		return
	}
	_, runErr := r.Invoke(context.Background(), "x")
	t.Fatalf("order 2 (p->a first): the same node and edge set compiled although an int output is wired through a "+
		"pass-through node into a func(string) node; every run fails on the type: %v", runErr)
}
