package compose

// Place as compose/hunt_demo_designated_sm_test.go (package compose, public API only).

import (
	"context"
	"fmt"
	"testing"
)

type smDemoState struct{ N int }

type smDemoStore struct{ m map[string][]byte }

func (s *smDemoStore) Get(_ context.Context, id string) ([]byte, bool, error) {
	v, ok := s.m[id]
	return v, ok, nil
}
func (s *smDemoStore) Set(_ context.Context, id string, b []byte) error {
	s.m[id] = append([]byte(nil), b...)
	return nil
}

func TestDemoDesignatedStateModifier(t *testing.T) {
	_ = RegisterSerializableType[smDemoState]("hunt_sm_demo_state")
	readN := func(ctx context.Context) (n int) {
		_ = ProcessState(ctx, func(ctx context.Context, s *smDemoState) error { n = s.N; return nil })
		return n
	}
	// nested graph with its own state (N=100), interrupted before s2, which prints the state
	sub := NewGraph[string, string](WithGenLocalState(func(ctx context.Context) *smDemoState { return &smDemoState{N: 100} }))
	_ = sub.AddLambdaNode("s1", InvokableLambda(func(ctx context.Context, in string) (string, error) { return in + "s1", nil }))
	_ = sub.AddLambdaNode("s2", InvokableLambda(func(ctx context.Context, in string) (string, error) {
		return fmt.Sprintf("%s s2[sub state %d]", in, readN(ctx)), nil
	}))
	_ = sub.AddEdge(START, "s1")
	_ = sub.AddEdge("s1", "s2")
	_ = sub.AddEdge("s2", END)
	// parent with its own state (N=1), printed by b
	top := NewGraph[string, string](WithGenLocalState(func(ctx context.Context) *smDemoState { return &smDemoState{N: 1} }))
	_ = top.AddGraphNode("sub", sub, WithGraphCompileOptions(WithInterruptBeforeNodes([]string{"s2"})))
	_ = top.AddLambdaNode("b", InvokableLambda(func(ctx context.Context, in string) (string, error) {
		return fmt.Sprintf("%s b[top state %d]", in, readN(ctx)), nil
	}))
	_ = top.AddEdge(START, "sub")
	_ = top.AddEdge("sub", "b")
	_ = top.AddEdge("b", END)
	r, err := top.Compile(context.Background(), WithCheckPointStore(&smDemoStore{m: map[string][]byte{}}))
	if err != nil {
		t.Fatal(err)
	}
	_, err = r.Invoke(context.Background(), "_", WithCheckPointID("x"))
	if _, ok := ExtractInterruptInfo(err); !ok {
		t.Fatal(err)
	}
	// resume with a state modifier designated to the nested graph node "sub"
	var calledFor []string
	out, err := r.Invoke(context.Background(), "_", WithCheckPointID("x"),
		WithStateModifier(func(ctx context.Context, p NodePath, state any) error {
			calledFor = append(calledFor, fmt.Sprint(p.path))
			state.(*smDemoState).N += 1000
			return nil
		}).DesignateNode("sub"))
	if err != nil {
		t.Fatal(err)
	}
	want := "_s1 s2[sub state 1100] b[top state 1]"
	if out != want {
		t.Fatalf("C16: a call option designated to node \"sub\" must reach only that node; the state modifier was applied for the node paths %v "+
			"(the empty path is the top-level graph).\n got: %q\nwant: %q", calledFor, out, want)
	}
}
