package compose

// place as compose/hunt_embedded_nil_pointer_test.go

import (
	"context"
	"testing"
)

type ENPBase struct{ F string }

type enpEmb struct {
	*ENPBase
	G string
}

type enpFlat struct{ A, B string }

// target: promoted field F of the embedded *ENPBase of the successor's input
func TestHuntEmbeddedNilPointerTarget(t *testing.T) {
	wf := NewWorkflow[enpFlat, enpEmb]()
	wf.End().AddInput(START, MapFields("A", "F"))
	r, err := wf.Compile(context.Background())
	if err != nil {
		t.Skipf("compile rejected: %v", err)
	}
	defer func() {
		if p := recover(); p != nil {
			t.Fatalf("accepted mapping A -> F (promoted through an embedded pointer): Invoke panicked, expected END to get F == \"a\": %v", p)
		}
	}()
	out, err := r.Invoke(context.Background(), enpFlat{A: "a"})
	if err != nil || out.ENPBase == nil || out.F != "a" {
		t.Fatalf("expected F == \"a\", got out=%+v err=%v", out, err)
	}
}

// source: promoted field F of an embedded *ENPBase that is nil in the predecessor's output
func TestHuntEmbeddedNilPointerSource(t *testing.T) {
	wf := NewWorkflow[enpEmb, enpFlat]()
	wf.End().AddInput(START, MapFields("F", "A"))
	r, err := wf.Compile(context.Background())
	if err != nil {
		t.Skipf("compile rejected: %v", err)
	}
	out, err := r.Invoke(context.Background(), enpEmb{ENPBase: &ENPBase{F: "f"}})
	if err != nil || out.A != "f" {
		t.Fatalf("sanity: out=%+v err=%v", out, err)
	}
	defer func() {
		if p := recover(); p != nil {
			t.Fatalf("the embedded pointer on the source path is nil in this request: Invoke panicked, expected an error: %v", p)
		}
	}()
	out, err = r.Invoke(context.Background(), enpEmb{G: "g"})
	if err == nil {
		t.Fatalf("expected an error, got out=%+v", out)
	}
}
