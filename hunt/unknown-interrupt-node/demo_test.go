package compose_test

import (
	"context"
	"testing"

	"github.com/cloudwego/eino/compose"
)

// place as compose/hunt_unknown_interrupt_node_test.go

func TestHuntUnknownInterruptNode(t *testing.T) {
	ctx := context.Background()
	build := func() *compose.Graph[string, string] {
		g := compose.NewGraph[string, string]()
		_ = g.AddLambdaNode("review", compose.InvokableLambda(func(ctx context.Context, in string) (string, error) { return in + "!", nil }))
		_ = g.AddEdge(compose.START, "review")
		_ = g.AddEdge("review", compose.END)
		return g
	}

	// a typo in the node key: the graph has no node "reveiw"
	r, err := build().Compile(ctx, compose.WithInterruptBeforeNodes([]string{"reveiw"}))
	if err == nil {
		out, runErr := r.Invoke(ctx, "x")
		t.Errorf("WithInterruptBeforeNodes names an unknown node: Compile must reject it; it compiled and the run "+
			"went through the node that was meant to be guarded: out=%q err=%v", out, runErr)
	}
	if _, err = build().Compile(ctx, compose.WithInterruptAfterNodes([]string{compose.END})); err == nil {
		t.Errorf("WithInterruptAfterNodes names END, which is no node: Compile must reject it")
	}
}
