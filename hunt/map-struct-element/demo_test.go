package compose

// place as compose/hunt_map_struct_element_test.go

import (
	"context"
	"testing"
)

type mseIn struct{ A, B string }

type mseInner struct{ F, G string }

type mseOuter struct {
	In mseInner
	Z  string
}

type mseFlat struct{ M map[string]mseInner }

type mseDeep struct{ M map[string]mseOuter }

// two mappings into two fields of the same struct-valued map element
func TestHuntMapStructElementTwoFields(t *testing.T) {
	wf := NewWorkflow[mseIn, mseFlat]()
	wf.End().AddInput(START,
		MapFieldPaths(FieldPath{"A"}, FieldPath{"M", "k", "F"}),
		MapFieldPaths(FieldPath{"B"}, FieldPath{"M", "k", "G"}))
	r, err := wf.Compile(context.Background())
	if err != nil {
		t.Skipf("compile rejected: %v", err)
	}
	defer func() {
		if p := recover(); p != nil {
			t.Fatalf("accepted mappings M.k.F and M.k.G: Invoke panicked instead of handing END {M: {k: {F:a G:b}}}: %v", p)
		}
	}()
	out, err := r.Invoke(context.Background(), mseIn{A: "a", B: "b"})
	if err != nil || out.M["k"] != (mseInner{F: "a", G: "b"}) {
		t.Fatalf("expected M[k]={F:a G:b}, got out=%+v err=%v", out, err)
	}
}

// one mapping into a struct nested in a struct-valued map element: the value is silently lost
func TestHuntMapStructElementNested(t *testing.T) {
	wf := NewWorkflow[mseIn, mseDeep]()
	wf.End().AddInput(START, MapFieldPaths(FieldPath{"A"}, FieldPath{"M", "k", "In", "F"}))
	r, err := wf.Compile(context.Background())
	if err != nil {
		t.Skipf("compile rejected: %v", err)
	}
	defer func() {
		if p := recover(); p != nil {
			t.Fatalf("Invoke panicked: %v", p)
		}
	}()
	out, err := r.Invoke(context.Background(), mseIn{A: "a"})
	if err != nil || out.M["k"].In.F != "a" {
		t.Fatalf("accepted mapping A -> M.k.In.F: expected M[k].In.F == \"a\", got out=%+v err=%v (the mapped value is lost)", out, err)
	}
}
