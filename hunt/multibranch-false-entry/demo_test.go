package compose_test

import (
	"context"
	"sync/atomic"
	"testing"

	"github.com/cloudwego/eino/compose"
)

// place as compose/hunt_multibranch_false_test.go

// A multi-choice condition answers with a map[string]bool. {"a": true, "b": false} selects a and does
// not select b; the framework runs b all the same.
func TestHuntMultiBranchFalseEntry(t *testing.T) {
	for _, mode := range []compose.NodeTriggerMode{compose.AnyPredecessor, compose.AllPredecessor} {
		ctx := context.Background()
		var ranB int32
		g := compose.NewGraph[string, map[string]any]()
		_ = g.AddLambdaNode("a", compose.InvokableLambda(func(ctx context.Context, in string) (string, error) { return in + "a", nil }), compose.WithOutputKey("a"))
		_ = g.AddLambdaNode("b", compose.InvokableLambda(func(ctx context.Context, in string) (string, error) {
			atomic.AddInt32(&ranB, 1)
			return in + "b", nil
		}), compose.WithOutputKey("b"))
		err := g.AddBranch(compose.START, compose.NewGraphMultiBranch(func(ctx context.Context, in string) (map[string]bool, error) {
			return map[string]bool{"a": true, "b": false}, nil
		}, map[string]bool{"a": true, "b": true}))
		if err != nil {
			t.Fatal(err)
		}
		_ = g.AddEdge("a", compose.END)
		_ = g.AddEdge("b", compose.END)
		r, err := g.Compile(ctx, compose.WithNodeTriggerMode(mode))
		if err != nil {
			t.Fatal(err)
		}
		out, err := r.Invoke(ctx, "x")
		if err != nil {
			t.Fatal(err)
		}
		if _, ok := out["b"]; ok || atomic.LoadInt32(&ranB) != 0 {
			t.Errorf("%s: the condition returned {a:true, b:false}; node b must not receive the value, but it ran %d time(s); output=%v", mode, ranB, out)
		}
	}
}
