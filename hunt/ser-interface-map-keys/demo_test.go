package serialization

// Place as internal/serialization/hunt_interface_map_keys_test.go and run
//   go test -mod=mod -vet=off -count=1 -run TestHuntInterfaceMapKeys ./internal/serialization/

import (
	"fmt"
	"reflect"
	"sort"
	"strings"
	"testing"
)

// himkDescribe prints maps with the dynamic type of every key
func himkDescribe(v any) string {
	rv := reflect.ValueOf(v)
	switch rv.Kind() {
	case reflect.Map:
		var parts []string
		for _, k := range rv.MapKeys() {
			parts = append(parts, fmt.Sprintf("%T(%v): %s", k.Interface(), k.Interface(), himkDescribe(rv.MapIndex(k).Interface())))
		}
		sort.Strings(parts)
		return rv.Type().String() + "{" + strings.Join(parts, ", ") + "}"
	case reflect.Slice:
		var parts []string
		for i := 0; i < rv.Len(); i++ {
			parts = append(parts, himkDescribe(rv.Index(i).Interface()))
		}
		return rv.Type().String() + "{" + strings.Join(parts, ", ") + "}"
	}
	return fmt.Sprintf("%#v", v)
}

type himkID int

// `any` is a registered type ("_eino_any"), so map[any]V is a map with a registered key type; its keys
// hold registered values. Interface-typed *values* keep their dynamic type through the round trip -
// interface-typed *keys* must do so too, or the map must be refused.
func TestHuntInterfaceMapKeys(t *testing.T) {
	if err := GenericRegister[himkID]("hunt_himk_id"); err != nil {
		t.Fatal(err)
	}
	cases := []struct {
		name string
		v    any
	}{
		{"int key", map[any]string{1: "one"}},
		{"named int key", map[any]string{himkID(7): "seven"}},
		{"int64 and string keys", map[any]int{int64(1) << 60: 1, "x": 2}},
		{"keys that differ only in their dynamic type", map[any]string{1: "int", int64(1): "int64", 1.0: "float64"}},
		{"in a struct-free nesting", []any{map[any]any{uint8(3): true}}},
	}
	for _, c := range cases {
		b, err := Marshal(c.v)
		if err != nil {
			t.Logf("%s: refused with an error (acceptable): %v", c.name, err)
			continue
		}
		out, err := Unmarshal(b)
		if err != nil {
			t.Logf("%s: refused with an error (acceptable): %v", c.name, err)
			continue
		}
		if !reflect.DeepEqual(c.v, out) {
			t.Errorf("%s: silently changed\n    in : %s\n    out: %s", c.name, himkDescribe(c.v), himkDescribe(out))
		}
	}
}
