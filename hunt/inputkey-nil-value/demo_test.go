package compose

// Place as compose/hunt_demo_test.go (package compose, public API only).

import (
	"context"
	"io"
	"testing"

	"github.com/cloudwego/eino/schema"
)

// A node reads its input from key "k" of a map (WithInputKey); the map holds a nil under that key.
// Invoke reports the nil as an error ("runtime type check fail ... actual type: <nil>"). In the stream paradigms the key
// filter builds its error message with reflect.TypeOf(v).String(), which dereferences a nil
// reflect.Type: a nil-pointer panic on whichever goroutine calls Recv - here the caller of Stream,
// because the node is a lazy Transform.
func TestHuntInputKeyNilValue(t *testing.T) {
	ctx := context.Background()
	g := NewGraph[map[string]any, string]()
	_ = g.AddLambdaNode("a", TransformableLambda(func(ctx context.Context, in *schema.StreamReader[string]) (*schema.StreamReader[string], error) {
		return in, nil
	}), WithInputKey("k"))
	_ = g.AddEdge(START, "a")
	_ = g.AddEdge("a", END)
	r, err := g.Compile(ctx)
	if err != nil {
		t.Fatal(err)
	}
	in := map[string]any{"k": nil}

	_, invokeErr := r.Invoke(ctx, in)
	if invokeErr == nil {
		t.Fatalf("Invoke: expected the type-check error")
	}

	defer func() {
		if p := recover(); p != nil {
			t.Errorf("Stream: reading the output panicked on the caller's goroutine (%v); Invoke reports the same failure as an error: %.160v", p, invokeErr)
		}
	}()
	sr, err := r.Stream(ctx, in)
	if err != nil {
		return // reported at call time: fine
	}
	defer sr.Close()
	for {
		_, e := sr.Recv()
		if e == io.EOF {
			t.Errorf("Stream: no failure reported, Invoke fails with %.160v", invokeErr)
			return
		}
		if e != nil {
			return // reported as an error item: fine
		}
	}
}
