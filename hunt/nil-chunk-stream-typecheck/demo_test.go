// Place this file at compose/hunt_nil_chunk_typecheck_test.go (package compose) and run
//
//	go test -vet=off -count=1 -run TestHuntNilChunk ./compose/
//
// A nil chunk on a stream of an interface type (any) is neutral for concatenation (72af7a5, 9446983,
// 751fcbd: "an untyped nil carries neither a type nor anything to concat: skip it"), so in value form
// [nil, "s", nil, "t"] is the string "st" and passes the run-time type check of an any -> string edge
// (or of WithInputKey). In stream form the per-chunk run-time checkers that 81ab92e taught about nil
// (defaultStreamConverter, defaultStreamMapFilter) accept the nil chunk only if the expected type is an
// interface and turn it into an error item otherwise: Invoke succeeds, Stream/Collect/Transform fail.
package compose

import (
	"context"
	"io"
	"testing"

	"github.com/cloudwego/eino/schema"
)

func huntNilChunkRunAll[I any](t *testing.T, r Runnable[I, string], in I, inChunks []I, want string) {
	t.Helper()
	ctx := context.Background()
	read := func(sr *schema.StreamReader[string]) (string, error) {
		defer sr.Close()
		out := ""
		for {
			c, err := sr.Recv()
			if err == io.EOF {
				return out, nil
			}
			if err != nil {
				return "", err
			}
			out += c
		}
	}
	got, err := r.Invoke(ctx, in)
	if err != nil || got != want {
		t.Fatalf("Invoke: got %q, %v; want %q (the demo's premise)", got, err, want)
	}
	if sr, err := r.Stream(ctx, in); err != nil {
		t.Errorf("Stream fails where Invoke returns %q: %v", want, err)
	} else if got, err := read(sr); err != nil || got != want {
		t.Errorf("Stream: got %q, err %v; Invoke returns %q", got, err, want)
	}
	if got, err := r.Collect(ctx, schema.StreamReaderFromArray(inChunks)); err != nil || got != want {
		t.Errorf("Collect: got %q, err %v; Invoke returns %q", got, err, want)
	}
	if sr, err := r.Transform(ctx, schema.StreamReaderFromArray(inChunks)); err != nil {
		t.Errorf("Transform fails where Invoke returns %q: %v", want, err)
	} else if got, err := read(sr); err != nil || got != want {
		t.Errorf("Transform: got %q, err %v; Invoke returns %q", got, err, want)
	}
}

// edge any -> string, checked at run time (defaultStreamConverter[string] in stream form)
func TestHuntNilChunkOnCheckedEdge(t *testing.T) {
	g := NewGraph[string, string]()
	_ = g.AddLambdaNode("a", StreamableLambda(func(ctx context.Context, in string) (*schema.StreamReader[any], error) {
		return schema.StreamReaderFromArray([]any{nil, "s", nil, "t"}), nil
	}))
	_ = g.AddLambdaNode("b", InvokableLambda(func(ctx context.Context, in string) (string, error) { return "b:" + in, nil }))
	_ = g.AddEdge(START, "a")
	_ = g.AddEdge("a", "b")
	_ = g.AddEdge("b", END)
	r, err := g.Compile(context.Background())
	if err != nil {
		t.Fatal(err)
	}
	huntNilChunkRunAll[string](t, r, "x", []string{"x"}, "b:st")
}

// WithInputKey (defaultStreamMapFilter[string] in stream form): the caller streams the input map in
// two chunks, the first of which does not know the value of "k" yet
func TestHuntNilChunkUnderInputKey(t *testing.T) {
	g := NewGraph[map[string]any, string]()
	_ = g.AddLambdaNode("b", InvokableLambda(func(ctx context.Context, in string) (string, error) { return "b:" + in, nil }), WithInputKey("k"))
	_ = g.AddEdge(START, "b")
	_ = g.AddEdge("b", END)
	r, err := g.Compile(context.Background())
	if err != nil {
		t.Fatal(err)
	}
	chunks := []map[string]any{{"k": nil, "other": "o"}, {"k": "s"}}
	whole, err := concatStreamReader(schema.StreamReaderFromArray(chunks))
	if err != nil {
		t.Fatal(err)
	}
	// whole == map[k:s other:o]
	ctx := context.Background()
	want, err := r.Invoke(ctx, whole)
	if err != nil || want != "b:s" {
		t.Fatalf("Invoke(concat(chunks)) = %q, %v", want, err)
	}
	if got, err := r.Collect(ctx, schema.StreamReaderFromArray(chunks)); err != nil || got != want {
		t.Errorf("Collect(chunks): got %q, err %v; Invoke(concat(chunks)) returns %q", got, err, want)
	}
}
