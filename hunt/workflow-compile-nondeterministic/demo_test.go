package compose_test

import (
	"context"
	"testing"

	"github.com/cloudwego/eino/compose"
)

// place as compose/hunt_wf_nondet_test.go

type nondetFooer interface{ Foo() string }
type nondetBarer interface{ Bar() string }
type nondetT struct{ s string }

func (t *nondetT) Foo() string { return "foo" + t.s }
func (t *nondetT) Bar() string { return "bar" + t.s }

// s(*T) -> p(pass-through) -> a(Fooer), b(Barer); *T implements both: a well-typed workflow.
func buildNondetWorkflow() *compose.Workflow[string, map[string]any] {
	wf := compose.NewWorkflow[string, map[string]any]()
	wf.AddLambdaNode("s", compose.InvokableLambda(func(ctx context.Context, in string) (*nondetT, error) { return &nondetT{in}, nil })).AddInput(compose.START)
	wf.AddPassthroughNode("p").AddInput("s")
	wf.AddLambdaNode("a", compose.InvokableLambda(func(ctx context.Context, in nondetFooer) (string, error) { return in.Foo(), nil })).AddInput("p")
	wf.AddLambdaNode("b", compose.InvokableLambda(func(ctx context.Context, in nondetBarer) (string, error) { return in.Bar(), nil })).AddInput("p")
	wf.End().AddInput("a", compose.ToField("a")).AddInput("b", compose.ToField("b"))
	return wf
}

func TestHuntWorkflowCompileNondeterministic(t *testing.T) {
	ctx := context.Background()
	ok, failed := 0, 0
	var lastErr error
	for i := 0; i < 200; i++ {
		r, err := buildNondetWorkflow().Compile(ctx)
		if err != nil {
			failed++
			lastErr = err
			continue
		}
		ok++
		out, err := r.Invoke(ctx, "x")
		if err != nil || out["a"] != "foox" || out["b"] != "barx" {
			t.Fatalf("run of a compiled instance: %v, %v", out, err)
		}
	}
	if ok != 0 && failed != 0 {
		t.Fatalf("the same construction sequence compiled %d times and was rejected %d times (last error: %v); "+
			"expected the same outcome on every attempt", ok, failed, lastErr)
	}
}

// s(int) -> p(pass-through) -> a(any), b(string): int can never reach a string node, the workflow must be rejected
// (C07), and it must be rejected every time (C20). It is accepted when p's edge to a happens to be added first.
func TestHuntWorkflowCompileNondeterministicUnsound(t *testing.T) {
	ctx := context.Background()
	ok, failed := 0, 0
	var runErr error
	for i := 0; i < 200; i++ {
		wf := compose.NewWorkflow[string, map[string]any]()
		wf.AddLambdaNode("s", compose.InvokableLambda(func(ctx context.Context, in string) (int, error) { return len(in), nil })).AddInput(compose.START)
		wf.AddPassthroughNode("p").AddInput("s")
		wf.AddLambdaNode("a", compose.InvokableLambda(func(ctx context.Context, in any) (string, error) { return "a", nil })).AddInput("p")
		wf.AddLambdaNode("b", compose.InvokableLambda(func(ctx context.Context, in string) (string, error) { return in, nil })).AddInput("p")
		wf.End().AddInput("a", compose.ToField("a")).AddInput("b", compose.ToField("b"))
		r, err := wf.Compile(ctx)
		if err != nil {
			failed++
			continue
		}
		ok++
		_, runErr = r.Invoke(ctx, "x")
	}
	if ok != 0 {
		t.Fatalf("int -> pass-through -> string node: compiled %d times, rejected %d times; every run of a compiled instance fails: %v", ok, failed, runErr)
	}
}
