package compose

// place as compose/hunt_lambda_interface_option_test.go

import (
	"context"
	"fmt"
	"testing"
)

type lioOption interface{ lioApply() string }

type lioOptionImpl struct{ v string }

func (o lioOptionImpl) lioApply() string { return o.v }

func lioGraph(t *testing.T) Runnable[string, string] {
	g := NewGraph[string, string]()
	err := g.AddLambdaNode("l", InvokableLambdaWithOption(func(ctx context.Context, in string, opts ...lioOption) (string, error) {
		for _, o := range opts {
			in += "+" + o.lioApply()
		}
		return in, nil
	}))
	if err != nil {
		t.Fatal(err)
	}
	err = g.AddLambdaNode("m", InvokableLambda(func(ctx context.Context, in string) (string, error) { return in + "|m", nil }))
	if err != nil {
		t.Fatal(err)
	}
	for _, e := range [][2]string{{START, "l"}, {"l", "m"}, {"m", END}} {
		if err = g.AddEdge(e[0], e[1]); err != nil {
			t.Fatal(err)
		}
	}
	r, err := g.Compile(context.Background())
	if err != nil {
		t.Fatal(err)
	}
	return r
}

// the lambda declares its options by an interface type; lioOptionImpl is an option of the right type
func TestHuntLambdaInterfaceOptionDesignated(t *testing.T) {
	r := lioGraph(t)
	out, err := r.Invoke(context.Background(), "x", WithLambdaOption(lioOptionImpl{v: "a"}).DesignateNode("l"))
	if err != nil {
		t.Fatalf("an option of the type node l declares was designated to l: expected it to reach l, got error: %v", err)
	}
	if out != "x+a|m" {
		t.Fatalf("out=%q, expected %q", out, "x+a|m")
	}
}

func TestHuntLambdaInterfaceOptionUndesignated(t *testing.T) {
	r := lioGraph(t)
	out, err := r.Invoke(context.Background(), "x", WithLambdaOption(lioOptionImpl{v: "a"}))
	if err != nil {
		t.Fatal(err)
	}
	if out != "x+a|m" {
		t.Fatalf("an undesignated lambda option of the type node l declares did not reach l: out=%q, expected %q", out, "x+a|m")
	}
}

// a nil option is an option of the wrong type: an error, not a panic
func TestHuntLambdaNilOptionDesignated(t *testing.T) {
	r := lioGraph(t)
	defer func() {
		if p := recover(); p != nil {
			t.Fatalf("designating a nil option panicked instead of returning an error: %v", p)
		}
	}()
	out, err := r.Invoke(context.Background(), "x", WithLambdaOption(nil).DesignateNode("l"))
	if err == nil {
		t.Fatalf("expected an error, got out=%q", out)
	}
	_ = fmt.Sprint(out)
}
