package compose_test

// Place as compose/hunt_demo_staticonly_test.go and run
//   go test -mod=mod -vet=off -count=1 -run TestHuntStaticValueOnlyNode ./compose/

import (
	"context"
	"io"
	"strings"
	"testing"

	"github.com/cloudwego/eino/compose"
)

type huntStaticIn struct {
	A string
	B string
}

func huntStaticWorkflow(t *testing.T) compose.Runnable[string, string] {
	wf := compose.NewWorkflow[string, string]()
	wf.AddLambdaNode("setup", compose.InvokableLambda(func(ctx context.Context, in string) (string, error) {
		return in, nil
	})).AddInput(compose.START)
	// n takes no data from any predecessor: it waits for "setup" (control-only dependency) and gets
	// one field of its input from a static value
	wf.AddLambdaNode("n", compose.InvokableLambda(func(ctx context.Context, in huntStaticIn) (string, error) {
		return "A=" + in.A + ",B=" + in.B, nil
	})).AddDependency("setup").SetStaticValue(compose.FieldPath{"A"}, "static")
	wf.End().AddInput("n")
	r, err := wf.Compile(context.Background())
	if err != nil {
		t.Fatalf("compile: %v", err)
	}
	return r
}

func TestHuntStaticValueOnlyNode(t *testing.T) {
	const want = "A=static,B="
	r := huntStaticWorkflow(t)

	t.Run("invoke", func(t *testing.T) {
		out, err := r.Invoke(context.Background(), "x")
		if err != nil {
			t.Fatalf("the workflow compiled, the node's input is its static value over the zero value, expected %q; got error: %v",
				want, firstLine(err))
		}
		if out != want {
			t.Fatalf("expected %q, got %q", want, out)
		}
	})

	t.Run("stream", func(t *testing.T) {
		sr, err := r.Stream(context.Background(), "x")
		if err != nil {
			t.Fatalf("the workflow compiled, the node's input is its static value over the zero value, expected %q; got error: %v",
				want, firstLine(err))
		}
		defer sr.Close()
		var got string
		for {
			c, err := sr.Recv()
			if err == io.EOF {
				break
			}
			if err != nil {
				t.Fatalf("expected %q, got error item: %v", want, firstLine(err))
			}
			got += c
		}
		if got != want {
			t.Fatalf("expected %q, got %q", want, got)
		}
	})
}

func firstLine(err error) string {
	lines := strings.Split(err.Error(), "\n")
	if len(lines) > 2 {
		return strings.Join(lines[:2], " ")
	}
	return err.Error()
}
