package compose

// Place as compose/hunt_tool_empty_stream_test.go (package compose; only the public API is used).

import (
	"context"
	"testing"

	"github.com/cloudwego/eino/components/tool"
	"github.com/cloudwego/eino/schema"
)

type huntQuietStreamTool struct{}

func (q *huntQuietStreamTool) Info(context.Context) (*schema.ToolInfo, error) {
	return &schema.ToolInfo{Name: "quiet"}, nil
}

// a streamable-only tool whose output for this call is empty: it closes its stream without a chunk
func (q *huntQuietStreamTool) StreamableRun(_ context.Context, _ string, _ ...tool.Option) (*schema.StreamReader[string], error) {
	sr, sw := schema.Pipe[string](0)
	sw.Close()
	return sr, nil
}

type huntLoudTool struct{}

func (l *huntLoudTool) Info(context.Context) (*schema.ToolInfo, error) {
	return &schema.ToolInfo{Name: "loud"}, nil
}

func (l *huntLoudTool) InvokableRun(_ context.Context, args string, _ ...tool.Option) (string, error) {
	return "loud:" + args, nil
}

// C17: "For an assistant message with N tool calls the tools node returns exactly N tool
// messages, the i-th carrying the i-th call's id and the output of the tool ...; the streamed
// form concatenates to the same list." With a streamable-only tool that produces no chunk for a
// call, the two forms neither agree with each other nor with the statement: Invoke fails the
// whole node, Stream succeeds but concatenates to a list whose entry for that call is nil (a nil
// *schema.Message that e.g. the ReAct agent then appends to the chat history).
func TestHuntToolWithEmptyOutputStream(t *testing.T) {
	ctx := context.Background()
	tn, err := NewToolNode(ctx, &ToolsNodeConfig{Tools: []tool.BaseTool{&huntLoudTool{}, &huntQuietStreamTool{}}})
	if err != nil {
		t.Fatal(err)
	}
	in := schema.AssistantMessage("", []schema.ToolCall{
		{ID: "id-1", Function: schema.FunctionCall{Name: "loud", Arguments: "a"}},
		{ID: "id-2", Function: schema.FunctionCall{Name: "quiet", Arguments: "b"}},
	})

	check := func(form string, msgs []*schema.Message, err error) {
		if err != nil {
			t.Errorf("%s: no tool failed, expected 2 tool messages, got error: %v", form, err)
			return
		}
		if len(msgs) != 2 {
			t.Errorf("%s: expected exactly 2 tool messages, got %d", form, len(msgs))
			return
		}
		for i, want := range []struct{ id, content string }{{"id-1", "loud:a"}, {"id-2", ""}} {
			if msgs[i] == nil {
				t.Errorf("%s: message %d is nil, expected a tool message with ToolCallID %q and content %q", form, i, want.id, want.content)
				continue
			}
			if msgs[i].Role != schema.Tool || msgs[i].ToolCallID != want.id || msgs[i].Content != want.content {
				t.Errorf("%s: message %d = %v, expected tool message id %q content %q", form, i, msgs[i], want.id, want.content)
			}
		}
	}

	out, err := tn.Invoke(ctx, in)
	check("Invoke", out, err)

	sr, err := tn.Stream(ctx, in)
	if err != nil {
		check("Stream", nil, err)
		return
	}
	out, err = concatStreamReader(sr)
	check("Stream (concatenated)", out, err)
}
