package compose

// place as compose/hunt_keyed_passthrough_panic_test.go

import (
	"context"
	"testing"
)

func kppNoPanic(t *testing.T, what string, f func() error) (err error) {
	defer func() {
		if p := recover(); p != nil {
			t.Fatalf("%s panicked instead of returning nil or an error: %v", what, p)
		}
	}()
	return f()
}

func TestHuntKeyedPassthroughOutputKey(t *testing.T) {
	g := NewGraph[string, map[string]any]()
	if err := g.AddPassthroughNode("p1", WithOutputKey("k")); err != nil {
		t.Fatal(err)
	}
	if err := g.AddPassthroughNode("p2"); err != nil {
		t.Fatal(err)
	}
	err := kppNoPanic(t, `AddEdge("p1", "p2")`, func() error { return g.AddEdge("p1", "p2") })
	if err != nil {
		t.Logf("rejected with an error: %v", err)
		return
	}
	// accepted: then the graph must work
	if err = g.AddEdge(START, "p1"); err != nil {
		t.Fatal(err)
	}
	if err = g.AddEdge("p2", END); err != nil {
		t.Fatal(err)
	}
	r, err := g.Compile(context.Background())
	if err != nil {
		t.Fatal(err)
	}
	out, err := r.Invoke(context.Background(), "x")
	if err != nil || out["k"] != "x" {
		t.Fatalf("out=%v err=%v", out, err)
	}
}

func TestHuntKeyedPassthroughInputKey(t *testing.T) {
	g := NewGraph[map[string]any, string]()
	if err := g.AddPassthroughNode("p1"); err != nil {
		t.Fatal(err)
	}
	if err := g.AddPassthroughNode("p2", WithInputKey("k")); err != nil {
		t.Fatal(err)
	}
	err := kppNoPanic(t, `AddEdge("p1", "p2")`, func() error { return g.AddEdge("p1", "p2") })
	if err != nil {
		t.Logf("rejected with an error: %v", err)
		return
	}
	if err = g.AddEdge(START, "p1"); err != nil {
		t.Fatal(err)
	}
	if err = g.AddEdge("p2", END); err != nil {
		t.Fatal(err)
	}
	r, err := g.Compile(context.Background())
	if err != nil {
		t.Fatal(err)
	}
	out, err := r.Invoke(context.Background(), map[string]any{"k": "x"})
	if err != nil || out != "x" {
		t.Fatalf("out=%v err=%v", out, err)
	}
}
