// Place as flow/agent/react/hunt_message_future_chain_test.go (package react).
//
// faa598e registers the MessageFuture's graph handler for Chains as well ("a Chain is treated like a
// graph"). When the agent's exported graph (Agent.ExportGraph) is appended to a Chain and that chain is
// run with the future's callbacks, the CHAIN now counts as "the agent's own graph" (depth 1) and the
// agent's graph as a graph nested in it (depth 2): nothing the agent's model and tools produce reaches
// the future any more. Before faa598e (and upstream) the future delivered all three messages.
package react

import (
	"context"
	"reflect"
	"testing"
	"time"

	"github.com/cloudwego/eino/components/model"
	"github.com/cloudwego/eino/components/tool"
	"github.com/cloudwego/eino/compose"
	"github.com/cloudwego/eino/flow/agent"
	"github.com/cloudwego/eino/schema"
)

type huntMFModel struct{ calls int }

func (m *huntMFModel) Generate(_ context.Context, _ []*schema.Message, _ ...model.Option) (*schema.Message, error) {
	m.calls++
	if m.calls == 1 {
		return schema.AssistantMessage("calling", []schema.ToolCall{{ID: "c1",
			Function: schema.FunctionCall{Name: "hunt_echo", Arguments: `{}`}}}), nil
	}
	return schema.AssistantMessage("bye", nil), nil
}

func (m *huntMFModel) Stream(ctx context.Context, in []*schema.Message, opts ...model.Option) (*schema.StreamReader[*schema.Message], error) {
	msg, _ := m.Generate(ctx, in, opts...)
	return schema.StreamReaderFromArray([]*schema.Message{msg}), nil
}

func (m *huntMFModel) BindTools(_ []*schema.ToolInfo) error { return nil }

type huntMFTool struct{}

func (huntMFTool) Info(_ context.Context) (*schema.ToolInfo, error) {
	return &schema.ToolInfo{Name: "hunt_echo", Desc: "echo"}, nil
}

func (huntMFTool) InvokableRun(_ context.Context, _ string, _ ...tool.Option) (string, error) {
	return "echoed", nil
}

func huntMFAgent(t *testing.T) *Agent {
	a, err := NewAgent(context.Background(), &AgentConfig{
		Model:       &huntMFModel{},
		ToolsConfig: compose.ToolsNodeConfig{Tools: []tool.BaseTool{huntMFTool{}}},
		MaxStep:     10,
	})
	if err != nil {
		t.Fatal(err)
	}
	return a
}

func huntMFWithin(t *testing.T, what string, f func() []string) []string {
	done := make(chan []string, 1)
	go func() { done <- f() }()
	select {
	case out := <-done:
		return out
	case <-time.After(5 * time.Second):
		t.Fatalf("%s blocked", what)
		return nil
	}
}

var huntMFWant = []string{"assistant:calling", "tool:echoed", "assistant:bye"}

func TestHuntMessageFutureAgentGraphInChainInvoke(t *testing.T) {
	ctx := context.Background()
	in := []*schema.Message{schema.UserMessage("hi")}

	// reference: the agent called directly
	opt, future := WithMessageFuture()
	if _, err := huntMFAgent(t).Generate(ctx, in, opt); err != nil {
		t.Fatal(err)
	}
	collect := func(f MessageFuture) func() []string {
		return func() []string {
			var out []string
			it := f.GetMessages()
			for {
				m, ok, err := it.Next()
				if !ok {
					return out
				}
				if err != nil {
					out = append(out, "ERR:"+err.Error())
					continue
				}
				out = append(out, string(m.Role)+":"+m.Content)
			}
		}
	}
	if got := huntMFWithin(t, "GetMessages (direct)", collect(future)); !reflect.DeepEqual(got, huntMFWant) {
		t.Fatalf("direct: messages = %v, want %v", got, huntMFWant)
	}

	// the agent's exported graph appended to a chain
	g, gOpts := huntMFAgent(t).ExportGraph()
	r, err := compose.NewChain[[]*schema.Message, *schema.Message]().AppendGraph(g, gOpts...).Compile(ctx)
	if err != nil {
		t.Fatal(err)
	}
	opt, future = WithMessageFuture()
	out, err := r.Invoke(ctx, in, agent.GetComposeOptions(opt)...)
	if err != nil || out.Content != "bye" {
		t.Fatalf("chain: %v, %v", out, err)
	}
	if got := huntMFWithin(t, "GetMessages (chain)", collect(future)); !reflect.DeepEqual(got, huntMFWant) {
		t.Errorf("agent graph in a chain: messages = %v, want %v", got, huntMFWant)
	}
}

func TestHuntMessageFutureAgentGraphInChainStream(t *testing.T) {
	ctx := context.Background()
	in := []*schema.Message{schema.UserMessage("hi")}

	g, gOpts := huntMFAgent(t).ExportGraph()
	r, err := compose.NewChain[[]*schema.Message, *schema.Message]().AppendGraph(g, gOpts...).Compile(ctx)
	if err != nil {
		t.Fatal(err)
	}
	opt, future := WithMessageFuture()
	sr, err := r.Stream(ctx, in, agent.GetComposeOptions(opt)...)
	if err != nil {
		t.Fatal(err)
	}
	got := huntMFWithin(t, "GetMessageStreams (chain)", func() []string {
		var out []string
		it := future.GetMessageStreams()
		for {
			s, ok, err := it.Next()
			if !ok {
				return out
			}
			if err != nil {
				out = append(out, "ERR:"+err.Error())
				continue
			}
			m, err := schema.ConcatMessageStream(s)
			if err != nil {
				out = append(out, "ERR:"+err.Error())
				continue
			}
			out = append(out, string(m.Role)+":"+m.Content)
		}
	})
	sr.Close()
	if !reflect.DeepEqual(got, huntMFWant) {
		t.Errorf("agent graph in a chain (Stream): messages = %v, want %v", got, huntMFWant)
	}
}
