package react

// place as flow/agent/react/hunt_resume_demo_test.go

import (
	"context"
	"sync"
	"sync/atomic"
	"testing"

	"github.com/cloudwego/eino/components/model"
	"github.com/cloudwego/eino/components/tool"
	"github.com/cloudwego/eino/compose"
	"github.com/cloudwego/eino/schema"
)

type resumeDemoModel struct{ n int32 }

func (m *resumeDemoModel) WithTools([]*schema.ToolInfo) (model.ToolCallingChatModel, error) {
	return m, nil
}
func (m *resumeDemoModel) answer(in []*schema.Message) *schema.Message {
	if len(in) == 1 { // only the user message so far: call the tool
		return &schema.Message{Role: schema.Assistant, ToolCalls: []schema.ToolCall{
			{ID: "1", Function: schema.FunctionCall{Name: "ask", Arguments: "x"}}}}
	}
	s := ""
	for _, x := range in {
		s += string(x.Role) + ":" + x.Content + "|"
	}
	return &schema.Message{Role: schema.Assistant, Content: "final:" + s}
}
func (m *resumeDemoModel) Generate(_ context.Context, in []*schema.Message, _ ...model.Option) (*schema.Message, error) {
	atomic.AddInt32(&m.n, 1)
	return m.answer(in), nil
}
func (m *resumeDemoModel) Stream(_ context.Context, in []*schema.Message, _ ...model.Option) (*schema.StreamReader[*schema.Message], error) {
	atomic.AddInt32(&m.n, 1)
	return schema.StreamReaderFromArray([]*schema.Message{m.answer(in)}), nil
}

type resumeDemoTool struct {
	interruptFirst bool
	calls          int32
}

func (t *resumeDemoTool) Info(context.Context) (*schema.ToolInfo, error) {
	return &schema.ToolInfo{Name: "ask", Desc: "ask"}, nil
}
func (t *resumeDemoTool) InvokableRun(_ context.Context, _ string, _ ...tool.Option) (string, error) {
	if atomic.AddInt32(&t.calls, 1) == 1 && t.interruptFirst {
		return "", compose.InterruptAndRerun // e.g. "wait for a human to approve"
	}
	return "r", nil
}

type resumeDemoStore struct {
	mu sync.Mutex
	m  map[string][]byte
}

func (s *resumeDemoStore) Get(_ context.Context, id string) ([]byte, bool, error) {
	s.mu.Lock()
	defer s.mu.Unlock()
	b, ok := s.m[id]
	return b, ok, nil
}
func (s *resumeDemoStore) Set(_ context.Context, id string, b []byte) error {
	s.mu.Lock()
	defer s.mu.Unlock()
	s.m[id] = append([]byte(nil), b...)
	return nil
}

// The agent's graph (Agent.ExportGraph) nested in a graph that has a checkpoint store; a tool asks for an
// interrupt (compose.InterruptAndRerun) on its first call. Expected: the run is reported as an interrupt, and the
// resumed run gives the answer of the uninterrupted run, in value and in stream form.
func TestHuntReactAgentInterruptResume(t *testing.T) {
	ctx := context.Background()
	build := func(interrupt bool) (compose.Runnable[[]*schema.Message, *schema.Message], *resumeDemoModel) {
		m := &resumeDemoModel{}
		ag, err := NewAgent(ctx, &AgentConfig{ToolCallingModel: m,
			ToolsConfig: compose.ToolsNodeConfig{Tools: []tool.BaseTool{&resumeDemoTool{interruptFirst: interrupt}}}})
		if err != nil {
			t.Fatal(err)
		}
		g, opts := ag.ExportGraph()
		parent := compose.NewGraph[[]*schema.Message, *schema.Message]()
		if err = parent.AddGraphNode("agent", g, opts...); err != nil {
			t.Fatal(err)
		}
		_ = parent.AddEdge(compose.START, "agent")
		_ = parent.AddEdge("agent", compose.END)
		r, err := parent.Compile(ctx, compose.WithCheckPointStore(&resumeDemoStore{m: map[string][]byte{}}))
		if err != nil {
			t.Fatal(err)
		}
		return r, m
	}
	in := []*schema.Message{schema.UserMessage("hi")}

	ref, _ := build(false)
	want, err := ref.Invoke(ctx, in, compose.WithCheckPointID("c"))
	if err != nil {
		t.Fatalf("uninterrupted run failed: %v", err)
	}

	for _, stream := range []bool{false, true} {
		r, m := build(true)
		call := func() (*schema.Message, error) {
			if !stream {
				return r.Invoke(ctx, in, compose.WithCheckPointID("c"))
			}
			sr, err := r.Stream(ctx, in, compose.WithCheckPointID("c"))
			if err != nil {
				return nil, err
			}
			return schema.ConcatMessageStream(sr)
		}
		_, err = call()
		if _, ok := compose.ExtractInterruptInfo(err); !ok {
			t.Fatalf("stream=%v: the tool asked for an interrupt; expected an interrupt error carrying InterruptInfo "+
				"(and a checkpoint under the given id), got: %.300v", stream, err)
		}
		got, err := call()
		if err != nil {
			t.Fatalf("stream=%v: resume failed: %.600v", stream, err)
		}
		if got.Content != want.Content {
			t.Fatalf("stream=%v: resumed run answered %q, uninterrupted run %q", stream, got.Content, want.Content)
		}
		if n := atomic.LoadInt32(&m.n); n != 2 {
			t.Fatalf("stream=%v: the model was called %d times, expected 2 (nothing completed is re-executed)", stream, n)
		}
	}
}
