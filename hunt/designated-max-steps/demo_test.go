package compose

// Place as compose/hunt_demo_test.go (package compose, public API only).

import (
	"context"
	"errors"
	"sync/atomic"
	"testing"
)

// sub: START -> a -> b -branch-> {a | END}: loops until `rounds` executions of b happened.
func huntLoopGraph(rounds int32, bRuns *int32) *Graph[string, string] {
	g := NewGraph[string, string]()
	_ = g.AddLambdaNode("a", InvokableLambda(func(ctx context.Context, in string) (string, error) { return in, nil }))
	_ = g.AddLambdaNode("b", InvokableLambda(func(ctx context.Context, in string) (string, error) {
		atomic.AddInt32(bRuns, 1)
		return in, nil
	}))
	_ = g.AddEdge(START, "a")
	_ = g.AddEdge("a", "b")
	_ = g.AddBranch("b", NewGraphBranch(func(ctx context.Context, in string) (string, error) {
		if atomic.LoadInt32(bRuns) >= rounds {
			return END, nil
		}
		return "a", nil
	}, map[string]bool{"a": true, END: true}))
	return g
}

// The loop graph alone honours the run-time step limit.
// Nested as node "sub" and given the same limit with DesignateNode("sub"), the limit is not applied
// to sub (it runs all its 2*4 supersteps); instead it is applied to the PARENT graph, whose own run
// (START -> pre -> sub -> post -> END, 3 supersteps) then fails with the max-steps error.
func TestHuntDesignatedMaxSteps(t *testing.T) {
	ctx := context.Background()

	var alone int32
	r, err := huntLoopGraph(4, &alone).Compile(ctx)
	if err != nil {
		t.Fatal(err)
	}
	if _, err = r.Invoke(ctx, "x", WithRuntimeMaxSteps(2)); !errors.Is(err, ErrExceedMaxSteps) {
		t.Fatalf("alone: want ErrExceedMaxSteps, got %v", err)
	}
	if n := atomic.LoadInt32(&alone); n > 1 {
		t.Fatalf("alone: b ran %d times within 2 supersteps", n)
	}

	var nested int32
	id := func() *Lambda {
		return InvokableLambda(func(ctx context.Context, in string) (string, error) { return in, nil })
	}
	p := NewGraph[string, string]()
	_ = p.AddLambdaNode("pre", id())
	_ = p.AddGraphNode("sub", huntLoopGraph(4, &nested))
	_ = p.AddLambdaNode("post", id())
	_ = p.AddEdge(START, "pre")
	_ = p.AddEdge("pre", "sub")
	_ = p.AddEdge("sub", "post")
	_ = p.AddEdge("post", END)
	pr, err := p.Compile(ctx)
	if err != nil {
		t.Fatal(err)
	}
	_, err = pr.Invoke(ctx, "x", WithRuntimeMaxSteps(2).DesignateNode("sub"))
	n := atomic.LoadInt32(&nested)
	if n > 1 {
		t.Errorf("limit of 2 supersteps designated to node sub: sub executed b %d times (>= %d supersteps); the same graph compiled alone stops after 2 supersteps", n, 2*n)
	}
	if err == nil || !errors.Is(err, ErrExceedMaxSteps) {
		t.Errorf("want ErrExceedMaxSteps from sub, got %v", err)
	}
}

// All-predecessor parent: a step limit makes no sense for the parent itself, but the nested loop graph
// is an any-predecessor graph. Designating the limit to it is rejected as if it were meant for the parent.
func TestHuntDesignatedMaxStepsDAGParent(t *testing.T) {
	ctx := context.Background()
	var nested int32
	p := NewGraph[string, string]()
	_ = p.AddGraphNode("sub", huntLoopGraph(4, &nested))
	_ = p.AddEdge(START, "sub")
	_ = p.AddEdge("sub", END)
	pr, err := p.Compile(ctx, WithNodeTriggerMode(AllPredecessor))
	if err != nil {
		t.Fatal(err)
	}
	_, err = pr.Invoke(ctx, "x", WithRuntimeMaxSteps(2).DesignateNode("sub"))
	if !errors.Is(err, ErrExceedMaxSteps) {
		t.Errorf("limit of 2 supersteps designated to the any-predecessor node sub: want ErrExceedMaxSteps from sub, got: %.200v", err)
	}
	if n := atomic.LoadInt32(&nested); n > 1 {
		t.Errorf("sub executed b %d times", n)
	}
}
