// Place as compose/hunt_state_modifier_nested_test.go (package compose).
//
// f4395fe: "designating [a state modifier] to a non-graph node is an error". That holds for a node of
// the graph the call is made on; the same designation one level down (a Lambda inside a nested graph) is
// still accepted silently and the modifier is never called - while a run-time step limit designated the
// same way is refused at both levels.
package compose

import (
	"context"
	"strings"
	"testing"
)

func TestHuntStateModifierDesignatedToNestedNonGraphNode(t *testing.T) {
	ctx := context.Background()
	lam := func(suffix string) *Lambda {
		return InvokableLambda(func(ctx context.Context, in string) (string, error) { return in + suffix, nil })
	}

	sub := NewGraph[string, string]()
	_ = sub.AddLambdaNode("l", lam("l"))
	_ = sub.AddEdge(START, "l")
	_ = sub.AddEdge("l", END)

	g := NewGraph[string, string]()
	_ = g.AddLambdaNode("top", lam("t"))
	_ = g.AddGraphNode("sub", sub)
	_ = g.AddEdge(START, "top")
	_ = g.AddEdge("top", "sub")
	_ = g.AddEdge("sub", END)
	r, err := g.Compile(ctx)
	if err != nil {
		t.Fatal(err)
	}

	sm := func(ctx context.Context, path NodePath, state any) error { return nil }

	// reference: the same designation at top level, and a step limit at the nested level, are errors
	if _, err = r.Invoke(ctx, "x", WithStateModifier(sm).DesignateNode("top")); err == nil ||
		!strings.Contains(err.Error(), "state modifier can only be designated to a graph node") {
		t.Fatalf("top-level designation to a Lambda: expected the error of f4395fe, got %v", err)
	}
	if _, err = r.Invoke(ctx, "x", WithRuntimeMaxSteps(3).DesignateNodeWithPath(NewNodePath("sub", "l"))); err == nil {
		t.Fatalf("step limit designated to a nested Lambda: expected an error, got none")
	}

	for name, call := range map[string]func(Option) error{
		"Invoke": func(o Option) error { _, e := r.Invoke(ctx, "x", o); return e },
		"Stream": func(o Option) error {
			sr, e := r.Stream(ctx, "x", o)
			if e != nil {
				return e
			}
			defer sr.Close()
			for {
				if _, e = sr.Recv(); e != nil {
					if e.Error() == "EOF" {
						return nil
					}
					return e
				}
			}
		},
	} {
		err = call(WithStateModifier(sm).DesignateNodeWithPath(NewNodePath("sub", "l")))
		if err == nil {
			t.Errorf("%s: a state modifier designated to the Lambda node sub/l of a nested graph was accepted (and is never called)", name)
		}
	}
}
