package compose

// Place as compose/hunt_checkpoint_id_ignored_inside_node_test.go.

import (
	"context"
	"sync"
	"testing"
)

type huntEMemStore struct {
	mu sync.Mutex
	m  map[string][]byte
}

func (s *huntEMemStore) Get(_ context.Context, id string) ([]byte, bool, error) {
	s.mu.Lock()
	defer s.mu.Unlock()
	v, ok := s.m[id]
	return v, ok, nil
}

func (s *huntEMemStore) Set(_ context.Context, id string, b []byte) error {
	s.mu.Lock()
	defer s.mu.Unlock()
	s.m[id] = b
	return nil
}

func (s *huntEMemStore) has(id string) bool {
	s.mu.Lock()
	defer s.mu.Unlock()
	_, ok := s.m[id]
	return ok
}

// A compiled graph with a checkpoint store and an interrupt point, run with WithCheckPointID:
// once directly, once by application code that happens to execute inside a node (a Lambda; the same holds
// for a tool of a ToolsNode) of another, unrelated graph and passes the context it was given.
func TestHuntCheckPointIDIgnoredInsideNode(t *testing.T) {
	ctx := context.Background()
	store := &huntEMemStore{m: map[string][]byte{}}

	var xRuns int
	inner := NewGraph[string, string]()
	_ = inner.AddLambdaNode("x", InvokableLambda(func(ctx context.Context, in string) (string, error) {
		xRuns++
		return in + "x", nil
	}))
	_ = inner.AddLambdaNode("y", InvokableLambda(func(ctx context.Context, in string) (string, error) { return in + "y", nil }))
	_ = inner.AddEdge(START, "x")
	_ = inner.AddEdge("x", "y")
	_ = inner.AddEdge("y", END)
	ir, err := inner.Compile(ctx, WithCheckPointStore(store), WithInterruptBeforeNodes([]string{"y"}))
	if err != nil {
		t.Fatal(err)
	}

	// the two calls an application makes: run until the interrupt, then resume
	runAndResume := func(ctx context.Context, id string) (out string, firstErr error, extractable bool, stored bool, err error) {
		_, firstErr = ir.Invoke(ctx, "a", WithCheckPointID(id))
		_, extractable = ExtractInterruptInfo(firstErr)
		stored = store.has(id)
		out, err = ir.Invoke(ctx, "", WithCheckPointID(id))
		return
	}

	// directly
	xRuns = 0
	out, firstErr, extractable, stored, err := runAndResume(ctx, "direct")
	if firstErr == nil || !extractable || !stored || err != nil || out != "axy" || xRuns != 1 {
		t.Fatalf("direct call: firstErr=%v extractable=%v stored=%v out=%q err=%v xRuns=%d", firstErr, extractable, stored, out, err, xRuns)
	}

	// the same two calls from inside a node of another graph
	var (
		out2                  string
		firstErr2, err2       error
		extractable2, stored2 bool
	)
	outer := NewGraph[string, string]()
	_ = outer.AddLambdaNode("L", InvokableLambda(func(ctx context.Context, in string) (string, error) {
		out2, firstErr2, extractable2, stored2, err2 = runAndResume(ctx, "inside-node")
		return "done", nil
	}))
	_ = outer.AddEdge(START, "L")
	_ = outer.AddEdge("L", END)
	or, err := outer.Compile(ctx)
	if err != nil {
		t.Fatal(err)
	}
	xRuns = 0
	if _, err = or.Invoke(ctx, "a"); err != nil {
		t.Fatal(err)
	}
	if firstErr2 == nil {
		t.Fatal("expected the interrupt before y")
	}
	if !extractable2 {
		t.Errorf("C06: the interrupt of the run with checkpoint id 'inside-node' is returned as an error from which ExtractInterruptInfo extracts nothing: %T %v", firstErr2, firstErr2)
	}
	if !stored2 {
		t.Errorf("C06: the caller supplied checkpoint id 'inside-node', an interrupt error was returned, but no checkpoint was written under that id")
	}
	if err2 != nil || out2 != "axy" {
		t.Errorf("C05: resuming under the same checkpoint id does not complete the run: out=%q err=%v (want \"axy\", nil)", out2, err2)
	}
	if xRuns != 1 {
		t.Errorf("C05: node x, completed before the interrupt, ran %d times over run+resume (want 1)", xRuns)
	}
}
