package compose

// Place as compose/hunt_lazy_converter_panic_test.go.

import (
	"context"
	"fmt"
	"io"
	"testing"

	"github.com/cloudwego/eino/schema"
)

// A transform node written the idiomatic way (schema.StreamReaderWithConvert over its input, as the framework's
// own ReAct agent and tool helpers do) whose per-chunk code panics on a particular chunk.
func TestHuntLazyConverterPanicEscapesRun(t *testing.T) {
	ctx := context.Background()

	g := NewGraph[string, string]()
	_ = g.AddLambdaNode("T", TransformableLambda(func(ctx context.Context, in *schema.StreamReader[string]) (*schema.StreamReader[string], error) {
		return schema.StreamReaderWithConvert(in, func(s string) (string, error) {
			if s == "boom" {
				var m map[string]int
				m["x"] = 1 // nil map write: the node's bug
			}
			return s + "!", nil
		}), nil
	}))
	_ = g.AddEdge(START, "T")
	_ = g.AddEdge("T", END)
	r, err := g.Compile(ctx)
	if err != nil {
		t.Fatal(err)
	}

	// Invoke: the panic is contained, the run fails with an error
	if _, err := r.Invoke(ctx, "boom"); err == nil {
		t.Fatal("Invoke: expected an error")
	}

	// Collect: must be an error as well
	func() {
		defer func() {
			if p := recover(); p != nil {
				t.Errorf("Collect: the panic of node T's per-chunk code is raised on the caller's goroutine (Invoke reports it as an error): %v", p)
			}
		}()
		if _, err := r.Collect(ctx, schema.StreamReaderFromArray([]string{"ok", "boom"})); err == nil {
			t.Errorf("Collect: expected an error")
		}
	}()

	// Stream and Transform: the same failure must be an error (at call time or as an item), not a panic
	consume := func(name string, open func() (*schema.StreamReader[string], error)) {
		var got error
		panicked := func() (p any) {
			defer func() { p = recover() }()
			sr, err := open()
			if err != nil {
				got = err
				return nil
			}
			defer sr.Close()
			for {
				_, err := sr.Recv()
				if err == io.EOF {
					return nil
				}
				if err != nil {
					got = err
					return nil
				}
			}
		}()
		if panicked != nil {
			t.Errorf("%s: the panic of node T's per-chunk code is not contained: it is raised on the goroutine of the caller "+
				"reading the output stream (Invoke reports it as an error): %v", name, fmt.Sprint(panicked))
			return
		}
		if got == nil {
			t.Errorf("%s: the failure was swallowed", name)
		}
	}
	consume("Stream", func() (*schema.StreamReader[string], error) { return r.Stream(ctx, "boom") })
	consume("Transform", func() (*schema.StreamReader[string], error) {
		return r.Transform(ctx, schema.StreamReaderFromArray([]string{"ok", "boom"}))
	})
}
