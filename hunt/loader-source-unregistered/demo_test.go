package compose

// Place as compose/hunt_demo_loader_source_test.go (package compose, public API only).

import (
	"context"
	"testing"

	"github.com/cloudwego/eino/components/document"
	"github.com/cloudwego/eino/schema"
)

type srcDemoStore struct{ m map[string][]byte }

func (s *srcDemoStore) Get(_ context.Context, id string) ([]byte, bool, error) {
	v, ok := s.m[id]
	return v, ok, nil
}
func (s *srcDemoStore) Set(_ context.Context, id string, b []byte) error {
	s.m[id] = append([]byte(nil), b...)
	return nil
}

type srcDemoLoader struct{}

func (srcDemoLoader) Load(_ context.Context, src document.Source, _ ...document.LoaderOption) ([]*schema.Document, error) {
	return []*schema.Document{{ID: src.URI}}, nil
}

// START -> mk (string -> document.Source) -> load (Loader component) -> END, interrupt-before the loader:
// the pending input of the loader, a document.Source, has to go into the checkpoint.
func TestDemoLoaderSourceInCheckpoint(t *testing.T) {
	for _, stream := range []bool{false, true} {
		g := NewGraph[string, []*schema.Document]()
		_ = g.AddLambdaNode("mk", InvokableLambda(func(ctx context.Context, in string) (document.Source, error) {
			return document.Source{URI: in}, nil
		}))
		_ = g.AddLoaderNode("load", srcDemoLoader{})
		_ = g.AddEdge(START, "mk")
		_ = g.AddEdge("mk", "load")
		_ = g.AddEdge("load", END)
		store := &srcDemoStore{m: map[string][]byte{}}
		r, err := g.Compile(context.Background(), WithCheckPointStore(store), WithInterruptBeforeNodes([]string{"load"}))
		if err != nil {
			t.Fatal(err)
		}
		call := func() ([]*schema.Document, error) {
			if !stream {
				return r.Invoke(context.Background(), "uri", WithCheckPointID("x"))
			}
			sr, err := r.Stream(context.Background(), "uri", WithCheckPointID("x"))
			if err != nil {
				return nil, err
			}
			defer sr.Close()
			return sr.Recv()
		}
		_, err = call()
		if _, ok := ExtractInterruptInfo(err); !ok {
			t.Fatalf("C06 (stream=%v): interrupt-before a Loader node must be returned as an interrupt error with a checkpoint written; got: %v", stream, err)
		}
		if _, ok := store.m["x"]; !ok {
			t.Fatalf("no checkpoint written")
		}
		out, err := call()
		if err != nil || len(out) != 1 || out[0].ID != "uri" {
			t.Fatalf("C05 (stream=%v): resume: %v %v", stream, out, err)
		}
	}
}
