package react

// place as flow/agent/react/hunt_future_copies_demo_test.go

import (
	"context"
	"testing"
	"time"

	"github.com/cloudwego/eino/components/model"
	"github.com/cloudwego/eino/components/tool"
	"github.com/cloudwego/eino/compose"
	"github.com/cloudwego/eino/flow/agent"
	"github.com/cloudwego/eino/schema"
)

// a model that streams its answer chunk by chunk through an unbuffered pipe; released tells that the producer
// goroutine has ended (all chunks sent, or the reader side was closed)
type futCopiesModel struct {
	released chan struct{}
}

func (m *futCopiesModel) WithTools([]*schema.ToolInfo) (model.ToolCallingChatModel, error) {
	return m, nil
}
func (m *futCopiesModel) Generate(context.Context, []*schema.Message, ...model.Option) (*schema.Message, error) {
	return &schema.Message{Role: schema.Assistant, Content: "abcdefgh"}, nil
}
func (m *futCopiesModel) Stream(context.Context, []*schema.Message, ...model.Option) (*schema.StreamReader[*schema.Message], error) {
	sr, sw := schema.Pipe[*schema.Message](0)
	go func() {
		defer close(m.released)
		defer sw.Close()
		for _, r := range "abcdefgh" {
			if sw.Send(&schema.Message{Role: schema.Assistant, Content: string(r)}, nil) {
				return
			}
		}
	}()
	return sr, nil
}

type futCopiesTool struct{}

func (futCopiesTool) Info(context.Context) (*schema.ToolInfo, error) {
	return &schema.ToolInfo{Name: "t", Desc: "t"}, nil
}
func (futCopiesTool) InvokableRun(context.Context, string, ...tool.Option) (string, error) {
	return "r", nil
}

func futCopiesRun(t *testing.T, withFuture bool) bool {
	ctx := context.Background()
	m := &futCopiesModel{released: make(chan struct{})}
	ag, err := NewAgent(ctx, &AgentConfig{ToolCallingModel: m,
		ToolsConfig: compose.ToolsNodeConfig{Tools: []tool.BaseTool{futCopiesTool{}}}})
	if err != nil {
		t.Fatal(err)
	}
	var opts []agent.AgentOption
	var fut MessageFuture
	if withFuture {
		var o agent.AgentOption
		o, fut = WithMessageFuture()
		opts = append(opts, o)
	}
	sr, err := ag.Stream(ctx, []*schema.Message{schema.UserMessage("hi")}, opts...)
	if err != nil {
		t.Fatal(err)
	}
	c, err := sr.Recv()
	if err != nil || c.Content != "a" {
		t.Fatalf("first chunk: %v %v", c, err)
	}
	sr.Close() // the caller stops reading early
	if fut != nil {
		// ... and closes every stream the future hands out
		for it := fut.GetMessageStreams(); ; {
			s, ok, e := it.Next()
			if !ok {
				break
			}
			if e != nil {
				t.Fatal(e)
			}
			s.Close()
		}
	}
	select {
	case <-m.released:
		return true
	case <-time.After(3 * time.Second):
		return false
	}
}

func TestHuntMessageFutureLeavesProducerBlocked(t *testing.T) {
	if !futCopiesRun(t, false) {
		t.Fatalf("without WithMessageFuture the model's producer is not released either (demo broken)")
	}
	if !futCopiesRun(t, true) {
		t.Fatalf("with WithMessageFuture: every reader the caller holds (the agent's output stream and all streams of the " +
			"future) has been closed, yet 3s later the model's producer is still blocked in Send: the graph's output " +
			"stream copy handed to the future's own graph handler is never closed")
	}
}
