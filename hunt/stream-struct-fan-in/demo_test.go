package compose

// place as compose/hunt_stream_struct_fan_in_test.go

import (
	"context"
	"testing"
)

type ssfIn struct{ A, B string }

type ssfMid struct{ V string }

type ssfArg struct{ X, Y string }

func TestHuntStreamStructFanIn(t *testing.T) {
	mid := func(pick func(ssfIn) string) *Lambda {
		return InvokableLambda(func(ctx context.Context, in ssfIn) (ssfMid, error) { return ssfMid{V: pick(in)}, nil })
	}
	wf := NewWorkflow[ssfIn, string]()
	wf.AddLambdaNode("a", mid(func(in ssfIn) string { return in.A })).AddInput(START)
	wf.AddLambdaNode("b", mid(func(in ssfIn) string { return in.B })).AddInput(START)
	wf.AddLambdaNode("c", InvokableLambda(func(ctx context.Context, in ssfArg) (string, error) {
		return "X=" + in.X + " Y=" + in.Y, nil
	})).
		AddInput("a", MapFields("V", "X")).
		AddInput("b", MapFields("V", "Y"))
	wf.End().AddInput("c")
	r, err := wf.Compile(context.Background())
	if err != nil {
		t.Fatal(err)
	}

	want := "X=a Y=b"
	out, err := r.Invoke(context.Background(), ssfIn{A: "a", B: "b"})
	if err != nil || out != want {
		t.Fatalf("Invoke: out=%q err=%v", out, err)
	}

	sr, err := r.Stream(context.Background(), ssfIn{A: "a", B: "b"})
	if err != nil {
		t.Fatalf("the same workflow, same input, streaming execution: node c must receive {X:a Y:b} as with Invoke (%q), got error:\n%.300s", want, err.Error())
	}
	defer sr.Close()
	got := ""
	for {
		chunk, err := sr.Recv()
		if err != nil {
			if err.Error() != "EOF" {
				t.Fatalf("streaming execution: expected %q as with Invoke, got error:\n%.300s", want, err.Error())
			}
			break
		}
		got += chunk
	}
	if got != want {
		t.Fatalf("streaming execution gave %q, Invoke gave %q", got, want)
	}
}
