package schema

// Place as schema/hunt_filter_merge_close_test.go (package schema; only the public API is used).

import (
	"testing"
	"time"
)

// C08: "When every reader derived from a stream has been closed, the writer is told on its
// next send". A converter that drops items (ErrNoValue) and sits below a merge hides the close:
// the forwarding goroutine of the merge only looks at the closed flag when it has an item to
// forward, so as long as every item is filtered out the writer is never told.
func TestHuntFilterBelowMergeHidesClose(t *testing.T) {
	src, sw := Pipe[int](0)
	other, ow := Pipe[int](0)
	defer ow.Close()

	onlyEven := StreamReaderWithConvert(src, func(i int) (int, error) {
		if i%2 == 1 {
			return 0, ErrNoValue // dropped
		}
		return i, nil
	})

	merged := MergeStreamReaders([]*StreamReader[int]{onlyEven, other})
	merged.Close() // the only reader derived from src is closed now

	const sends = 100
	for i := 0; i < sends; i++ {
		res := make(chan bool, 1)
		go func(v int) { res <- sw.Send(v, nil) }(2*i + 1) // odd values: all dropped by the converter
		select {
		case closed := <-res:
			if closed {
				return // the writer has been told
			}
		case <-time.After(10 * time.Second):
			t.Fatalf("send #%d blocked for 10s after every reader had been closed", i)
		}
	}
	t.Fatalf("every reader derived from the stream was closed, yet %d consecutive Send calls returned closed=false: "+
		"the writer is never told (expected closed=true on the next send, at the latest on the one after it)", sends)
}
