// Place this file at compose/hunt_late_producer_test.go (package compose) and run
//
//	go test -vet=off -count=1 -run TestHuntLateProducerForSkippedNode ./compose/
//
// Shape (Workflow, i.e. all-predecessor mode with eager execution), the same shape as in commit 21460ac:
//
//	START -> P (streams its output)      P --data only (WithNoDirectDependency)--> X
//	START -> Q --branch--> {X, W}        the branch selects W, so X is skipped
//	W -> END
//
// 21460ac closes the copy of P's stream made for the skipped X when P finishes before the branch
// skips X, and when P finishes after the skip but while the run is still going on. The third order is
// left open: W is fast, so END becomes ready while P is still running. The eager run loop returns the
// result without ever collecting P: P's output stream is neither read nor closed, and P's producer
// goroutine stays blocked in Send forever - although the caller reads the output to the end (or
// closes it), and although the very same run releases the producer when P happens to be quicker.
package compose

import (
	"context"
	"io"
	"sync/atomic"
	"testing"
	"time"

	"github.com/cloudwego/eino/schema"
)

func huntLateProducerWorkflow(t *testing.T, pDelay, qDelay time.Duration, started, exited *int32) Runnable[string, string] {
	wf := NewWorkflow[string, string]()
	wf.AddLambdaNode("P", StreamableLambda(func(ctx context.Context, in string) (*schema.StreamReader[string], error) {
		time.Sleep(pDelay)
		sr, sw := schema.Pipe[string](0)
		atomic.AddInt32(started, 1)
		go func() {
			defer atomic.AddInt32(exited, 1)
			defer sw.Close()
			for i := 0; i < 10; i++ {
				if closed := sw.Send("p", nil); closed {
					return
				}
			}
		}()
		return sr, nil
	})).AddInput(START)
	wf.AddLambdaNode("Q", InvokableLambda(func(ctx context.Context, in string) (string, error) {
		time.Sleep(qDelay)
		return in, nil
	})).AddInput(START)
	wf.AddLambdaNode("X", InvokableLambda(func(ctx context.Context, in string) (string, error) {
		return in + "X", nil
	})).AddInputWithOptions("P", nil, WithNoDirectDependency())
	wf.AddLambdaNode("W", InvokableLambda(func(ctx context.Context, in string) (string, error) {
		return in + "W", nil
	})).AddInputWithOptions("Q", nil, WithNoDirectDependency())
	wf.AddBranch("Q", NewGraphBranch(func(ctx context.Context, in string) (string, error) {
		return "W", nil
	}, map[string]bool{"X": true, "W": true}))
	wf.End().AddInput("W")
	r, err := wf.Compile(context.Background())
	if err != nil {
		t.Fatal(err)
	}
	return r
}

func huntLateProducerRun(t *testing.T, pDelay, qDelay time.Duration, readAll bool) (started, exited int32) {
	r := huntLateProducerWorkflow(t, pDelay, qDelay, &started, &exited)
	sr, err := r.Stream(context.Background(), "i")
	if err != nil {
		t.Fatal(err)
	}
	if readAll {
		out := ""
		for {
			c, err := sr.Recv()
			if err == io.EOF {
				break
			}
			if err != nil {
				t.Fatal(err)
			}
			out += c
		}
		if out != "iW" {
			t.Fatalf("unexpected output %q", out)
		}
	}
	sr.Close()
	// give P time to start and the framework time to release it
	deadline := time.Now().Add(2 * time.Second)
	for time.Now().Before(deadline) {
		if atomic.LoadInt32(&started) == 1 && atomic.LoadInt32(&exited) == 1 {
			break
		}
		time.Sleep(5 * time.Millisecond)
	}
	return atomic.LoadInt32(&started), atomic.LoadInt32(&exited)
}

func TestHuntLateProducerForSkippedNode(t *testing.T) {
	for _, readAll := range []bool{true, false} {
		// control: P finishes while the run is going on (the orders 21460ac repaired)
		if s, e := huntLateProducerRun(t, 0, 100*time.Millisecond, readAll); s != 1 || e != 1 {
			t.Errorf("quick P, readAll=%v: producers started %d, released %d", readAll, s, e)
		}
		// P finishes after END became ready
		if s, e := huntLateProducerRun(t, 100*time.Millisecond, 0, readAll); s != 1 || e != 1 {
			t.Errorf("late P, readAll=%v: producers started %d, released %d: the producer of P stays blocked in Send", readAll, s, e)
		}
	}
}
