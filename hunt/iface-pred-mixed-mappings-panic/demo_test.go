// Place at compose/hunt_iface_pred_mixed_test.go (package-internal test of package compose).
//
// A predecessor whose output type is an interface (here: any) may not be the source of a from-field
// mapping: validateFieldMapping rejects it ("predecessor output type should be struct or map"). That check
// is skipped as soon as ANY mapping of the same AddInput call is a ToField mapping (isFromAll), so the set
// {ToField("A"), MapFields("x", "B")} compiles. At request time fieldMap walks the dynamic value; every
// problem it meets (not a struct/map, no such field, unexported field, non-string map key) is one that
// "can only be checked at run time", but the walk only knows interface-typed positions BELOW the top level
// (viaInterface), so it panics - and the panic leaves Runnable.Invoke.
package compose

import (
	"context"
	"fmt"
	"strings"
	"testing"
)

func TestHuntIfacePredMixedMappings(t *testing.T) {
	ctx := context.Background()

	build := func(out any) (Runnable[string, string], error) {
		wf := NewWorkflow[string, string]()
		wf.AddLambdaNode("p", InvokableLambda(func(ctx context.Context, in string) (any, error) {
			return out, nil
		})).AddInput(START)
		wf.AddLambdaNode("n", InvokableLambda(func(ctx context.Context, in map[string]any) (string, error) {
			return fmt.Sprint(in), nil
		})).AddInput("p", ToField("A"), MapFields("x", "B"))
		wf.End().AddInput("n")
		return wf.Compile(ctx)
	}

	type noX struct{ Y string }

	for _, out := range []any{5, "s", noX{Y: "y"}, &noX{Y: "y"}, struct{ x string }{"u"}, map[int]string{1: "a"}, []string{"x"}} {
		name := fmt.Sprintf("%#v", out)

		r, err := build(out)
		if err != nil {
			// rejecting the mapping set at compile time (as MapFields("x", "B") alone is) is fine as well
			t.Logf("%s: rejected at compile time: %v", name, err)
			continue
		}

		func() {
			defer func() {
				if e := recover(); e != nil {
					t.Errorf("%s: Invoke PANICS instead of returning an error: %.150v", name, e)
				}
			}()
			_, err := r.Invoke(ctx, "")
			if err == nil {
				t.Errorf("%s: Invoke: expected an error", name)
			} else if strings.Contains(err.Error(), "panic") {
				t.Errorf("%s: Invoke: error is a recovered panic: %.150v", name, err)
			}
		}()

		func() {
			defer func() {
				if e := recover(); e != nil {
					t.Errorf("%s: Stream PANICS instead of returning an error: %.150v", name, e)
				}
			}()
			sr, err := r.Stream(ctx, "")
			if err == nil {
				_, err = sr.Recv()
				sr.Close()
			}
			if err == nil {
				t.Errorf("%s: Stream: expected an error", name)
			} else if strings.Contains(err.Error(), "panic") {
				t.Errorf("%s: Stream: error is a recovered panic: %.150v", name, err)
			}
		}()
	}
}
