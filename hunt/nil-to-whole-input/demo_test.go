package compose

// place as compose/hunt_nil_to_whole_input_test.go

import (
	"context"
	"testing"
)

type nwiIn struct{ A any }

type nwiArg struct{ V string }

func TestHuntNilToWholeInput(t *testing.T) {
	wf := NewWorkflow[nwiIn, string]()
	wf.AddLambdaNode("l", InvokableLambda(func(ctx context.Context, in *nwiArg) (string, error) {
		if in == nil {
			return "nil", nil
		}
		return "non-nil:" + in.V, nil
	})).AddInput(START, FromField("A")) // the type of A can only be checked at run time
	wf.End().AddInput("l")
	r, err := wf.Compile(context.Background())
	if err != nil {
		t.Skipf("compile rejected: %v", err)
	}

	out, err := r.Invoke(context.Background(), nwiIn{A: &nwiArg{V: "v"}})
	if err != nil || out != "non-nil:v" {
		t.Fatalf("sanity: out=%q err=%v", out, err)
	}

	defer func() {
		if p := recover(); p != nil {
			t.Fatalf("source field A (type any) holds nil, mapped to the whole input (*nwiArg) of the successor: "+
				"Invoke panicked, expected the successor to get a nil input (or an error): %v", p)
		}
	}()
	out, err = r.Invoke(context.Background(), nwiIn{A: nil})
	if err == nil && out != "nil" {
		t.Fatalf("expected the successor to receive nil, got out=%q", out)
	}
	t.Logf("out=%q err=%v", out, err)
}
