package compose

// place as compose/hunt_addend_overlap_test.go

import (
	"context"
	"fmt"
	"testing"
)

type aeoInner struct{ Z, W string }

type aeoIn struct {
	X aeoInner
	Y string
}

type aeoOut struct{ In aeoInner }

func TestHuntAddEndOverlap(t *testing.T) {
	outcomes := map[string]int{}
	for i := 0; i < 40; i++ {
		wf := NewWorkflow[aeoIn, aeoOut]()
		// target In together with target In.Z: a path and one of its prefixes
		wf.AddEnd(START, MapFields("X", "In"), MapFieldPaths(FieldPath{"Y"}, FieldPath{"In", "Z"}))
		r, err := wf.Compile(context.Background())
		if err != nil {
			outcomes["compile error"]++
			continue
		}
		out, err := r.Invoke(context.Background(), aeoIn{X: aeoInner{Z: "xz", W: "xw"}, Y: "y"})
		outcomes[fmt.Sprintf("accepted; out=%+v err=%v", out, err)]++
	}
	if len(outcomes) != 1 || outcomes["compile error"] == 0 {
		t.Fatalf("overlapping targets In and In.Z declared through AddEnd must be rejected at compile time; outcomes of 40 attempts: %v", outcomes)
	}
}

// the same overlap declared through End().AddInput is rejected
func TestHuntAddEndOverlapReference(t *testing.T) {
	wf := NewWorkflow[aeoIn, aeoOut]()
	wf.End().AddInput(START, MapFields("X", "In"), MapFieldPaths(FieldPath{"Y"}, FieldPath{"In", "Z"}))
	if _, err := wf.Compile(context.Background()); err == nil {
		t.Fatalf("expected a compile error")
	}
}
