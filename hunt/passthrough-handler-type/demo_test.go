package compose

// place as compose/hunt_passthrough_handler_type_test.go

import (
	"context"
	"strings"
	"testing"
)

type phtState struct{}

func phtGraph(t *testing.T) Runnable[string, string] {
	g := NewGraph[string, string](WithGenLocalState(func(ctx context.Context) *phtState { return &phtState{} }))
	// state handlers of a passthrough node have to be declared on `any`; this one hands on an int
	err := g.AddPassthroughNode("p", WithStatePostHandler(func(ctx context.Context, out any, s *phtState) (any, error) {
		return 42, nil
	}))
	if err != nil {
		t.Fatal(err)
	}
	err = g.AddLambdaNode("b", InvokableLambda(func(ctx context.Context, in string) (string, error) { return in + "b", nil }))
	if err != nil {
		t.Fatal(err)
	}
	for _, e := range [][2]string{{START, "p"}, {"p", "b"}, {"b", END}} {
		if err = g.AddEdge(e[0], e[1]); err != nil {
			t.Fatal(err)
		}
	}
	r, err := g.Compile(context.Background())
	if err != nil {
		t.Skipf("compile rejected: %v", err)
	}
	return r
}

func TestHuntPassthroughHandlerTypeInvoke(t *testing.T) {
	r := phtGraph(t)
	_, err := r.Invoke(context.Background(), "x")
	if err == nil {
		t.Fatal("expected an error")
	}
	if strings.Contains(err.Error(), "panic") || !strings.Contains(err.Error(), "runtime type check fail") {
		t.Fatalf("an int handed on by the `any` typed handler of passthrough node p (inferred type string) reached node b (input string):\n"+
			"expected the ordinary run-time type check error (as on the Stream path), got a panic in node b:\n%.400s", err.Error())
	}
}

// reference: the stream path reports the ordinary error
func TestHuntPassthroughHandlerTypeStream(t *testing.T) {
	r := phtGraph(t)
	sr, err := r.Stream(context.Background(), "x")
	if err == nil {
		_, err = sr.Recv()
		sr.Close()
	}
	if err == nil || strings.Contains(err.Error(), "panic") || !strings.Contains(err.Error(), "runtime type check fail") {
		t.Fatalf("stream: %v", err)
	}
}
