package compose_test

// Place as compose/hunt_demo_arrayinput_test.go and run
//   go test -mod=mod -vet=off -count=1 -run TestHuntArrayInputFieldMapping ./compose/

import (
	"context"
	"fmt"
	"io"
	"strings"
	"testing"

	"github.com/cloudwego/eino/compose"
)

type huntPair struct {
	X [2]string
}

func huntMakePair(ctx context.Context, in string) (huntPair, error) {
	return huntPair{X: [2]string{in, in + in}}, nil
}

func huntNoPanic(t *testing.T, what string, f func()) {
	defer func() {
		if p := recover(); p != nil {
			t.Errorf("%s panicked on the caller's goroutine: %v (expected the result, or at worst an error)", what, p)
		}
	}()
	f()
}

func TestHuntArrayInputFieldMapping(t *testing.T) {
	ctx := context.Background()

	// the whole input of node n (an array) is taken from field X of its predecessor
	t.Run("node input", func(t *testing.T) {
		wf := compose.NewWorkflow[string, string]()
		wf.AddLambdaNode("p", compose.InvokableLambda(huntMakePair)).AddInput(compose.START)
		wf.AddLambdaNode("n", compose.InvokableLambda(func(ctx context.Context, in [2]string) (string, error) {
			return in[0] + "," + in[1], nil
		})).AddInput("p", compose.FromField("X"))
		wf.End().AddInput("n")
		r, err := wf.Compile(ctx)
		if err != nil {
			t.Fatalf("compile: %v", err)
		}

		huntNoPanic(t, "Invoke", func() {
			out, err := r.Invoke(ctx, "a")
			if err != nil || out != "a,aa" {
				t.Errorf("Invoke: expected \"a,aa\", got %q, %v", out, short(err))
			}
		})
		huntNoPanic(t, "Stream", func() {
			sr, err := r.Stream(ctx, "a")
			if err != nil {
				t.Errorf("Stream: expected \"a,aa\", got error %v", short(err))
				return
			}
			defer sr.Close()
			var got string
			for {
				c, err := sr.Recv()
				if err == io.EOF {
					break
				}
				if err != nil {
					t.Errorf("Stream: expected \"a,aa\", got error item %v", short(err))
					return
				}
				got += c
			}
			if got != "a,aa" {
				t.Errorf("Stream: expected \"a,aa\", got %q", got)
			}
		})
	})

	// the same with END: in stream form the converter runs inside the caller's Recv
	t.Run("graph output", func(t *testing.T) {
		wf := compose.NewWorkflow[string, [2]string]()
		wf.AddLambdaNode("p", compose.InvokableLambda(huntMakePair)).AddInput(compose.START)
		wf.End().AddInput("p", compose.FromField("X"))
		r, err := wf.Compile(ctx)
		if err != nil {
			t.Fatalf("compile: %v", err)
		}
		want := [2]string{"a", "aa"}
		huntNoPanic(t, "Invoke", func() {
			out, err := r.Invoke(ctx, "a")
			if err != nil || out != want {
				t.Errorf("Invoke: expected %v, got %v, %v", want, out, short(err))
			}
		})
		huntNoPanic(t, "Stream+Recv", func() {
			sr, err := r.Stream(ctx, "a")
			if err != nil {
				t.Errorf("Stream: expected %v, got error %v", want, short(err))
				return
			}
			defer sr.Close()
			out, err := sr.Recv()
			if err != nil || out != want {
				t.Errorf("Stream: expected %v, got %v, %v", want, out, short(err))
			}
		})
	})
}

func short(err error) string {
	if err == nil {
		return "<nil>"
	}
	lines := strings.Split(err.Error(), "\n")
	if len(lines) > 2 {
		lines = lines[:2]
	}
	return fmt.Sprint(strings.Join(lines, " "))
}
