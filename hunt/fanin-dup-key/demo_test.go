package compose

// Place as compose/hunt_demo_test.go (package compose, public API only).

import (
	"context"
	"io"
	"testing"
)

// Two parallel nodes write the same output key and fan in (here at END; any successor works).
// Invoke (and Collect) report the collision: "(mergeMap) duplicated key ('k') found".
// Stream and Transform do not: the two streams are merged chunk-wise without looking at keys, the
// run succeeds, and concatenating the output even glues the two values together ("xAxB"/"xBxA",
// in scheduler-dependent order).
func TestHuntFanInDuplicateKey(t *testing.T) {
	ctx := context.Background()
	for _, mode := range []NodeTriggerMode{AnyPredecessor, AllPredecessor} {
		g := NewGraph[string, map[string]any]()
		_ = g.AddLambdaNode("a", InvokableLambda(func(ctx context.Context, in string) (string, error) { return in + "A", nil }), WithOutputKey("k"))
		_ = g.AddLambdaNode("b", InvokableLambda(func(ctx context.Context, in string) (string, error) { return in + "B", nil }), WithOutputKey("k"))
		_ = g.AddEdge(START, "a")
		_ = g.AddEdge(START, "b")
		_ = g.AddEdge("a", END)
		_ = g.AddEdge("b", END)
		r, err := g.Compile(ctx, WithNodeTriggerMode(mode))
		if err != nil {
			t.Fatal(err)
		}

		_, invokeErr := r.Invoke(ctx, "x")
		if invokeErr == nil {
			t.Fatalf("[%s] Invoke: expected the duplicated-key error", mode)
		}

		sr, err := r.Stream(ctx, "x")
		if err != nil {
			continue // reported at call time: agrees with Invoke
		}
		var chunks []map[string]any
		var streamErr error
		for {
			c, e := sr.Recv()
			if e == io.EOF {
				break
			}
			if e != nil {
				streamErr = e
				break
			}
			chunks = append(chunks, c)
		}
		sr.Close()
		if streamErr == nil {
			t.Errorf("[%s] Invoke fails (%.120v) but Stream of the same graph and input reports no failure and delivers %v", mode, invokeErr, chunks)
		}
	}
}
