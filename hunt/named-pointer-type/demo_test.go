// Place this file at internal/serialization/hunt_named_pointer_type_test.go (package serialization) and run
//
//	go test -mod=mod -vet=off -count=1 -run TestHuntNamedPointer ./internal/serialization/
//
// Commit concerned: 50c2a67 "checkpoint serialisation refuses an unregistered named slice or map type"
// (incomplete: the third kind of named composite type, a named pointer type, is still encoded by kind).
package serialization

import (
	"reflect"
	"testing"
)

type huntSession struct{ ID string }

// a named pointer type. It cannot be registered: GenericRegister strips the pointer and finds huntSession
// (or, for `type X *int`, a built-in type) already registered.
type huntHandle *huntSession

type huntHolder struct {
	Any   any
	Typed huntHandle
}

func init() {
	_ = GenericRegister[huntSession]("hunt_session")
	_ = GenericRegister[huntHolder]("hunt_holder")
}

func huntRoundTrip(t *testing.T, in any) (any, error) {
	t.Helper()
	data, err := Marshal(in)
	if err != nil {
		return nil, err
	}
	return Unmarshal(data)
}

// C12: the identical dynamic type comes back, or Marshal fails
func TestHuntNamedPointerInInterfaceSlot(t *testing.T) {
	in := huntHolder{Any: huntHandle(&huntSession{ID: "s1"})}
	out, err := huntRoundTrip(t, in)
	if err != nil {
		return // refused loudly, like an unregistered named slice or map type since 50c2a67: fine
	}
	got := out.(huntHolder).Any
	if reflect.TypeOf(got) != reflect.TypeOf(in.Any) {
		t.Errorf("the value in the interface-typed field went in as %T and came back as %T without an error", in.Any, got)
	}
	if _, ok := got.(huntHandle); !ok {
		t.Errorf("a type switch / assertion on the restored state no longer finds the huntHandle")
	}
}

func TestHuntNamedPointerTopLevelAndElements(t *testing.T) {
	for name, in := range map[string]any{
		"top level":               huntHandle(&huntSession{ID: "s1"}),
		"element of []any":        []any{huntHandle(&huntSession{ID: "s1"})},
		"value of map[string]any": map[string]any{"k": huntHandle(&huntSession{ID: "s1"})},
	} {
		out, err := huntRoundTrip(t, in)
		if err != nil {
			continue // refused: fine
		}
		if !reflect.DeepEqual(in, out) {
			t.Errorf("%s: %T %v came back as %T %v without an error", name, in, in, out, out)
		}
	}
}

// control: in a struct field of exactly that type the name is implied by the field and nothing is lost
func TestHuntNamedPointerInTypedFieldControl(t *testing.T) {
	in := huntHolder{Typed: huntHandle(&huntSession{ID: "s1"})}
	out, err := huntRoundTrip(t, in)
	if err != nil {
		t.Fatal(err)
	}
	if !reflect.DeepEqual(in, out) {
		t.Fatalf("got %#v", out)
	}
}

// control: the sibling kinds are refused since 50c2a67
func TestHuntNamedSliceInInterfaceSlotControl(t *testing.T) {
	type names []string
	if _, err := Marshal([]any{names{"a"}}); err == nil {
		t.Fatal("an unregistered named slice type in an interface slot should be refused")
	}
}
