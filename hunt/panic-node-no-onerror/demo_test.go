package compose

// Place as compose/hunt_panic_node_callbacks_test.go (package compose; only the public API is used).

import (
	"context"
	"fmt"
	"sort"
	"sync"
	"testing"

	"github.com/cloudwego/eino/callbacks"
	"github.com/cloudwego/eino/components/tool"
	"github.com/cloudwego/eino/schema"
)

type huntPanicTool struct {
	name   string
	panics bool
}

func (p *huntPanicTool) Info(context.Context) (*schema.ToolInfo, error) {
	return &schema.ToolInfo{Name: p.name}, nil
}

func (p *huntPanicTool) InvokableRun(_ context.Context, _ string, _ ...tool.Option) (string, error) {
	if p.panics {
		panic("tool " + p.name + " panics")
	}
	return p.name + " ok", nil
}

type huntPairRecorder struct {
	mu     sync.Mutex
	starts map[string]int
	ends   map[string]int
}

func (r *huntPairRecorder) handler() callbacks.Handler {
	key := func(info *callbacks.RunInfo) string { return fmt.Sprintf("%s/%s", info.Component, info.Name) }
	inc := func(m map[string]int, info *callbacks.RunInfo) {
		r.mu.Lock()
		m[key(info)]++
		r.mu.Unlock()
	}
	return callbacks.NewHandlerBuilder().
		OnStartFn(func(ctx context.Context, info *callbacks.RunInfo, _ callbacks.CallbackInput) context.Context {
			inc(r.starts, info)
			return ctx
		}).
		OnEndFn(func(ctx context.Context, info *callbacks.RunInfo, _ callbacks.CallbackOutput) context.Context {
			inc(r.ends, info)
			return ctx
		}).
		OnErrorFn(func(ctx context.Context, info *callbacks.RunInfo, _ error) context.Context {
			inc(r.ends, info)
			return ctx
		}).Build()
}

func (r *huntPairRecorder) unpaired() []string {
	var bad []string
	for k, n := range r.starts {
		if r.ends[k] != n {
			bad = append(bad, fmt.Sprintf("%s: %d start, %d end/error", k, n, r.ends[k]))
		}
	}
	sort.Strings(bad)
	return bad
}

// C10: every handler is invoked "exactly once at its start and exactly once at its end (end,
// stream end, or error)" for each execution unit. C13 says a panic inside a node body or a tool
// call "surfaces as an error of the run". Put together: for a unit that panics, the handlers that
// saw its start must see its error. They do not: the callback wrapper has no recover, so the
// panic jumps over OnError straight to the executor's recover. The graph gets its OnError, the
// node / tool call that actually failed never ends for its handlers (a tracing handler leaks the
// open span and attributes the failure to the wrong unit).
func TestHuntPanickingUnitHasStartButNoEnd(t *testing.T) {
	ctx := context.Background()

	// 1. a panicking lambda node
	g := NewGraph[string, string]()
	_ = g.AddLambdaNode("n", InvokableLambda(func(ctx context.Context, in string) (string, error) {
		panic("node body panics")
	}), WithNodeName("PanickingNode"))
	_ = g.AddEdge(START, "n")
	_ = g.AddEdge("n", END)
	r, err := g.Compile(ctx, WithGraphName("G"))
	if err != nil {
		t.Fatal(err)
	}
	rec := &huntPairRecorder{starts: map[string]int{}, ends: map[string]int{}}
	if _, err = r.Invoke(ctx, "x", WithCallbacks(rec.handler())); err == nil {
		t.Fatal("expected the run to fail")
	}
	if bad := rec.unpaired(); len(bad) > 0 {
		t.Errorf("panicking node: the run failed with an error, but these units were started and never ended for the handler: %v", bad)
	}

	// 2. a panicking tool call (the second call, so that the tools node waits for it before it returns)
	tn, err := NewToolNode(ctx, &ToolsNodeConfig{Tools: []tool.BaseTool{&huntPanicTool{name: "t1"}, &huntPanicTool{name: "t2", panics: true}}})
	if err != nil {
		t.Fatal(err)
	}
	tg := NewGraph[*schema.Message, []*schema.Message]()
	_ = tg.AddToolsNode("tools", tn, WithNodeName("Tools"))
	_ = tg.AddEdge(START, "tools")
	_ = tg.AddEdge("tools", END)
	tr, err := tg.Compile(ctx, WithGraphName("TG"))
	if err != nil {
		t.Fatal(err)
	}
	rec = &huntPairRecorder{starts: map[string]int{}, ends: map[string]int{}}
	_, err = tr.Invoke(ctx, schema.AssistantMessage("", []schema.ToolCall{
		{ID: "1", Function: schema.FunctionCall{Name: "t1"}},
		{ID: "2", Function: schema.FunctionCall{Name: "t2"}},
	}), WithCallbacks(rec.handler()))
	if err == nil {
		t.Fatal("expected the run to fail")
	}
	if bad := rec.unpaired(); len(bad) > 0 {
		t.Errorf("panicking tool call: the run failed with an error, but these units were started and never ended for the handler: %v", bad)
	}
}
