package compose

// place as compose/hunt_fieldpath_past_scalar_test.go

import (
	"context"
	"testing"
)

type fpsIn struct {
	A string
	N int
}

type fpsOut struct {
	X string
	N int
}

func fpsRun(t *testing.T, wf *Workflow[fpsIn, fpsOut]) {
	r, err := wf.Compile(context.Background())
	if err != nil {
		t.Logf("compile rejected the mapping, as it must: %v", err)
		return
	}
	defer func() {
		if p := recover(); p != nil {
			t.Fatalf("Compile accepted a field path that continues below a scalar field, and Invoke panicked: %v\n"+
				"expected: rejection at compile time (C15: accepted mappings move exactly the mapped values)", p)
		}
	}()
	out, err := r.Invoke(context.Background(), fpsIn{A: "a", N: 3})
	t.Fatalf("Compile accepted a field path that continues below a scalar field; Invoke gave out=%+v err=%v", out, err)
}

// target path N.Y: N is an int, there is nothing below it
func TestHuntFieldPathPastScalarTarget(t *testing.T) {
	wf := NewWorkflow[fpsIn, fpsOut]()
	wf.End().AddInput(START, MapFieldPaths(FieldPath{"N"}, FieldPath{"N", "Y"}))
	fpsRun(t, wf)
}

// source path A.Z: A is a string, there is nothing below it
func TestHuntFieldPathPastScalarSource(t *testing.T) {
	wf := NewWorkflow[fpsIn, fpsOut]()
	wf.End().AddInput(START, MapFieldPaths(FieldPath{"A", "Z"}, FieldPath{"X"}))
	fpsRun(t, wf)
}
