package compose_test

// Place as compose/hunt_demo_branchcopy_test.go and run
//   go test -mod=mod -vet=off -count=1 -run TestHuntStreamBranchCopyUnclosed ./compose/

import (
	"context"
	"io"
	"testing"
	"time"

	"github.com/cloudwego/eino/compose"
	"github.com/cloudwego/eino/schema"
)

// a producer node that keeps sending through an unbuffered pipe until it is told that nobody listens any more
func huntProducer(result chan<- string) *compose.Lambda {
	return compose.StreamableLambda(func(ctx context.Context, in string) (*schema.StreamReader[string], error) {
		sr, sw := schema.Pipe[string](0)
		go func() {
			defer sw.Close()
			for i := 0; i < 1<<30; i++ {
				if closed := sw.Send(in, nil); closed {
					result <- "told-closed"
					return
				}
			}
			result <- "finished"
		}()
		return sr, nil
	})
}

// a stream branch that decides on the first chunk (the documented use of a stream condition) and returns
func huntFirstChunkBranch() *compose.GraphBranch {
	return compose.NewStreamGraphBranch(func(ctx context.Context, in *schema.StreamReader[string]) (string, error) {
		if _, err := in.Recv(); err != nil {
			return "", err
		}
		return "a", nil
	}, map[string]bool{"a": true, "b": true})
}

func huntBuild(t *testing.T, a *compose.Lambda, result chan string) compose.Runnable[string, string] {
	g := compose.NewGraph[string, string]()
	_ = g.AddLambdaNode("p", huntProducer(result))
	_ = g.AddLambdaNode("a", a)
	_ = g.AddLambdaNode("b", compose.InvokableLambda(func(ctx context.Context, in string) (string, error) { return "b", nil }))
	_ = g.AddEdge(compose.START, "p")
	_ = g.AddBranch("p", huntFirstChunkBranch())
	_ = g.AddEdge("a", compose.END)
	_ = g.AddEdge("b", compose.END)
	r, err := g.Compile(context.Background())
	if err != nil {
		t.Fatal(err)
	}
	return r
}

func huntWaitProducer(t *testing.T, result chan string) {
	select {
	case <-result:
	case <-time.After(5 * time.Second):
		t.Fatal("every reader of the producer's stream that user code holds has been closed, but the producer is still " +
			"blocked in Send: the copy the framework made for the stream branch condition was neither drained nor closed " +
			"(expected: the producer's next Send reports closed)")
	}
}

func TestHuntStreamBranchCopyUnclosed(t *testing.T) {
	// 1. the caller closes the output stream early; node a forwards its input lazily
	t.Run("caller closes early", func(t *testing.T) {
		result := make(chan string, 1)
		lazy := compose.TransformableLambda(func(ctx context.Context, in *schema.StreamReader[string]) (*schema.StreamReader[string], error) {
			return schema.StreamReaderWithConvert(in, func(s string) (string, error) { return s + "!", nil }), nil
		})
		r := huntBuild(t, lazy, result)
		sr, err := r.Stream(context.Background(), "x")
		if err != nil {
			t.Fatal(err)
		}
		if _, err = sr.Recv(); err != nil {
			t.Fatal(err)
		}
		sr.Close()
		huntWaitProducer(t, result)
	})

	// 2. the output is read to the end; node a consumes a prefix of its input and closes it
	t.Run("consumer reads a prefix", func(t *testing.T) {
		result := make(chan string, 1)
		prefix := compose.TransformableLambda(func(ctx context.Context, in *schema.StreamReader[string]) (*schema.StreamReader[string], error) {
			c, err := in.Recv()
			in.Close()
			if err != nil {
				return nil, err
			}
			return schema.StreamReaderFromArray([]string{c}), nil
		})
		r := huntBuild(t, prefix, result)
		sr, err := r.Stream(context.Background(), "x")
		if err != nil {
			t.Fatal(err)
		}
		for {
			_, err = sr.Recv()
			if err == io.EOF {
				break
			}
			if err != nil {
				t.Fatal(err)
			}
		}
		sr.Close()
		huntWaitProducer(t, result)
	})
}
