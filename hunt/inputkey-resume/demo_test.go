package compose

// Place as compose/hunt_inputkey_resume_test.go and run
//   go test -mod=mod -vet=off -count=1 -run TestHuntInputKeyResume ./compose/

import (
	"context"
	"testing"
)

type ikrStore struct{ m map[string][]byte }

func (s *ikrStore) Get(_ context.Context, id string) ([]byte, bool, error) {
	v, ok := s.m[id]
	return v, ok, nil
}
func (s *ikrStore) Set(_ context.Context, id string, b []byte) error {
	s.m[id] = append([]byte(nil), b...)
	return nil
}

// A nested graph added with WithInputKey is interrupted inside (interrupt-before its node s2).
// Resuming must continue the nested graph from its checkpoint and deliver "in-s1-s2",
// exactly as the uninterrupted run does, in every calling paradigm.
func TestHuntInputKeyResume(t *testing.T) {
	build := func(interrupt bool) (Runnable[map[string]any, string], *int) {
		s1Runs := new(int)
		sub := NewGraph[string, string]()
		_ = sub.AddLambdaNode("s1", InvokableLambda(func(ctx context.Context, in string) (string, error) { *s1Runs++; return in + "-s1", nil }))
		_ = sub.AddLambdaNode("s2", InvokableLambda(func(ctx context.Context, in string) (string, error) { return in + "-s2", nil }))
		_ = sub.AddEdge(START, "s1")
		_ = sub.AddEdge("s1", "s2")
		_ = sub.AddEdge("s2", END)

		var subOpts []GraphCompileOption
		if interrupt {
			subOpts = append(subOpts, WithInterruptBeforeNodes([]string{"s2"}))
		}
		g := NewGraph[map[string]any, string]()
		_ = g.AddGraphNode("sub", sub, WithInputKey("k"), WithGraphCompileOptions(subOpts...))
		_ = g.AddEdge(START, "sub")
		_ = g.AddEdge("sub", END)
		r, err := g.Compile(context.Background(), WithCheckPointStore(&ikrStore{m: map[string][]byte{}}))
		if err != nil {
			t.Fatal(err)
		}
		return r, s1Runs
	}
	ctx := context.Background()
	in := map[string]any{"k": "in"}

	ref, _ := build(false)
	want, err := ref.Invoke(ctx, in)
	if err != nil {
		t.Fatal(err)
	}

	for _, paradigm := range []string{"stream", "invoke"} {
		r, s1Runs := build(true)
		run := func() (string, error) {
			if paradigm == "stream" {
				sr, err := r.Stream(ctx, in, WithCheckPointID("cp"))
				if err != nil {
					return "", err
				}
				return concatStreamReader(sr)
			}
			return r.Invoke(ctx, in, WithCheckPointID("cp"))
		}
		_, err := run()
		info, ok := ExtractInterruptInfo(err)
		if !ok || info.SubGraphs["sub"] == nil {
			t.Fatalf("[%s] expected an interrupt inside the nested graph, got %v", paradigm, err)
		}
		got, err := run()
		if err != nil {
			t.Errorf("[%s] resuming the interrupted nested graph (added with WithInputKey) failed: %v\n  expected the output of the uninterrupted run: %q", paradigm, err, want)
			continue
		}
		if got != want || *s1Runs != 1 {
			t.Errorf("[%s] resumed run: output %q (s1 executed %d times), expected %q (s1 executed once)", paradigm, got, *s1Runs, want)
		}
	}
}
