// Place as compose/hunt_workflow_add_end_key_test.go (package compose).
//
// 7a330fe: "adding a node to a compiled Workflow is reported by the next Compile" - except when the node
// is added under the reserved key END: initNode exempts END (for the lazily created End() handle), so
// Workflow.Add*Node(END, ...) after a successful Compile is swallowed (the graph's ErrGraphCompiled is
// dropped) and the next Compile returns a runnable and no error. Before the first Compile the same call
// is reported ("node 'end' is reserved").
package compose

import (
	"context"
	"testing"
)

func TestHuntWorkflowAddEndKeyAfterCompile(t *testing.T) {
	ctx := context.Background()
	lam := func() *Lambda {
		return InvokableLambda(func(ctx context.Context, in string) (string, error) { return in + "l", nil })
	}
	build := func() *Workflow[string, string] {
		wf := NewWorkflow[string, string]()
		wf.AddLambdaNode("a", lam()).AddInput(START)
		wf.End().AddInput("a")
		return wf
	}

	// reference 1: before the first Compile the reserved key is reported
	wf := build()
	wf.AddLambdaNode(END, lam())
	if _, err := wf.Compile(ctx); err == nil {
		t.Fatalf("AddLambdaNode(END) before Compile: expected an error")
	}

	// reference 2: any other key after a successful Compile is reported (7a330fe)
	wf = build()
	if _, err := wf.Compile(ctx); err != nil {
		t.Fatal(err)
	}
	wf.AddLambdaNode("b", lam())
	if _, err := wf.Compile(ctx); err == nil {
		t.Fatalf("AddLambdaNode(\"b\") after Compile: expected an error")
	}

	// the reserved key END after a successful Compile
	wf = build()
	if _, err := wf.Compile(ctx); err != nil {
		t.Fatal(err)
	}
	wf.AddLambdaNode(END, lam())
	if _, err := wf.Compile(ctx); err == nil {
		t.Errorf("AddLambdaNode(END) after a successful Compile was silently accepted: the next Compile returned no error")
	}
}
