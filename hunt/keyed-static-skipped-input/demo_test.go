// Place as compose/hunt_keyed_static_skipped_test.go (package compose).
//
// 8b66114: a field-mapped Workflow node with an input key whose data predecessors were all skipped runs on
// the zero value. The repair is switched off as soon as the node has any static value ("they are merged
// into it and name the key themselves") - which only holds if a static value sits at / below the input
// key. With a static value at another key the pre-8b66114 failure is back: Invoke fails with
// "cannot find input key", Stream with "stream reader is empty".
package compose

import (
	"context"
	"io"
	"testing"
)

func huntKeyedStaticWorkflow(withStatic bool) *Workflow[string, string] {
	lam := func(f func(string) string) *Lambda {
		return InvokableLambda(func(ctx context.Context, in string) (string, error) { return f(in), nil })
	}
	wf := NewWorkflow[string, string]()
	wf.AddLambdaNode("s", lam(func(s string) string { return s })).AddInput(START)
	wf.AddLambdaNode("a", lam(func(s string) string { return s + "a" })).AddInputWithOptions("s", nil, WithNoDirectDependency())
	wf.AddLambdaNode("b", lam(func(s string) string { return s + "b" })).AddInputWithOptions("s", nil, WithNoDirectDependency())
	// the branch always takes b: a, the only data predecessor of n, is skipped
	wf.AddBranch("s", NewGraphBranch(func(ctx context.Context, in string) (string, error) { return "b", nil },
		map[string]bool{"a": true, "b": true}))
	n := wf.AddLambdaNode("n", lam(func(s string) string { return "n(" + s + ")" }), WithInputKey("k"))
	n.AddInput("a", ToField("k"))
	n.AddDependency("b") // n still runs: b finished and routed to it
	if withStatic {
		n.SetStaticValue(FieldPath{"j"}, "st") // another key of n's map input; n only reads "k"
	}
	wf.End().AddInput("n")
	return wf
}

func TestHuntKeyedStaticSkippedInput(t *testing.T) {
	ctx := context.Background()
	for _, withStatic := range []bool{false, true} {
		r, err := huntKeyedStaticWorkflow(withStatic).Compile(ctx)
		if err != nil {
			t.Fatalf("static=%v: compile: %v", withStatic, err)
		}

		out, err := r.Invoke(ctx, "x")
		if err != nil || out != "n()" {
			t.Errorf("static=%v: Invoke = %q, %v; want \"n()\" (n runs on the zero value of its input)", withStatic, out, err)
		}

		sr, err := r.Stream(ctx, "x")
		if err != nil {
			t.Errorf("static=%v: Stream: %v", withStatic, err)
			continue
		}
		var got string
		for {
			c, e := sr.Recv()
			if e == io.EOF {
				break
			}
			if e != nil {
				t.Errorf("static=%v: Stream item: %v", withStatic, e)
				break
			}
			got += c
		}
		sr.Close()
		if got != "n()" {
			t.Errorf("static=%v: Stream = %q; want \"n()\"", withStatic, got)
		}
	}
}
