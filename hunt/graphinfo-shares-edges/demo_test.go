package compose_test

import (
	"context"
	"testing"

	"github.com/cloudwego/eino/compose"
)

// place as compose/hunt_graphinfo_test.go

type graphInfoCB func(info *compose.GraphInfo)

func (f graphInfoCB) OnFinish(ctx context.Context, info *compose.GraphInfo) { f(info) }

// START -> a -> b -> END. A compile callback receives the GraphInfo and rewrites the edge list it was
// handed (say, to normalise it for display). The compiled runnable must still be START -> a -> b -> END.
func TestHuntGraphInfoSharesEdgeSlices(t *testing.T) {
	ctx := context.Background()
	g := compose.NewGraph[string, string]()
	_ = g.AddLambdaNode("a", compose.InvokableLambda(func(ctx context.Context, in string) (string, error) { return in + "a", nil }))
	_ = g.AddLambdaNode("b", compose.InvokableLambda(func(ctx context.Context, in string) (string, error) { return in + "b", nil }))
	_ = g.AddEdge(compose.START, "a")
	_ = g.AddEdge("a", "b")
	_ = g.AddEdge("b", compose.END)

	var saved *compose.GraphInfo
	r, err := g.Compile(ctx, compose.WithGraphCompileCallbacks(graphInfoCB(func(info *compose.GraphInfo) { saved = info })))
	if err != nil {
		t.Fatal(err)
	}
	if out, err := r.Invoke(ctx, "x"); err != nil || out != "xab" {
		t.Fatalf("before touching the GraphInfo: want xab, got %q, %v", out, err)
	}

	// later, the holder of the GraphInfo edits ITS copy of the topology
	saved.Edges["a"][0] = compose.END
	saved.DataEdges["a"][0] = compose.END

	out, err := r.Invoke(ctx, "x")
	if err != nil || out != "xab" {
		t.Fatalf("the compiled runnable changed after the GraphInfo handed to a compile callback was edited: want xab, got %q, err=%v", out, err)
	}
}
