package serialization

// Place as internal/serialization/hunt_named_containers_test.go and run
//   go test -mod=mod -vet=off -count=1 -run TestHuntNamedContainers ./internal/serialization/

import (
	"fmt"
	"reflect"
	"testing"
)

type hncNames []string
type hncDict map[string]int
type hncGrid [2]int
type hncBox struct {
	A any
}
type hncPtrs struct {
	P *hncNames
	G [2]int
}

func hncRoundTrip(v any) (out any, err error) {
	defer func() {
		if r := recover(); r != nil {
			err = fmt.Errorf("PANIC: %v", r)
		}
	}()
	b, err := Marshal(v)
	if err != nil {
		return nil, fmt.Errorf("marshal: %w", err)
	}
	return Unmarshal(b)
}

// Every type used below is registered. Each value must either come back deeply equal with the
// identical dynamic type, or be refused with an error - not come back as a different value, and not
// blow up in Unmarshal.
func TestHuntNamedContainers(t *testing.T) {
	for name, err := range map[string]error{
		"hncNames": GenericRegister[hncNames]("hunt_hnc_names"),
		"hncDict":  GenericRegister[hncDict]("hunt_hnc_dict"),
		"hncGrid":  GenericRegister[hncGrid]("hunt_hnc_grid"),
		"hncBox":   GenericRegister[hncBox]("hunt_hnc_box"),
		"hncPtrs":  GenericRegister[hncPtrs]("hunt_hnc_ptrs"),
	} {
		if err != nil {
			t.Fatalf("register %s: %v", name, err)
		}
	}
	n := hncNames{"x"}
	cases := []struct {
		name string
		v    any
	}{
		{"named slice, top level", hncNames{"a", "b"}},
		{"named map, top level", hncDict{"a": 1}},
		{"named slice in an interface-typed field", hncBox{A: hncNames{"a"}}},
		{"named map in an interface-typed element", []any{hncDict{"a": 1}}},
		{"pointer to named slice in a struct field", hncPtrs{P: &n}},
		{"array, top level", [3]int{1, 2, 3}},
		{"named array in an interface-typed field", hncBox{A: hncGrid{1, 2}}},
		{"array in a struct field", hncPtrs{G: [2]int{1, 2}}},
	}
	for _, c := range cases {
		out, err := hncRoundTrip(c.v)
		switch {
		case err != nil && len(err.Error()) >= 5 && err.Error()[:5] == "PANIC":
			t.Errorf("%s: %v\n    expected the value back (or an error)", c.name, err)
		case err != nil:
			t.Logf("%s: refused with an error (acceptable): %v", c.name, err)
		case !reflect.DeepEqual(c.v, out):
			t.Errorf("%s: silently changed\n    in : %#v\n    out: %#v", c.name, c.v, out)
		}
	}
}
