package compose_test

// Place as compose/hunt_demo_tolist_test.go and run
//   go test -mod=mod -vet=off -count=1 -run TestHuntToListParadigms ./compose/

import (
	"context"
	"io"
	"strings"
	"testing"

	"github.com/cloudwego/eino/compose"
	"github.com/cloudwego/eino/schema"
)

func TestHuntToListParadigms(t *testing.T) {
	ctx := context.Background()

	// p streams its answer in two chunks; the framework's own ToList lambda wraps it into a list;
	// c (invoke-only) consumes the list
	g := compose.NewGraph[string, string]()
	_ = g.AddLambdaNode("p", compose.StreamableLambda(func(ctx context.Context, in string) (*schema.StreamReader[string], error) {
		return schema.StreamReaderFromArray([]string{in + "1", in + "2"}), nil
	}))
	_ = g.AddLambdaNode("l", compose.ToList[string]())
	_ = g.AddLambdaNode("c", compose.InvokableLambda(func(ctx context.Context, in []string) (string, error) {
		return strings.Join(in, "+"), nil
	}))
	_ = g.AddEdge(compose.START, "p")
	_ = g.AddEdge("p", "l")
	_ = g.AddEdge("l", "c")
	_ = g.AddEdge("c", compose.END)
	r, err := g.Compile(ctx)
	if err != nil {
		t.Fatal(err)
	}

	want, err := r.Invoke(ctx, "x")
	if err != nil {
		t.Fatalf("Invoke: %v", err)
	}
	t.Logf("Invoke returns %q", want)

	sr, err := r.Stream(ctx, "x")
	if err != nil {
		t.Fatalf("Invoke returns %q, but Stream of the same graph and input fails: %v", want, strings.SplitN(err.Error(), "\n---", 2)[0])
	}
	defer sr.Close()
	var got string
	for {
		c, err := sr.Recv()
		if err == io.EOF {
			break
		}
		if err != nil {
			t.Fatalf("Invoke returns %q, but Stream delivers an error: %v", want, err)
		}
		got += c
	}
	if got != want {
		t.Fatalf("Invoke returns %q, Stream concatenates to %q", want, got)
	}
}
