package compose

// place as compose/hunt_stream_missing_map_key_test.go

import (
	"context"
	"testing"
)

func TestHuntStreamMissingMapKey(t *testing.T) {
	wf := NewWorkflow[map[string]any, map[string]any]()
	wf.End().AddInput(START, MapFields("k", "X")) // source: key "k" of the input map
	r, err := wf.Compile(context.Background())
	if err != nil {
		t.Fatal(err)
	}
	in := map[string]any{"other": 1} // no key "k"

	_, invokeErr := r.Invoke(context.Background(), in)
	if invokeErr == nil {
		t.Skip("Invoke accepts the missing key")
	}

	var streamErr error
	var got map[string]any
	sr, err := r.Stream(context.Background(), in)
	if err != nil {
		streamErr = err
	} else {
		for {
			chunk, err := sr.Recv()
			if err != nil {
				if err.Error() != "EOF" {
					streamErr = err
				}
				break
			}
			got = chunk
		}
		sr.Close()
	}
	if streamErr == nil {
		t.Fatalf("same runnable, same input: Invoke fails (%.160s ...) but Stream succeeds and hands END %v: "+
			"the two execution modes must behave identically", invokeErr.Error(), got)
	}
}
