// Place this file at compose/hunt_state_modifier_last_wins_test.go (package compose) and run
//
//	go test -mod=mod -vet=off -count=1 -run TestHuntStateModifier ./compose/
//
// Commit concerned: 4464609 "WithStateModifier and WithCheckPointID designated to a nested graph are not applied
// to the top-level graph" (incomplete), with 60019b3 as the commit that made the sibling option (run-time step
// limit) an error when designated to a node that cannot take it.
//
// Since 4464609 a state modifier can be designated to a nested graph. Designating is only useful if several
// can be given in one call, one per nested graph; getCheckPointInfo keeps only the last WithStateModifier option
// of the call, every earlier one is dropped without an error.
package compose

import (
	"context"
	"strings"
	"sync"
	"testing"
)

type huntSMStore struct {
	mu sync.Mutex
	m  map[string][]byte
}

func (s *huntSMStore) Get(_ context.Context, id string) ([]byte, bool, error) {
	s.mu.Lock()
	defer s.mu.Unlock()
	b, ok := s.m[id]
	return b, ok, nil
}

func (s *huntSMStore) Set(_ context.Context, id string, b []byte) error {
	s.mu.Lock()
	defer s.mu.Unlock()
	s.m[id] = b
	return nil
}

type huntSMState struct{ V string }

func init() { _ = RegisterSerializableType[huntSMState]("hunt_sm_state") }

// a graph with state of its own, one node "n" that reports the state it sees; interrupted before "n"
func huntSMLeaf(name string) *Graph[string, string] {
	g := NewGraph[string, string](WithGenLocalState(func(ctx context.Context) *huntSMState { return &huntSMState{V: name} }))
	_ = g.AddLambdaNode("n", InvokableLambda(func(ctx context.Context, in string) (string, error) {
		var v string
		_ = ProcessState[*huntSMState](ctx, func(ctx context.Context, s *huntSMState) error { v = s.V; return nil })
		return name + "=" + v, nil
	}))
	_ = g.AddEdge(START, "n")
	_ = g.AddEdge("n", END)
	return g
}

func huntSMTop(t *testing.T) Runnable[string, string] {
	interruptN := WithGraphCompileOptions(WithInterruptBeforeNodes([]string{"n"}))

	top := NewGraph[string, string](WithGenLocalState(func(ctx context.Context) *huntSMState { return &huntSMState{V: "top"} }))
	_ = top.AddGraphNode("leafA", huntSMLeaf("A"), interruptN, WithOutputKey("a"))
	_ = top.AddGraphNode("leafB", huntSMLeaf("B"), interruptN, WithOutputKey("b"))
	_ = top.AddLambdaNode("join", InvokableLambda(func(ctx context.Context, in map[string]any) (string, error) {
		var v string
		_ = ProcessState[*huntSMState](ctx, func(ctx context.Context, s *huntSMState) error { v = s.V; return nil })
		return in["a"].(string) + " " + in["b"].(string) + " top=" + v, nil
	}))
	_ = top.AddEdge(START, "leafA")
	_ = top.AddEdge(START, "leafB")
	_ = top.AddEdge("leafA", "join")
	_ = top.AddEdge("leafB", "join")
	_ = top.AddEdge("join", END)
	r, err := top.Compile(context.Background(), WithCheckPointStore(&huntSMStore{m: map[string][]byte{}}), WithNodeTriggerMode(AllPredecessor))
	if err != nil {
		t.Fatal(err)
	}
	return r
}

var huntSMSeenMu sync.Mutex // the nested graphs are resumed in parallel

func huntSMModifier(tag string, seen *[]string) StateModifier {
	return func(ctx context.Context, path NodePath, state any) error {
		huntSMSeenMu.Lock()
		*seen = append(*seen, tag+"@"+strings.Join(path.GetPath(), "/"))
		huntSMSeenMu.Unlock()
		state.(*huntSMState).V += "+" + tag
		return nil
	}
}

// each of the two designated modifiers works when it is the only one of the call ...
func TestHuntStateModifierDesignatedAloneControl(t *testing.T) {
	ctx := context.Background()
	r := huntSMTop(t)
	if _, err := r.Invoke(ctx, "x", WithCheckPointID("1")); err == nil {
		t.Fatal("expected an interrupt")
	}
	var seen []string
	out, err := r.Invoke(ctx, "x", WithCheckPointID("1"), WithStateModifier(huntSMModifier("mA", &seen)).DesignateNode("leafA"))
	if err != nil || out != "A=A+mA B=B top=top" {
		t.Fatalf("got %q, %v (modifier calls: %v)", out, err, seen)
	}
}

// ... but two of them in one call: only the last one is applied, the first is dropped silently
func TestHuntStateModifierTwoDesignatedModifiers(t *testing.T) {
	ctx := context.Background()
	r := huntSMTop(t)
	if _, err := r.Invoke(ctx, "x", WithCheckPointID("1")); err == nil {
		t.Fatal("expected an interrupt")
	}
	var seen []string
	out, err := r.Invoke(ctx, "x", WithCheckPointID("1"),
		WithStateModifier(huntSMModifier("mA", &seen)).DesignateNode("leafA"),
		WithStateModifier(huntSMModifier("mB", &seen)).DesignateNode("leafB"),
	)
	if err != nil {
		t.Fatal(err)
	}
	if want := "A=A+mA B=B+mB top=top"; out != want {
		t.Errorf("got %q, want %q: each modifier reaches the nested graph it is designated to (modifier calls: %v)", out, want, seen)
	}
}

// a modifier for the top-level state next to one designated to a nested graph
func TestHuntStateModifierTopLevelAndDesignated(t *testing.T) {
	ctx := context.Background()
	r := huntSMTop(t)
	if _, err := r.Invoke(ctx, "x", WithCheckPointID("1")); err == nil {
		t.Fatal("expected an interrupt")
	}
	var seen []string
	top := func(ctx context.Context, path NodePath, state any) error {
		if len(path.GetPath()) == 0 {
			huntSMSeenMu.Lock()
			seen = append(seen, "mTop@")
			huntSMSeenMu.Unlock()
			state.(*huntSMState).V += "+mTop"
		}
		return nil
	}
	out, err := r.Invoke(ctx, "x", WithCheckPointID("1"),
		WithStateModifier(top),
		WithStateModifier(huntSMModifier("mB", &seen)).DesignateNode("leafB"),
	)
	if err != nil {
		t.Fatal(err)
	}
	if want := "A=A B=B+mB top=top+mTop"; out != want {
		t.Errorf("got %q, want %q (modifier calls: %v)", out, want, seen)
	}
}

// 60019b3: "options designated to nodes that cannot take them are errors" - done for the run-time step limit,
// not for the state modifier that 4464609 made designatable: designated to a component node it is dropped silently
func TestHuntStateModifierDesignatedToComponentNode(t *testing.T) {
	ctx := context.Background()
	r := huntSMTop(t)
	called := false
	_, err := r.Invoke(ctx, "x", WithCheckPointID("2"),
		WithStateModifier(func(ctx context.Context, path NodePath, state any) error { called = true; return nil }).DesignateNode("join"))
	if _, isInterrupt := ExtractInterruptInfo(err); isInterrupt || err == nil {
		t.Errorf("a state modifier designated to the Lambda node 'join' (no graph, it has no state of its own) was accepted: err=%v, modifier called=%v; "+
			"a run-time step limit designated to the same node is refused", err, called)
	}
	// control: the sibling option
	_, err = r.Invoke(ctx, "x", WithCheckPointID("3"), WithRuntimeMaxSteps(5).DesignateNode("join"))
	if _, isInterrupt := ExtractInterruptInfo(err); isInterrupt || err == nil {
		t.Fatalf("control: a step limit designated to a Lambda node should be refused, got %v", err)
	}
}
