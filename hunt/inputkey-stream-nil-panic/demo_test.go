package compose

// Place as compose/hunt_inputkey_stream_nil_test.go (package compose; only the public API is used).

import (
	"context"
	"errors"
	"fmt"
	"io"
	"strings"
	"testing"

	"github.com/cloudwego/eino/schema"
)

// C13: a node failure must surface as an error of the run (or an error item on the stream) and
// must never escape as a panic. A node with WithInputKey("k") whose predecessor delivers
// {"k": nil} fails its input type check. On the Invoke path that is reported as an error naming
// the node. On the stream path the framework's own key filter dereferences reflect.TypeOf(nil) and
// panics; the filter runs lazily inside Recv, so with stream-transparent nodes the panic fires in
// the goroutine of whoever reads the output stream of Runnable.Stream: the caller.
func TestHuntInputKeyNilValueOnStreamPath(t *testing.T) {
	ctx := context.Background()

	g := NewGraph[string, string]()
	must := func(err error) {
		if err != nil {
			t.Fatal(err)
		}
	}
	must(g.AddLambdaNode("producer", InvokableLambda(func(ctx context.Context, in string) (map[string]any, error) {
		return map[string]any{"k": nil}, nil // e.g. an optional value that is absent this time
	})))
	must(g.AddLambdaNode("consumer", TransformableLambda(
		func(ctx context.Context, in *schema.StreamReader[string]) (*schema.StreamReader[string], error) {
			return in, nil // stream-transparent: does not read its input itself
		}), WithInputKey("k")))
	must(g.AddEdge(START, "producer"))
	must(g.AddEdge("producer", "consumer"))
	must(g.AddEdge("consumer", END))

	r, err := g.Compile(ctx)
	must(err)

	// reference: the Invoke path reports an ordinary, identifiable error
	_, err = r.Invoke(ctx, "x")
	if err == nil || !strings.Contains(err.Error(), "consumer") {
		t.Fatalf("Invoke: expected an error naming node 'consumer', got %v", err)
	}

	readAll := func() (err error) {
		defer func() {
			if p := recover(); p != nil {
				err = fmt.Errorf("PANIC in the caller's goroutine: %v", p)
			}
		}()
		sr, err := r.Stream(ctx, "x")
		if err != nil {
			return nil // an error of the run is what the property asks for
		}
		defer sr.Close()
		for {
			_, e := sr.Recv()
			if errors.Is(e, io.EOF) {
				return errors.New("stream ended without reporting the type mismatch")
			}
			if e != nil {
				return nil // an error item on the stream is fine too
			}
		}
	}
	if err := readAll(); err != nil {
		t.Fatalf("Stream: expected the run to fail with an error (or an error item on the stream) like Invoke does, got: %v", err)
	}
}
