// Place as compose/hunt_end_after_interrupt_wait_test.go (package compose; uses the public API only, apart from living in the package).
// Run: go test -mod=mod -vet=off -count=1 -run TestHuntEndAfterInterruptWait ./compose/
//
// Eager (Workflow) run, interrupt-before configured on X. A and C stream into X (merged input), B (slow)
// feeds END. When C completes, X becomes the next task and hits interrupt-before, so the run loop waits for
// the remaining tasks (B); B's completion makes END ready and the run returns its result instead of
// interrupting - without closing the input it had prepared for X. The forwarding goroutines of the merged
// stream and the two producers behind them stay blocked in Send for ever.
package compose

import (
	"context"
	"runtime"
	"strings"
	"sync/atomic"
	"testing"
	"time"

	"github.com/cloudwego/eino/schema"
)

type huntEAIWStore struct{ m map[string][]byte }

func (s *huntEAIWStore) Get(_ context.Context, id string) ([]byte, bool, error) {
	v, ok := s.m[id]
	return v, ok, nil
}
func (s *huntEAIWStore) Set(_ context.Context, id string, v []byte) error { s.m[id] = v; return nil }

func TestHuntEndAfterInterruptWait(t *testing.T) {
	var released int32
	producer := func(tag string) *Lambda {
		return StreamableLambda(func(ctx context.Context, in string) (*schema.StreamReader[string], error) {
			sr, sw := schema.Pipe[string](0)
			go func() {
				defer atomic.AddInt32(&released, 1)
				defer sw.Close()
				for i := 0; i < 20; i++ {
					if sw.Send(tag, nil) {
						return
					}
				}
			}()
			return sr, nil
		})
	}
	wf := NewWorkflow[string, map[string]any]()
	wf.AddLambdaNode("A", producer("a")).AddInput(START)
	wf.AddLambdaNode("C", producer("c")).AddInput(START)
	wf.AddLambdaNode("B", InvokableLambda(func(ctx context.Context, in string) (string, error) {
		time.Sleep(200 * time.Millisecond)
		return "b", nil
	})).AddInput(START)
	wf.AddLambdaNode("X", TransformableLambda(func(ctx context.Context, in *schema.StreamReader[map[string]any]) (*schema.StreamReader[string], error) {
		return schema.StreamReaderWithConvert(in, func(m map[string]any) (string, error) { return "x", nil }), nil
	})).AddInput("A", ToField("a")).AddInput("C", ToField("c"))
	wf.End().AddInput("B", ToField("b"))
	r, err := wf.Compile(context.Background(), WithCheckPointStore(&huntEAIWStore{m: map[string][]byte{}}), WithInterruptBeforeNodes([]string{"X"}))
	if err != nil {
		t.Fatal(err)
	}
	sr, err := r.Stream(context.Background(), "in", WithCheckPointID("1"))
	if err != nil {
		t.Fatal(err)
	}
	var sb strings.Builder
	for {
		m, err := sr.Recv()
		if err != nil {
			break
		}
		if v, ok := m["b"].(string); ok {
			sb.WriteString(v)
		}
	}
	sr.Close()
	t.Log("out:", sb.String())
	deadline := time.Now().Add(2 * time.Second)
	for time.Now().Before(deadline) && atomic.LoadInt32(&released) < 2 {
		time.Sleep(10 * time.Millisecond)
	}
	if n := atomic.LoadInt32(&released); n < 2 {
		buf := make([]byte, 1<<16)
		buf = buf[:runtime.Stack(buf, true)]
		t.Fatalf("producers released: %d of 2\n%s", n, buf)
	}
}
