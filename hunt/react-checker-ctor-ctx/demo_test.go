package react

// Place as flow/agent/react/hunt_checker_ctor_ctx_test.go (package react; only the public API is used).

import (
	"context"
	"sync"
	"testing"

	"github.com/cloudwego/eino/components/model"
	"github.com/cloudwego/eino/components/tool"
	"github.com/cloudwego/eino/compose"
	"github.com/cloudwego/eino/schema"
)

type huntCtxModel struct{}

func (m *huntCtxModel) Generate(_ context.Context, _ []*schema.Message, _ ...model.Option) (*schema.Message, error) {
	return schema.AssistantMessage("done", nil), nil
}

func (m *huntCtxModel) Stream(_ context.Context, _ []*schema.Message, _ ...model.Option) (*schema.StreamReader[*schema.Message], error) {
	return schema.StreamReaderFromArray([]*schema.Message{schema.AssistantMessage("done", nil)}), nil
}

func (m *huntCtxModel) WithTools(_ []*schema.ToolInfo) (model.ToolCallingChatModel, error) {
	return m, nil
}

type huntCtxTool struct{}

func (t *huntCtxTool) Info(context.Context) (*schema.ToolInfo, error) {
	return &schema.ToolInfo{Name: "noop", Desc: "noop"}, nil
}

func (t *huntCtxTool) InvokableRun(_ context.Context, _ string, _ ...tool.Option) (string, error) {
	return "", nil
}

type huntRunIDKey struct{}

// C09: "runs do not share channels, state, options or callback context" (the ReAct flow is named
// explicitly; the property text even names the fault class: "a closure capturing a variable of
// the constructor"). The branch after the model node hands the StreamToolCallChecker the context
// that was passed to NewAgent, not the context of the run: every run of every goroutine shares
// that one context, per-run values are invisible to the checker, and once the constructor's
// context is cancelled every later run sees a cancelled context there.
func TestHuntStreamToolCallCheckerGetsConstructorContext(t *testing.T) {
	ctorCtx, cancelCtor := context.WithCancel(context.WithValue(context.Background(), huntRunIDKey{}, "constructor"))

	var mu sync.Mutex
	seen := map[string]int{}
	cancelled := 0

	ag, err := NewAgent(ctorCtx, &AgentConfig{
		ToolCallingModel: &huntCtxModel{},
		ToolsConfig:      compose.ToolsNodeConfig{Tools: []tool.BaseTool{&huntCtxTool{}}},
		StreamToolCallChecker: func(ctx context.Context, sr *schema.StreamReader[*schema.Message]) (bool, error) {
			sr.Close()
			id, _ := ctx.Value(huntRunIDKey{}).(string)
			mu.Lock()
			seen[id]++
			if ctx.Err() != nil {
				cancelled++
			}
			mu.Unlock()
			return false, nil
		},
	})
	if err != nil {
		t.Fatal(err)
	}
	cancelCtor() // the set-up context is done with (e.g. a start-up timeout context)

	var wg sync.WaitGroup
	for _, id := range []string{"run-A", "run-B"} {
		wg.Add(1)
		go func(id string) {
			defer wg.Done()
			runCtx := context.WithValue(context.Background(), huntRunIDKey{}, id)
			if _, err := ag.Generate(runCtx, []*schema.Message{schema.UserMessage("q")}); err != nil {
				t.Errorf("%s: %v", id, err)
			}
		}(id)
	}
	wg.Wait()

	if seen["run-A"] != 1 || seen["run-B"] != 1 || cancelled != 0 {
		t.Fatalf("expected the checker of each run to receive that run's context (run-A once, run-B once, never cancelled); "+
			"got contexts by run id %v, %d of them already cancelled", seen, cancelled)
	}
}
