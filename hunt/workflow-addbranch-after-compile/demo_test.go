// Place at: compose/hunt_workflow_addbranch_after_compile_test.go (package compose; only the public API is used).
//
// Commit concerned: a5b22a8 "fix: SetStaticValue on a node of a compiled Workflow is refused"
// (incompleteness: the twin modifier Workflow.AddBranch).
//
// a5b22a8 states the rule "every other modification of a compiled Workflow is reported (ErrGraphCompiled at
// the next Compile)" and makes SetStaticValue follow it. Workflow.AddBranch does not: the branch is queued,
// the next Compile hands it to graph.addBranch, which answers ErrGraphCompiled, and Workflow.compile throws
// that answer away (`_ = wf.g.addBranch(...)`). The next Compile succeeds and returns a runnable in which
// the branch the caller just declared does not exist.
package compose

import (
	"context"
	"errors"
	"testing"
)

func TestHuntWorkflowAddBranchAfterCompile(t *testing.T) {
	ctx := context.Background()

	build := func() (*Workflow[string, string], *WorkflowNode) {
		wf := NewWorkflow[string, string]()
		wf.AddLambdaNode("a", InvokableLambda(func(ctx context.Context, in string) (string, error) {
			return in + "a", nil
		})).AddInput(START)
		b := wf.AddLambdaNode("b", InvokableLambda(func(ctx context.Context, in string) (string, error) {
			return in + "b", nil
		})).AddInput("a")
		wf.AddLambdaNode("c", InvokableLambda(func(ctx context.Context, in string) (string, error) {
			return in + "c", nil
		})).AddInput("a")
		wf.End().AddInput("b")
		return wf, b
	}

	// reference: the other modifiers of a compiled Workflow are reported by the next Compile
	for name, modify := range map[string]func(wf *Workflow[string, string], b *WorkflowNode){
		"AddDependency":  func(wf *Workflow[string, string], b *WorkflowNode) { b.AddDependency("c") },
		"SetStaticValue": func(wf *Workflow[string, string], b *WorkflowNode) { b.SetStaticValue(FieldPath{"x"}, 1) },
	} {
		wf, b := build()
		if _, err := wf.Compile(ctx); err != nil {
			t.Fatal(err)
		}
		modify(wf, b)
		if _, err := wf.Compile(ctx); !errors.Is(err, ErrGraphCompiled) {
			t.Fatalf("%s after Compile: next Compile returned %v, want ErrGraphCompiled", name, err)
		}
	}

	wf, _ := build()
	r1, err := wf.Compile(ctx)
	if err != nil {
		t.Fatal(err)
	}

	// the caller declares: after a, run c instead of b
	wf.AddBranch("a", NewGraphBranch(func(ctx context.Context, in string) (string, error) {
		return "c", nil
	}, map[string]bool{"b": true, "c": true}))

	r2, err := wf.Compile(ctx)
	if !errors.Is(err, ErrGraphCompiled) {
		out := "<none>"
		if err == nil {
			out, _ = r2.Invoke(ctx, "x")
		}
		t.Errorf("AddBranch after Compile: next Compile returned err=%v (want ErrGraphCompiled); "+
			"the runnable it returned ignores the declared branch, Invoke = %q", err, out)
	}

	// (the runnable compiled first is unaffected either way)
	if out, err := r1.Invoke(ctx, "x"); err != nil || out != "xab" {
		t.Errorf("first runnable: %q, %v", out, err)
	}
}
