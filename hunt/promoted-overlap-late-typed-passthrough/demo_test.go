// Place as compose/hunt_promoted_overlap_passthrough_test.go (package compose).
// Both tests fail on the current tree: the Workflow with the pass-through node declared before its
// (typed) successor compiles although two inputs of the pass-through node address the same field.
package compose

import (
	"context"
	"testing"
)

type HuntInner struct{ F string }
type HuntOuter struct {
	HuntInner
	G string
}

func buildPromotedWF(passFirst bool) (*Workflow[string, string], error) {
	wf := NewWorkflow[string, string]()
	addX := func() {
		wf.AddLambdaNode("X", InvokableLambda(func(ctx context.Context, in HuntOuter) (string, error) {
			return in.F + "|" + in.G, nil
		})).AddInput("p")
	}
	addP := func() {
		wf.AddPassthroughNode("p").
			AddInput("A", ToField("F")).
			AddInput("B", ToFieldPath(FieldPath{"HuntInner", "F"}))
	}
	wf.AddLambdaNode("A", InvokableLambda(func(ctx context.Context, in string) (string, error) { return "a" + in, nil })).AddInput(START)
	wf.AddLambdaNode("B", InvokableLambda(func(ctx context.Context, in string) (string, error) { return "b" + in, nil })).AddInput(START)
	if passFirst {
		addP()
		addX()
	} else {
		addX()
		addP()
	}
	wf.End().AddInput("X")
	return wf, nil
}

func TestHuntPromotedOverlapViaPassthrough(t *testing.T) {
	ctx := context.Background()
	for _, passFirst := range []bool{false, true} {
		wf, _ := buildPromotedWF(passFirst)
		r, err := wf.Compile(ctx)
		t.Logf("passFirst=%v compile err=%v", passFirst, err)
		if err == nil {
			seen := map[string]int{}
			for i := 0; i < 50; i++ {
				out, err := r.Invoke(ctx, "x")
				if err != nil {
					t.Fatalf("run: %v", err)
				}
				seen[out]++
			}
			t.Errorf("passFirst=%v: overlapping target paths F and HuntInner.F accepted; outputs over 50 runs: %v", passFirst, seen)
		}
	}
}

func TestHuntStaticVsMappingViaPassthrough(t *testing.T) {
	ctx := context.Background()
	for _, passFirst := range []bool{false, true} {
		wf := NewWorkflow[string, string]()
		addX := func() {
			wf.AddLambdaNode("X", InvokableLambda(func(ctx context.Context, in HuntOuter) (string, error) {
				return in.F + "|" + in.G, nil
			})).AddInput("p")
		}
		addP := func() {
			wf.AddPassthroughNode("p").
				AddInput("A", ToField("F")).
				SetStaticValue(FieldPath{"F"}, "static")
		}
		wf.AddLambdaNode("A", InvokableLambda(func(ctx context.Context, in string) (string, error) { return "a" + in, nil })).AddInput(START)
		if passFirst {
			addP()
			addX()
		} else {
			addX()
			addP()
		}
		wf.End().AddInput("X")
		r, err := wf.Compile(ctx)
		t.Logf("passFirst=%v compile err=%v", passFirst, err)
		if err == nil {
			seen := map[string]int{}
			for i := 0; i < 50; i++ {
				out, err := r.Invoke(ctx, "x")
				if err != nil {
					seen["ERR:"+err.Error()]++
					continue
				}
				seen[out]++
			}
			t.Errorf("passFirst=%v: target path F mapped and set statically, accepted; outputs over 50 runs: %v", passFirst, seen)
		}
	}
}
