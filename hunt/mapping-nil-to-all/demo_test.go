package compose

// Place as compose/hunt_demo_test.go (package compose, public API only).

import (
	"context"
	"io"
	"testing"
)

type huntNilMapOut struct {
	X any // interface-typed field: may hold nil
}

type huntNilMapFoo struct{ S string }

func huntNilMapCall(f func() error) (err error, panicked any) {
	defer func() {
		if p := recover(); p != nil {
			panicked = p
		}
	}()
	return f(), nil
}

// Workflow: field X (type any) of a's output is mapped to the ENTIRE input of b (FromField("X")),
// b takes a *huntNilMapFoo. a leaves X nil. nil is assignable to a pointer (the run-time checker of
// the mapping says so explicitly), so b must run with a nil pointer in every paradigm.
// Instead assignOne calls reflect.ValueOf(nil).Type(): Invoke panics on the caller's goroutine,
// the stream paradigms report the same panic as a node error.
func TestHuntMappingNilToEntireInput(t *testing.T) {
	ctx := context.Background()
	wf := NewWorkflow[string, string]()
	wf.AddLambdaNode("a", InvokableLambda(func(ctx context.Context, in string) (huntNilMapOut, error) {
		return huntNilMapOut{}, nil
	})).AddInput(START)
	wf.AddLambdaNode("b", InvokableLambda(func(ctx context.Context, in *huntNilMapFoo) (string, error) {
		if in == nil {
			return "b got nil", nil
		}
		return "b got " + in.S, nil
	})).AddInput("a", FromField("X"))
	wf.End().AddInput("b")
	r, err := wf.Compile(ctx)
	if err != nil {
		t.Fatal(err)
	}

	var out string
	err, p := huntNilMapCall(func() error {
		var e error
		out, e = r.Invoke(ctx, "s")
		return e
	})
	if p != nil {
		t.Errorf("Invoke panicked on the caller's goroutine: %v (want \"b got nil\")", p)
	} else if err != nil {
		t.Errorf("Invoke failed: %.200v (want \"b got nil\")", err)
	} else if out != "b got nil" {
		t.Errorf("Invoke = %q", out)
	}

	out = ""
	err, p = huntNilMapCall(func() error {
		sr, e := r.Stream(ctx, "s")
		if e != nil {
			return e
		}
		defer sr.Close()
		for {
			c, e := sr.Recv()
			if e == io.EOF {
				return nil
			}
			if e != nil {
				return e
			}
			out += c
		}
	})
	if p != nil {
		t.Errorf("Stream panicked: %v", p)
	} else if err != nil {
		t.Errorf("Stream failed: %.200v (want \"b got nil\")", err)
	} else if out != "b got nil" {
		t.Errorf("Stream = %q", out)
	}
}
