package compose

// Place as compose/hunt_demo_test.go (package compose, public API only).

import (
	"context"
	"fmt"
	"io"
	"testing"
)

func huntNilInCall(f func() error) (err error, panicked any) {
	defer func() {
		if p := recover(); p != nil {
			panicked = p
		}
	}()
	return f(), nil
}

// (a) A node whose input type is an interface (`any`) is handed a nil value: by the caller, or by
// its predecessor. The stream paradigms run the node with nil; Invoke fails inside the framework's
// type assertion before the node is called.
func TestHuntNilInterfaceInputNode(t *testing.T) {
	ctx := context.Background()
	g := NewGraph[string, string]()
	_ = g.AddLambdaNode("a", InvokableLambda(func(ctx context.Context, in string) (any, error) { return nil, nil }))
	_ = g.AddLambdaNode("b", InvokableLambda(func(ctx context.Context, in any) (string, error) { return fmt.Sprintf("b got %v", in), nil }))
	_ = g.AddEdge(START, "a")
	_ = g.AddEdge("a", "b")
	_ = g.AddEdge("b", END)
	r, err := g.Compile(ctx)
	if err != nil {
		t.Fatal(err)
	}

	sr, err := r.Stream(ctx, "x")
	if err != nil {
		t.Fatalf("Stream failed: %v", err)
	}
	var got string
	for {
		c, e := sr.Recv()
		if e == io.EOF {
			break
		}
		if e != nil {
			t.Fatalf("Stream chunk error: %v", e)
		}
		got += c
	}
	if got != "b got <nil>" {
		t.Fatalf("Stream = %q", got)
	}

	out, err := r.Invoke(ctx, "x")
	if err != nil {
		t.Errorf("Invoke failed although Stream of the same graph and input succeeds with %q: %.200v", got, err)
	} else if out != got {
		t.Errorf("Invoke = %q, Stream = %q", out, got)
	}
}

// (b) The same assertion in front of a branch condition runs on the caller's goroutine: Invoke panics.
func TestHuntNilInterfaceInputBranch(t *testing.T) {
	ctx := context.Background()
	g := NewGraph[string, string]()
	_ = g.AddLambdaNode("a", InvokableLambda(func(ctx context.Context, in string) (any, error) { return nil, nil }))
	_ = g.AddLambdaNode("b", InvokableLambda(func(ctx context.Context, in any) (string, error) { return "b", nil }))
	_ = g.AddLambdaNode("c", InvokableLambda(func(ctx context.Context, in any) (string, error) { return "c", nil }))
	_ = g.AddEdge(START, "a")
	_ = g.AddBranch("a", NewGraphBranch(func(ctx context.Context, in any) (string, error) {
		if in == nil {
			return "c", nil
		}
		return "b", nil
	}, map[string]bool{"b": true, "c": true}))
	_ = g.AddEdge("b", END)
	_ = g.AddEdge("c", END)
	r, err := g.Compile(ctx)
	if err != nil {
		t.Fatal(err)
	}

	var streamOut string
	err, p := huntNilInCall(func() error {
		sr, err := r.Stream(ctx, "x")
		if err != nil {
			return err
		}
		for {
			c, e := sr.Recv()
			if e == io.EOF {
				return nil
			}
			if e != nil {
				return e
			}
			streamOut += c
		}
	})
	if err != nil || p != nil || streamOut != "c" {
		t.Fatalf("Stream: out=%q err=%v panic=%v", streamOut, err, p)
	}

	var out string
	err, p = huntNilInCall(func() error {
		var e error
		out, e = r.Invoke(ctx, "x")
		return e
	})
	if p != nil {
		t.Errorf("Invoke panicked on the caller's goroutine (%v) although Stream of the same graph and input returns %q", p, streamOut)
	} else if err != nil {
		t.Errorf("Invoke failed (%.200v) although Stream returns %q", err, streamOut)
	} else if out != streamOut {
		t.Errorf("Invoke = %q, Stream = %q", out, streamOut)
	}
}
