package compose

// place as compose/hunt_chat_template_panic_demo_test.go

import (
	"context"
	"strings"
	"sync"
	"testing"

	"github.com/cloudwego/eino/callbacks"
	"github.com/cloudwego/eino/components/prompt"
	"github.com/cloudwego/eino/schema"
)

type tplPanicDemo struct{}

func (tplPanicDemo) Format(context.Context, map[string]any, schema.FormatType) ([]*schema.Message, error) {
	panic("template boom")
}

// prompt.DefaultChatTemplate fires its callbacks itself (IsCallbacksEnabled). When one of its templates panics the
// node's handlers see OnStart and then nothing: the unit never ends for them.
func TestHuntChatTemplatePanicHasNoEnd(t *testing.T) {
	ctx := context.Background()
	g := NewGraph[map[string]any, []*schema.Message]()
	_ = g.AddChatTemplateNode("tpl", prompt.FromMessages(schema.FString, tplPanicDemo{}))
	_ = g.AddEdge(START, "tpl")
	_ = g.AddEdge("tpl", END)
	r, err := g.Compile(ctx)
	if err != nil {
		t.Fatal(err)
	}
	var mu sync.Mutex
	var evs []string
	add := func(s string, info *callbacks.RunInfo) {
		mu.Lock()
		evs = append(evs, s+" "+string(info.Component))
		mu.Unlock()
	}
	h := callbacks.NewHandlerBuilder().
		OnStartFn(func(ctx context.Context, info *callbacks.RunInfo, _ callbacks.CallbackInput) context.Context {
			add("start", info)
			return ctx
		}).
		OnEndFn(func(ctx context.Context, info *callbacks.RunInfo, _ callbacks.CallbackOutput) context.Context {
			add("end", info)
			return ctx
		}).
		OnErrorFn(func(ctx context.Context, info *callbacks.RunInfo, _ error) context.Context {
			add("error", info)
			return ctx
		}).Build()
	_, err = r.Invoke(ctx, map[string]any{}, WithCallbacks(h))
	if err == nil || !strings.Contains(err.Error(), "template boom") {
		t.Fatalf("expected the run to fail with the panic, got %v", err)
	}
	var starts, ends int
	for _, e := range evs {
		switch e {
		case "start ChatTemplate":
			starts++
		case "end ChatTemplate", "error ChatTemplate":
			ends++
		}
	}
	if starts != 1 || ends != 1 {
		t.Fatalf("the ChatTemplate node started %d time(s) and ended (end or error) %d time(s) for the handler; expected 1 and 1. events: %v",
			starts, ends, evs)
	}
}
