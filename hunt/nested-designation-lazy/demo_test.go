package compose

// place as compose/hunt_nested_designation_lazy_test.go

import (
	"context"
	"fmt"
	"testing"
)

type ndlOpt struct{ v string }

func ndlGraph(t *testing.T) Runnable[string, string] {
	sub := NewGraph[string, string]()
	_ = sub.AddLambdaNode("x", InvokableLambdaWithOption(func(ctx context.Context, in string, opts ...ndlOpt) (string, error) {
		return fmt.Sprintf("%s|x%d", in, len(opts)), nil
	}))
	_ = sub.AddEdge(START, "x")
	_ = sub.AddEdge("x", END)

	g := NewGraph[string, string]()
	_ = g.AddGraphNode("sub", sub)
	_ = g.AddLambdaNode("other", InvokableLambda(func(ctx context.Context, in string) (string, error) { return in + "|other", nil }))
	_ = g.AddBranch(START, NewGraphBranch(func(ctx context.Context, in string) (string, error) { return in, nil },
		map[string]bool{"sub": true, "other": true}))
	_ = g.AddEdge("sub", END)
	_ = g.AddEdge("other", END)
	r, err := g.Compile(context.Background())
	if err != nil {
		t.Fatal(err)
	}
	return r
}

func TestHuntNestedDesignationLazy(t *testing.T) {
	r := ndlGraph(t)
	ctx := context.Background()

	good := WithLambdaOption(ndlOpt{"a"}).DesignateNodeWithPath(NewNodePath("sub", "x"))
	if out, err := r.Invoke(ctx, "sub", good); err != nil || out != "sub|x1" {
		t.Fatalf("sanity: out=%q err=%v", out, err)
	}
	if out, err := r.Invoke(ctx, "other", good); err != nil || out != "other|other" {
		t.Fatalf("sanity: out=%q err=%v", out, err)
	}

	bad := map[string]Option{
		"unknown node sub/nope":             WithLambdaOption(ndlOpt{"a"}).DesignateNodeWithPath(NewNodePath("sub", "nope")),
		"wrong option type for sub/x":       WithLambdaOption("a string").DesignateNodeWithPath(NewNodePath("sub", "x")),
		"path sub/x/y below non-graph node": WithLambdaOption(ndlOpt{"a"}).DesignateNodeWithPath(NewNodePath("sub", "x", "y")),
	}
	for name, opt := range bad {
		// the branch selects the nested graph: the designation is found to be wrong
		if _, err := r.Invoke(ctx, "sub", opt); err == nil {
			t.Errorf("%s: expected an error when the nested graph runs", name)
		}
		// the branch selects the other node: the very same call option must be an error as well
		if out, err := r.Invoke(ctx, "other", opt); err == nil {
			t.Errorf("%s: is an error of the call, but Invoke succeeded (out=%q) because the nested graph did not run", name, out)
		}
	}
}
