package compose_test

import (
	"context"
	"fmt"
	"testing"

	"github.com/cloudwego/eino/compose"
)

// place as compose/hunt_stale_start_type_test.go

// p, q1, q2 are pass-through nodes, p -> q1 and p -> q2.
// q1 gets its type (string) from a branch condition, q2 gets its type (int) from another one.
// p cannot be string and int at the same time: the graph must be rejected.
func buildStaleStartType() (compose.Runnable[int, string], error) {
	g := compose.NewGraph[int, string]()
	_ = g.AddPassthroughNode("p")
	_ = g.AddPassthroughNode("q1")
	_ = g.AddPassthroughNode("q2")
	_ = g.AddLambdaNode("a", compose.InvokableLambda(func(ctx context.Context, in string) (string, error) { return in, nil }))
	_ = g.AddEdge("p", "q1") // nothing is typed yet: both edges wait in toValidateMap
	_ = g.AddEdge("p", "q2")
	// multi-choice branches that (so far) have no target: they only observe the value
	_ = g.AddBranch("q1", compose.NewGraphMultiBranch(func(ctx context.Context, in string) (map[string]bool, error) { return nil, nil }, map[string]bool{}))
	_ = g.AddBranch("q2", compose.NewGraphMultiBranch(func(ctx context.Context, in int) (map[string]bool, error) { return nil, nil }, map[string]bool{}))
	_ = g.AddEdge(compose.START, "p")
	_ = g.AddEdge("q1", "a")
	_ = g.AddEdge("a", compose.END)
	return g.Compile(context.Background())
}

func TestHuntPassthroughStaleStartType(t *testing.T) {
	compiled, rejected := 0, 0
	var runResult string
	for i := 0; i < 100; i++ {
		r, err := buildStaleStartType()
		if err != nil {
			rejected++
			continue
		}
		compiled++
		func() {
			defer func() {
				if p := recover(); p != nil {
					runResult = fmt.Sprintf("PANIC on the caller's goroutine: %v", p)
				}
			}()
			out, err := r.Invoke(context.Background(), 1)
			runResult = fmt.Sprintf("out=%q err=%v", out, err)
		}()
	}
	if compiled != 0 {
		t.Fatalf("an int-typed and a string-typed pass-through node hang on the same pass-through predecessor: "+
			"Compile must reject this, it succeeded %d times out of %d; running a compiled instance: %s",
			compiled, compiled+rejected, runResult)
	}
}
