package compose_test

import (
	"context"
	"io"
	"reflect"
	"strings"
	"testing"

	"github.com/cloudwego/eino/compose"
)

// place as compose/hunt_skipped_target_test.go

// A "type switch" in a Workflow: n0 produces an `any`, a branch looks at the dynamic type and selects the
// consumer that is declared with that type. Both consumers read n0's output (WithNoDirectDependency: the
// branch handles the execution order, as the documentation of that option prescribes for branches).
//
// selector == "n0": the branch sits on n0 itself;
// selector == "sel": the branch sits on a node that runs after n0.
func buildTypeSwitch(t *testing.T, selector string, wrongChoice bool) compose.Runnable[string, map[string]any] {
	wf := compose.NewWorkflow[string, map[string]any]()
	wf.AddLambdaNode("n0", compose.InvokableLambda(func(ctx context.Context, in string) (any, error) {
		if in == "int" {
			return 42, nil
		}
		return "str", nil
	})).AddInput(compose.START)
	if selector != "n0" {
		wf.AddLambdaNode(selector, compose.InvokableLambda(func(ctx context.Context, in any) (any, error) { return in, nil })).AddInput("n0")
	}
	wf.AddLambdaNode("xs", compose.InvokableLambda(func(ctx context.Context, in string) (string, error) { return "S:" + in, nil })).
		AddInputWithOptions("n0", nil, compose.WithNoDirectDependency())
	wf.AddLambdaNode("xi", compose.InvokableLambda(func(ctx context.Context, in int) (string, error) { return "I", nil })).
		AddInputWithOptions("n0", nil, compose.WithNoDirectDependency())
	wf.AddBranch(selector, compose.NewGraphBranch(func(ctx context.Context, in any) (string, error) {
		_, isInt := in.(int)
		if isInt != wrongChoice {
			return "xi", nil
		}
		return "xs", nil
	}, map[string]bool{"xs": true, "xi": true}))
	wf.End().AddInput("xs", compose.ToField("s")).AddInput("xi", compose.ToField("i"))
	r, err := wf.Compile(context.Background())
	if err != nil {
		t.Fatal(err)
	}
	return r
}

func typeSwitchStream(r compose.Runnable[string, map[string]any], in string) (map[string]any, error) {
	sr, err := r.Stream(context.Background(), in)
	if err != nil {
		return nil, err
	}
	defer sr.Close()
	out := map[string]any{}
	for {
		c, e := sr.Recv()
		if e == io.EOF {
			return out, nil
		}
		if e != nil {
			return nil, e
		}
		for k, v := range c {
			out[k] = v
		}
	}
}

func TestHuntSkippedTargetEdgeCheck(t *testing.T) {
	for _, selector := range []string{"n0", "sel"} {
		r := buildTypeSwitch(t, selector, false)
		for in, want := range map[string]map[string]any{"str": {"s": "S:str"}, "int": {"i": "I"}} {
			st, stErr := typeSwitchStream(r, in)
			if stErr != nil || !reflect.DeepEqual(st, want) {
				t.Errorf("branch on %s, input %q: Stream: want %v, got %v, err=%v", selector, in, want, st, stErr)
			}
			inv, invErr := r.Invoke(context.Background(), in)
			if invErr != nil || !reflect.DeepEqual(inv, want) {
				t.Errorf("branch on %s, input %q: Stream returns %v, Invoke of the same workflow and input: %v, err=%v",
					selector, in, st, inv, invErr)
			}
		}
	}
}

// guard: when the branch sends the value to the consumer of the other type, both forms report an error
func TestHuntSkippedTargetEdgeCheckStillReports(t *testing.T) {
	r := buildTypeSwitch(t, "n0", true)
	_, invErr := r.Invoke(context.Background(), "int")
	_, stErr := typeSwitchStream(r, "int")
	if invErr == nil || stErr == nil || !strings.Contains(invErr.Error(), "runtime type check") {
		t.Errorf("an int routed to the string consumer must fail in both forms: invoke err=%v, stream err=%v", invErr, stErr)
	}
}
