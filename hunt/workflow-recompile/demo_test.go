package compose_test

import (
	"context"
	"sync/atomic"
	"testing"

	"github.com/cloudwego/eino/compose"
)

// place as compose/hunt_wf_recompile_test.go

type recompileCB func(info *compose.GraphInfo)

func (f recompileCB) OnFinish(ctx context.Context, info *compose.GraphInfo) { f(info) }

// The caller forgets END, Compile reports "end node not set", the caller adds it and compiles again.
// The branch declared once is now in the graph twice.
func TestHuntWorkflowRecompileDuplicatesBranch(t *testing.T) {
	ctx := context.Background()
	id := func(ctx context.Context, in string) (string, error) { return in, nil }
	var calls int32

	wf := compose.NewWorkflow[string, map[string]any]()
	wf.AddLambdaNode("a", compose.InvokableLambda(id)).AddInput(compose.START)
	wf.AddLambdaNode("b", compose.InvokableLambda(id)).AddInputWithOptions("a", nil, compose.WithNoDirectDependency())
	wf.AddLambdaNode("c", compose.InvokableLambda(id)).AddInputWithOptions("a", nil, compose.WithNoDirectDependency())
	// alternates between its two targets from call to call
	wf.AddBranch("a", compose.NewGraphBranch(func(ctx context.Context, in string) (string, error) {
		if atomic.AddInt32(&calls, 1)%2 == 1 {
			return "b", nil
		}
		return "c", nil
	}, map[string]bool{"b": true, "c": true}))

	if _, err := wf.Compile(ctx); err == nil {
		t.Fatal("expected 'end node not set'")
	}

	wf.End().AddInput("b", compose.ToField("b")).AddInput("c", compose.ToField("c"))

	var branches int
	r, err := wf.Compile(ctx, compose.WithGraphCompileCallbacks(recompileCB(func(info *compose.GraphInfo) {
		branches = len(info.Branches["a"])
	})))
	if err != nil {
		t.Fatalf("second compile: %v", err)
	}
	if branches != 1 {
		t.Errorf("one branch was declared on node a, the compiled graph has %d", branches)
	}

	out, err := r.Invoke(ctx, "x")
	if err != nil {
		t.Fatal(err)
	}
	if n := atomic.LoadInt32(&calls); n != 1 {
		t.Errorf("the branch condition must be evaluated once per run, it was evaluated %d times", n)
	}
	_, ranB := out["b"]
	_, ranC := out["c"]
	if ranB && ranC {
		t.Errorf("a single-choice branch selected both of its targets in one run: %v", out)
	}
}

type recompileIn struct{ A, B string }

// The same sequence with a static value: the second Compile fails for good, blaming a conflict of the
// static value with itself.
func TestHuntWorkflowRecompileStaticValue(t *testing.T) {
	ctx := context.Background()
	wf := compose.NewWorkflow[string, string]()
	wf.AddLambdaNode("n", compose.InvokableLambda(func(ctx context.Context, in recompileIn) (string, error) { return in.A + in.B, nil })).
		AddInput(compose.START, compose.ToField("A")).
		SetStaticValue(compose.FieldPath{"B"}, "s")

	if _, err := wf.Compile(ctx); err == nil {
		t.Fatal("expected 'end node not set'")
	}
	wf.End().AddInput("n")
	r, err := wf.Compile(ctx)
	if err != nil {
		t.Fatalf("the workflow is well-formed now, Compile must succeed; got: %v", err)
	}
	if out, err := r.Invoke(ctx, "x"); err != nil || out != "xs" {
		t.Fatalf("want xs, got %q, %v", out, err)
	}
}

// Compiling a compiled Workflow once more (which works without static values) fails the same way.
func TestHuntWorkflowCompileTwiceStaticValue(t *testing.T) {
	ctx := context.Background()
	wf := compose.NewWorkflow[string, string]()
	wf.AddLambdaNode("n", compose.InvokableLambda(func(ctx context.Context, in recompileIn) (string, error) { return in.A + in.B, nil })).
		AddInput(compose.START, compose.ToField("A")).
		SetStaticValue(compose.FieldPath{"B"}, "s")
	wf.End().AddInput("n")
	if _, err := wf.Compile(ctx); err != nil {
		t.Fatal(err)
	}
	r, err := wf.Compile(ctx)
	if err != nil {
		t.Fatalf("second Compile of the unchanged workflow: %v", err)
	}
	if out, err := r.Invoke(ctx, "x"); err != nil || out != "xs" {
		t.Fatalf("want xs, got %q, %v", out, err)
	}
}
