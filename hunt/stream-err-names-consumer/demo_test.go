// Place this file at compose/hunt_stream_err_names_consumer_test.go (package compose) and run
//
//	go test -mod=mod -vet=off -count=1 -run TestHuntStreamErr ./compose/
//
// Commit concerned: dfbbfb9 "an error item on a node's output stream names that node" (incomplete).
// A streaming producer P fails half-way (an error item on its output stream). Its successor C is an ordinary
// invoke-only (or collect-only) node, so in the stream paradigms C's wrapper reads P's stream at call time,
// inside C's own task. The run error then names C, the healthy consumer, exactly what dfbbfb9 set out to
// repair; Invoke names P.
package compose

import (
	"context"
	"errors"
	"io"
	"strings"
	"testing"

	"github.com/cloudwego/eino/schema"
)

var errHuntStreamBoom = errors.New("hunt: producer failed half-way")

func huntFailingProducer() *Lambda {
	return StreamableLambda(func(ctx context.Context, in string) (*schema.StreamReader[string], error) {
		sr, sw := schema.Pipe[string](2)
		go func() {
			defer sw.Close()
			sw.Send("a", nil)
			sw.Send("", errHuntStreamBoom)
		}()
		return sr, nil
	})
}

// the node path of the run error, as the error prints it (there is no public accessor)
func huntNodePathLine(err error) string {
	msg := err.Error()
	i := strings.LastIndex(msg, "node path: ")
	if i < 0 {
		return "<none>"
	}
	return msg[i:]
}

func huntRunAll(t *testing.T, r Runnable[string, string]) map[string]error {
	t.Helper()
	ctx := context.Background()
	errs := map[string]error{}

	_, errs["Invoke"] = r.Invoke(ctx, "x")

	readAll := func(sr *schema.StreamReader[string], err error) error {
		if err != nil {
			return err
		}
		defer sr.Close()
		for {
			_, e := sr.Recv()
			if e == io.EOF {
				return nil
			}
			if e != nil {
				return e
			}
		}
	}
	errs["Stream"] = readAll(r.Stream(ctx, "x"))
	errs["Transform"] = readAll(r.Transform(ctx, schema.StreamReaderFromArray([]string{"x"})))
	_, errs["Collect"] = r.Collect(ctx, schema.StreamReaderFromArray([]string{"x"}))
	return errs
}

func huntCheck(t *testing.T, errs map[string]error, want string) {
	t.Helper()
	for _, p := range []string{"Invoke", "Stream", "Transform", "Collect"} {
		err := errs[p]
		if err == nil {
			t.Errorf("%s: no error", p)
			continue
		}
		if !errors.Is(err, errHuntStreamBoom) {
			t.Errorf("%s: the producer's error cannot be matched: %v", p, err)
		}
		if got := huntNodePathLine(err); got != want {
			t.Errorf("%s: the run error names %q, want %q (the node that failed)", p, got, want)
		}
	}
}

// P (streams, fails half-way) -> C (invoke-only) -> END
func TestHuntStreamErrNamesProducerNotInvokeOnlyConsumer(t *testing.T) {
	g := NewGraph[string, string]()
	_ = g.AddLambdaNode("P", huntFailingProducer())
	_ = g.AddLambdaNode("C", InvokableLambda(func(ctx context.Context, in string) (string, error) { return in, nil }))
	_ = g.AddEdge(START, "P")
	_ = g.AddEdge("P", "C")
	_ = g.AddEdge("C", END)
	r, err := g.Compile(context.Background())
	if err != nil {
		t.Fatal(err)
	}
	huntCheck(t, huntRunAll(t, r), "node path: [P]")
}

// the same with a collect-only consumer, in a Workflow (eager execution)
func TestHuntStreamErrNamesProducerNotCollectConsumer(t *testing.T) {
	wf := NewWorkflow[string, string]()
	wf.AddLambdaNode("P", huntFailingProducer()).AddInput(START)
	wf.AddLambdaNode("C", CollectableLambda(func(ctx context.Context, in *schema.StreamReader[string]) (string, error) {
		defer in.Close()
		var sb strings.Builder
		for {
			s, e := in.Recv()
			if e == io.EOF {
				return sb.String(), nil
			}
			if e != nil {
				return "", e
			}
			sb.WriteString(s)
		}
	})).AddInput("P")
	wf.End().AddInput("C")
	r, err := wf.Compile(context.Background())
	if err != nil {
		t.Fatal(err)
	}
	huntCheck(t, huntRunAll(t, r), "node path: [P]")
}

// the producer sits in a nested graph: Invoke names [sub, P], the stream paradigms name the outer consumer
func TestHuntStreamErrNamesNestedProducer(t *testing.T) {
	inner := NewGraph[string, string]()
	_ = inner.AddLambdaNode("P", huntFailingProducer())
	_ = inner.AddEdge(START, "P")
	_ = inner.AddEdge("P", END)

	g := NewGraph[string, string]()
	_ = g.AddGraphNode("sub", inner)
	_ = g.AddLambdaNode("C", InvokableLambda(func(ctx context.Context, in string) (string, error) { return in, nil }))
	_ = g.AddEdge(START, "sub")
	_ = g.AddEdge("sub", "C")
	_ = g.AddEdge("C", END)
	r, err := g.Compile(context.Background())
	if err != nil {
		t.Fatal(err)
	}
	huntCheck(t, huntRunAll(t, r), "node path: [sub, P]")
}
