package compose

// Place as compose/hunt_demo_steplimit_test.go (package compose, public API only).

import (
	"context"
	"errors"
	"strings"
	"testing"
)

type stepDemoStore struct{ m map[string][]byte }

func (s *stepDemoStore) Get(_ context.Context, id string) ([]byte, bool, error) {
	v, ok := s.m[id]
	return v, ok, nil
}
func (s *stepDemoStore) Set(_ context.Context, id string, b []byte) error {
	s.m[id] = append([]byte(nil), b...)
	return nil
}

// START -> a -> b -> (a | END): the loop is taken until the value holds `rounds` times "b".
// One round costs two supersteps.
func stepDemoGraph(t *testing.T, rounds, maxSteps int, before []string, store CheckPointStore) (Runnable[string, string], *int) {
	executed := new(int)
	g := NewGraph[string, string]()
	_ = g.AddLambdaNode("a", InvokableLambda(func(ctx context.Context, in string) (string, error) { *executed++; return in + "a", nil }))
	_ = g.AddLambdaNode("b", InvokableLambda(func(ctx context.Context, in string) (string, error) { *executed++; return in + "b", nil }))
	_ = g.AddEdge(START, "a")
	_ = g.AddEdge("a", "b")
	_ = g.AddBranch("b", NewGraphBranch(func(ctx context.Context, in string) (string, error) {
		if strings.Count(in, "b") < rounds {
			return "a", nil
		}
		return END, nil
	}, map[string]bool{"a": true, END: true}))
	opts := []GraphCompileOption{WithMaxRunSteps(maxSteps), WithCheckPointStore(store)}
	if len(before) > 0 {
		opts = append(opts, WithInterruptBeforeNodes(before))
	}
	r, err := g.Compile(context.Background(), opts...)
	if err != nil {
		t.Fatal(err)
	}
	return r, executed
}

func TestDemoStepLimitIsResetByResume(t *testing.T) {
	ctx := context.Background()

	// 4 rounds need 8 supersteps, the limit is 6: the uninterrupted run fails with the sentinel
	r, n := stepDemoGraph(t, 4, 6, nil, &stepDemoStore{m: map[string][]byte{}})
	_, err := r.Invoke(ctx, "")
	if !errors.Is(err, ErrExceedMaxSteps) {
		t.Fatalf("uninterrupted run: expected ErrExceedMaxSteps, got %v", err)
	}
	refExecuted := *n

	// the same graph and input with an interrupt point inside the loop, resumed until it ends
	r, n = stepDemoGraph(t, 4, 6, []string{"b"}, &stepDemoStore{m: map[string][]byte{}})
	for i := 0; ; i++ {
		out, err := r.Invoke(ctx, "", WithCheckPointID("cp"))
		if _, ok := ExtractInterruptInfo(err); ok {
			if i > 20 {
				t.Fatal("too many interrupts")
			}
			continue
		}
		if !errors.Is(err, ErrExceedMaxSteps) {
			t.Fatalf("C01/C05: the uninterrupted run stops with ErrExceedMaxSteps after %d node executions (limit 6 supersteps); "+
				"interrupted before every execution of b and resumed, the same run used %d node executions and ended with out=%q err=%v: "+
				"the step counter restarts at every resume, so the limit no longer bounds the run", refExecuted, *n, out, err)
		}
		break
	}

	// control: 3 rounds need exactly 6 supersteps and must succeed, interrupted or not
	r, _ = stepDemoGraph(t, 3, 6, nil, &stepDemoStore{m: map[string][]byte{}})
	if out, err := r.Invoke(ctx, ""); err != nil || out != "ababab" {
		t.Fatalf("control, uninterrupted: %q %v", out, err)
	}
	r, _ = stepDemoGraph(t, 3, 6, []string{"b"}, &stepDemoStore{m: map[string][]byte{}})
	for i := 0; ; i++ {
		out, err := r.Invoke(ctx, "", WithCheckPointID("cp"))
		if _, ok := ExtractInterruptInfo(err); ok && i < 20 {
			continue
		}
		if err != nil || out != "ababab" {
			t.Fatalf("control, interrupted+resumed: %q %v", out, err)
		}
		break
	}

	// a loop that never ends: with an interrupt point inside it, every resume gets a fresh budget
	r, n = stepDemoGraph(t, 1<<30, 6, []string{"b"}, &stepDemoStore{m: map[string][]byte{}})
	for i := 0; i < 30; i++ {
		_, err := r.Invoke(ctx, "", WithCheckPointID("cp"))
		if _, ok := ExtractInterruptInfo(err); ok {
			continue
		}
		if errors.Is(err, ErrExceedMaxSteps) {
			return
		}
		t.Fatalf("unexpected result: %v", err)
	}
	t.Fatalf("C01: a cyclic graph limited to 6 supersteps executed %d nodes over 30 resumes and never hit the limit", *n)
}
