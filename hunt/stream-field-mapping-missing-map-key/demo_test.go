package compose

// Place this file at compose/hunt_fm_missing_map_key_test.go and run
//   go test -vet=off -count=1 -run TestHuntFMMissingMapKey ./compose/
//
// Field-mapping twin of round-1 finding 7 (WithInputKey): a mapping from a map key that the predecessor's
// output does not hold. Invoke reports "key not found in input" (b772362: request-time problems of the source
// walk are errors). In stream form the walk is told to tolerate a missing key per chunk (a chunk may hold only
// some of the keys) and nothing ever checks that the key turned up at all: the successor is handed a stream
// without any item, a stream-native successor runs on it, and Stream/Transform succeed with an empty output
// where Invoke (and Collect) fail.

import (
	"context"
	"io"
	"testing"

	"github.com/cloudwego/eino/schema"
)

func TestHuntFMMissingMapKey(t *testing.T) {
	ctx := context.Background()
	producer := func() *Lambda {
		return InvokableLambda(func(ctx context.Context, in string) (map[string]any, error) {
			return map[string]any{"x": in}, nil
		})
	}
	builders := map[string]func(ran *int) (Runnable[string, map[string]any], error){
		// the mapped successor is a stream-native node
		"to-node": func(ran *int) (Runnable[string, map[string]any], error) {
			wf := NewWorkflow[string, map[string]any]()
			wf.AddLambdaNode("a", producer()).AddInput(START)
			wf.AddLambdaNode("b", TransformableLambda(func(ctx context.Context, in *schema.StreamReader[map[string]any]) (*schema.StreamReader[map[string]any], error) {
				*ran++
				return schema.StreamReaderWithConvert(in, func(m map[string]any) (map[string]any, error) { return m, nil }), nil
			})).AddInput("a", MapFields("missing", "k"))
			wf.End().AddInput("b")
			return wf.Compile(ctx)
		},
		// the mapping leads straight to END
		"to-END": func(ran *int) (Runnable[string, map[string]any], error) {
			wf := NewWorkflow[string, map[string]any]()
			wf.AddLambdaNode("a", producer()).AddInput(START)
			wf.End().AddInput("a", MapFields("missing", "k"))
			return wf.Compile(ctx)
		},
		// the source is START itself
		"from-START": func(ran *int) (Runnable[string, map[string]any], error) {
			inner := NewWorkflow[map[string]any, map[string]any]()
			inner.End().AddInput(START, MapFields("missing", "k"))
			g := NewGraph[string, map[string]any]()
			_ = g.AddLambdaNode("a", producer())
			_ = g.AddGraphNode("w", inner)
			_ = g.AddEdge(START, "a")
			_ = g.AddEdge("a", "w")
			_ = g.AddEdge("w", END)
			return g.Compile(ctx)
		},
	}
	for name, build := range builders {
		t.Run(name, func(t *testing.T) {
			ran := 0
			r, err := build(&ran)
			if err != nil {
				t.Fatal(err)
			}
			_, invokeErr := r.Invoke(ctx, "in")
			if invokeErr == nil {
				t.Fatalf("Invoke is expected to fail: the mapped key does not exist")
			}
			if ran != 0 {
				t.Fatalf("Invoke: the successor ran although its input could not be assembled")
			}
			for _, call := range []string{"Stream", "Transform"} {
				var sr *schema.StreamReader[map[string]any]
				var err error
				if call == "Stream" {
					sr, err = r.Stream(ctx, "in")
				} else {
					sr, err = r.Transform(ctx, schema.StreamReaderFromArray([]string{"i", "n"}))
				}
				chunks := 0
				for err == nil {
					_, e := sr.Recv()
					if e == io.EOF {
						break
					}
					if e != nil {
						err = e
						break
					}
					chunks++
				}
				if err == nil {
					t.Errorf("%s: no error at call time and none on the stream (%d chunks, the mapped successor ran %d times); Invoke: %v", call, chunks, ran, invokeErr)
				}
			}
		})
	}
}
