package compose

// Place as compose/hunt_demo_test.go (package compose, public API only).

import (
	"context"
	"io"
	"reflect"
	"testing"
)

// A node with an interface-typed output (`any`) returns nil; its output key wraps the value into
// map[string]any{"k": nil}. Invoke returns that map. In the stream paradigms the key wrapper is a
// schema.StreamReaderWithConvert over the node's stream, and its type assertion on the nil chunk
// panics on the goroutine that calls Recv - here the caller of Stream.
func TestHuntConvertNilChunk(t *testing.T) {
	ctx := context.Background()
	g := NewGraph[string, map[string]any]()
	_ = g.AddLambdaNode("a", InvokableLambda(func(ctx context.Context, in string) (any, error) { return nil, nil }), WithOutputKey("k"))
	_ = g.AddEdge(START, "a")
	_ = g.AddEdge("a", END)
	r, err := g.Compile(ctx)
	if err != nil {
		t.Fatal(err)
	}

	want, err := r.Invoke(ctx, "x")
	if err != nil {
		t.Fatalf("Invoke failed: %v", err)
	}
	if !reflect.DeepEqual(want, map[string]any{"k": nil}) {
		t.Fatalf("Invoke = %v", want)
	}

	defer func() {
		if p := recover(); p != nil {
			t.Errorf("reading the output of Stream panicked on the caller's goroutine: %v; Invoke of the same graph and input returns %v", p, want)
		}
	}()
	sr, err := r.Stream(ctx, "x")
	if err != nil {
		t.Fatalf("Stream failed: %v", err)
	}
	got := map[string]any{}
	for {
		c, e := sr.Recv()
		if e == io.EOF {
			break
		}
		if e != nil {
			t.Fatalf("Stream chunk error: %v", e)
		}
		for k, v := range c {
			got[k] = v
		}
	}
	if !reflect.DeepEqual(got, want) {
		t.Errorf("Stream = %v, Invoke = %v", got, want)
	}
}
